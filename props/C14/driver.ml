(* C14 model driver.
   no argument: stdin lines "I bs mtime comp" / "R hexfile" (numbers in hex) -> same line format as h_super.c
   "trace <log>": evaluates the extracted trace_okb / commit_index / apply / accepts on a trace logged by shim_io.c *)
open C14_model

let rec pos_of_bits = function            (* bits LSB first, last one is the top 1 bit *)
  | [] -> XH
  | [true] -> XH
  | b :: r -> if b then XI (pos_of_bits r) else XO (pos_of_bits r)

let n_of_hex (s : string) : n =
  (* bits LSB first *)
  let bits = ref [] in
  String.iter (fun c ->
    let v = int_of_string ("0x" ^ String.make 1 c) in
    (* append 4 bits, MSB first into a reversed accumulator *)
    bits := ((v land 8) <> 0) :: !bits;
    bits := ((v land 4) <> 0) :: !bits;
    bits := ((v land 2) <> 0) :: !bits;
    bits := ((v land 1) <> 0) :: !bits) s;
  (* !bits is now LSB first *)
  let l = !bits in
  (* strip high zero bits *)
  let rec strip = function [] -> [] | false :: r -> strip r | l -> l in
  let l' = List.rev (strip (List.rev l)) in
  if l' = [] then N0 else Npos (pos_of_bits l')

let rec bits_of_pos = function XH -> [true] | XO p -> false :: bits_of_pos p | XI p -> true :: bits_of_pos p

let hex_of_n (x : n) : string =
  match x with
  | N0 -> "0"
  | Npos p ->
    let bits = Array.of_list (bits_of_pos p) in
    let nb = Array.length bits in
    let nn = (nb + 3) / 4 in
    let b = Buffer.create nn in
    for i = nn - 1 downto 0 do
      let v = ref 0 in
      for j = 3 downto 0 do
        let idx = 4 * i + j in
        v := !v * 2 + (if idx < nb && bits.(idx) then 1 else 0)
      done;
      Buffer.add_char b "0123456789abcdef".[!v]
    done;
    Buffer.contents b

let rec int_of_pos = function XH -> 1 | XO p -> 2 * int_of_pos p | XI p -> 2 * int_of_pos p + 1
let int_of_n = function N0 -> 0 | Npos p -> int_of_pos p
let int_of_z = function Z0 -> 0 | Zpos p -> int_of_pos p | Zneg p -> - (int_of_pos p)
let rec int_of_nat = function O -> 0 | S n -> 1 + int_of_nat n

(* small table for bytes *)
let byte_tab : n array = Array.init 256 (fun i -> n_of_hex (Printf.sprintf "%x" i))

let bytes_of_hex (s : string) : n list =
  if s = "-" then [] else begin
    let n = String.length s / 2 in
    let r = ref [] in
    for i = n - 1 downto 0 do
      r := byte_tab.(int_of_string ("0x" ^ String.sub s (2 * i) 2)) :: !r
    done;
    !r
  end

let hex_of_bytes (l : n list) : string =
  let b = Buffer.create 256 in
  List.iter (fun c -> Buffer.add_string b (Printf.sprintf "%02x" (int_of_n c))) l;
  Buffer.contents b

let md5_of_bytes (l : n list) : string =
  let b = Buffer.create 4096 in
  List.iter (fun c -> Buffer.add_char b (Char.chr (int_of_n c land 255))) l;
  Digest.to_hex (Digest.string (Buffer.contents b))

let split_ws s = List.filter (fun x -> x <> "") (String.split_on_char ' ' s)

let fields_line (s : super) : string =
  String.concat " " (List.map hex_of_n
    [ s.s_magic; s.s_inode_count; s.s_mtime; s.s_block_size; s.s_frag_count; s.s_comp_id;
      s.s_block_log; s.s_flags; s.s_id_count; s.s_vmaj; s.s_vmin; s.s_root_ref; s.s_bytes_used;
      s.s_id_start; s.s_xattr_start; s.s_inode_start; s.s_dir_start; s.s_frag_start;
      s.s_export_start ])

let component () =
  try
    while true do
      let line = input_line stdin in
      match split_ws line with
      | ["I"; bs; mt; comp] ->
        (match super_init (n_of_hex bs) (n_of_hex mt) (n_of_hex comp) with
         | Ok s -> Printf.printf "I 0 0 %s\n" (hex_of_bytes (encode s))
         | Err e -> Printf.printf "I %d\n" (int_of_z e)
         | OutOfFuel -> Printf.printf "I FUEL\n")
      | ["R"; h] ->
        let f = bytes_of_hex h in
        (match super_read f with
         | Ok s ->
           let (_, e2) = open_verdict f in
           Printf.printf "R 0 %d %s\n" (int_of_z e2) (fields_line s)
         | Err e -> Printf.printf "R %d -\n" (int_of_z e)
         | OutOfFuel -> Printf.printf "R FUEL\n")
      | _ -> print_string "BAD\n"
    done
  with End_of_file -> ()

(* shim log -> events; only calls that succeeded change the file *)
let read_trace path =
  let ic = open_in path in
  let evs = ref [] and odd = ref [] and short = ref 0 in
  (try
    while true do
      let line = input_line ic in
      match split_ws line with
      | ["W"; off; ret; req; h] ->
        let r = int_of_string ret in
        if r <> int_of_string req then short := !short + 1;
        if r < 0 then odd := ("failed-write:" ^ off) :: !odd
        else evs := PWrite (n_of_hex (Printf.sprintf "%x" (int_of_string off)), bytes_of_hex h) :: !evs
      | ["T"; len; ret] ->
        if int_of_string ret <> 0 then odd := ("failed-truncate:" ^ len) :: !odd
        else evs := Truncate (n_of_hex (Printf.sprintf "%x" (int_of_string len))) :: !evs
      | "X" :: name :: _ -> odd := ("unmodelled-call:" ^ name) :: !odd
      | [] -> ()
      | _ -> odd := ("unparsed:" ^ line) :: !odd
    done
  with End_of_file -> close_in ic);
  (List.rev !evs, List.rev !odd, !short)

let trace path =
  let (evs, odd, short) = read_trace path in
  let n = List.length evs in
  Printf.printf "TRACE n=%d ok=%d commit=%d size=%s short=%d odd=%s\n" n
    (if trace_okb evs then 1 else 0) (int_of_nat (commit_index evs))
    (hex_of_n (size_after evs)) short
    (if odd = [] then "-" else String.concat "," odd);
  let f = ref [] in
  let sz = ref N0 in
  let show k =
    (* image_of takes bytes_used of the superblock as a list length: only when it is inside the file *)
    let img = if N.leb (decode !f).s_bytes_used !sz then md5_of_bytes (image_of !f) else "-" in
    Printf.printf "K %d %d %s %s %s\n" k (if accepts !f then 1 else 0) (hex_of_n !sz)
      (md5_of_bytes !f) img in
  show 0;
  List.iteri (fun i e ->
    f := apply_ev !f e;
    sz := size_ev !sz e;
    show (i + 1)) evs

let () =
  if Array.length Sys.argv >= 3 && Sys.argv.(1) = "trace" then trace Sys.argv.(2)
  else component ()
