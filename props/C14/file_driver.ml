(* C14 descriptor driver (extracted: coq/C14/FileLenModel.v through coq/Extract/ExtractC14File.v).

   stdin, one call sequence per line (the input format of props/C14/h_file.c):
       w<off>:<len>:<seed>   FWrite off d      d[i] = (seed + 7 * i) land 255
       t<n>                  FTrunc n
   The sequence is run from fd0 with fd_step Physical, one call at a time.  stdout, one line per sequence:

       M <size>,<len>,<ok>,<app> ... | <len before close> <len after close> <hash of the file, as h_file.c> [<fops_ok> <agree>]

     size   fd_size after the call            (what get_size() must say)
     len    flen (fd_file) after the call     (what stat(2) must say: the file a kill leaves behind)
     ok     fops_ok Physical fd0 of the calls so far (conjunction of fop_ok on the state before each call)
     app    appendsb (fd_file before the call) (the output calls the step issued): 1 = no call or one write that starts
            exactly at the end of the file, 0 = a write elsewhere or a truncate
     close  the file before and after apply_from file (fd_close Physical st), its hash
   with the argument "full" (selftest; it runs every sequence three times) also
     fops_ok   the extracted fops_ok Physical fd0 on the whole sequence (must be the last ok)
     agree  1 iff fd_run Physical fd0 ops gives the same descriptor as the steps
   Nothing but parsing, the byte pattern, printing and the hash is hand-written here. *)
open C14_file

let rec pos_of_int i = if i = 1 then XH else if i land 1 = 1 then XI (pos_of_int (i lsr 1)) else XO (pos_of_int (i lsr 1))
let n_of_int i = if i = 0 then N0 else Npos (pos_of_int i)
let rec int_of_pos = function XH -> 1 | XO p -> 2 * int_of_pos p | XI p -> 2 * int_of_pos p + 1
let int_of_n = function N0 -> 0 | Npos p -> int_of_pos p
let b2i b = if b then 1 else 0

let byte_tbl = Array.init 256 n_of_int
let pattern seed len =
  let l = ref [] in
  for i = len - 1 downto 0 do l := byte_tbl.((seed + 7 * i) land 255) :: !l done;
  !l

let fnv (l : n list) =
  let h = ref 1469598103934665603L in      (* the start value of h_file.c (not the standard FNV offset) *)
  List.iter (fun b -> h := Int64.mul (Int64.logxor !h (Int64.of_int (int_of_n b))) 0x100000001b3L) l;
  Printf.sprintf "%016Lx" !h

let parse_op tok =
  if tok.[0] = 'w' then
    Scanf.sscanf tok "w%d:%d:%d" (fun a b s -> FWrite (n_of_int a, pattern s b))
  else if tok.[0] = 't' then
    Scanf.sscanf tok "t%d" (fun a -> FTrunc (n_of_int a))
  else failwith "op"

let full = Array.length Sys.argv > 1 && Sys.argv.(1) = "full"

let () =
  try
    while true do
      let line = input_line stdin in
      let toks = List.filter (fun x -> x <> "") (String.split_on_char ' ' (String.trim line)) in
      (try
         let ops = List.map parse_op toks in
         let b = Buffer.create 256 in
         Buffer.add_string b "M";
         let st = ref fd0 and ok = ref true in
         List.iter (fun op ->
             ok := !ok && fop_ok !st op;
             let (st1, evs) = fd_step Physical !st op in
             let app = appendsb !st.fd_file evs in
             st := st1;
             Buffer.add_string b (Printf.sprintf " %d,%d,%d,%d" (int_of_n st1.fd_size) (int_of_n (flen st1.fd_file))
                                    (b2i !ok) (b2i app))) ops;
         let closed = apply_from !st.fd_file (fd_close Physical !st) in
         Buffer.add_string b (Printf.sprintf " | %d %d %s" (int_of_n (flen !st.fd_file)) (int_of_n (flen closed)) (fnv closed));
         if full then begin
           let (st2, _) = fd_run Physical fd0 ops in
           let agree = int_of_n st2.fd_size = int_of_n !st.fd_size && st2.fd_file = !st.fd_file in
           Buffer.add_string b (Printf.sprintf " %d %d" (b2i (fops_ok Physical fd0 ops)) (b2i agree))
         end;
         print_endline (Buffer.contents b)
       with Failure _ | Scanf.Scan_failure _ | End_of_file -> print_endline "M parse-error")
    done
  with End_of_file -> ()
