/* C14 fine-trace harness = props/C03/h_image.c (copied; read-only there) with two changes: the output file is the
 * path given as argv[1] (so that the LD_PRELOAD shim props/C14/shim_io.c, which logs every output system call on the
 * file named by $C14_OUT, recognises it) and a line "C" is appended to the shim's log argv[2] before every case (the
 * log of one process holds the calls of all its cases).  Everything else - input format, model input printed on
 * stdout, toy compressor - is unchanged:
 *
 * C03 whole-image harness: the working tree's sqfs_writer_init + sqfs_writer_finish (lib/common/src/writer/init.c,
 * finish.c) driven as gensquashfs drives them, on a real output file, with a toy metadata/data compressor injected
 * through the linker (-Wl,--wrap=sqfs_compressor_create) so that the extracted Gallina model (coq/Image/FinishModel.v)
 * can predict every byte of the file.
 *
 * argv[1]: output file, argv[2]: log file of the shim
 * stdin: one case per line
 *   W <toymode 0|1|3> <bs> <devblk> <exportable> <no_xattr> <optlen> <duid> <dgid> <dmtime> <dperm-oct> <n> { E }*n
 *   E = <hexpath> <type f|d|l|b|c|p|s|h> <perm-oct> <uid> <gid> <mtime> <rdev> <X> <extra>
 *       X: "-" or k=v;k=v;... (hex key = hex value) -> sqfs_xattr_writer_begin/add_kv/end, node->xattr_idx
 *       extra: l -> hex target; h -> hex target path; f -> <kind>:<size>:<seed>:<flags> (content generated here and fed
 *              through the real block processor); others "-"
 * stdout: "<model input> | <result>"
 *   model input = W <toymode> <bs> <mtime> <comp id> <devblk> <exportable> <no_xattr> <hex opts> <hex data> <frags> <xattr>
 *                 <N> { node }*N          (node as in props/C01/h_img.c: fs->inodes[] after fstree_post_process)
 *       frags = loc:size,.. | -      (the fragment table the block processor left)
 *       xattr = - | <offset of the xattr id table header>:<hex bytes sqfs_xattr_writer_flush appended>   (taken from
 *               the output file: the xattr section is an input of the model)
 *       data = the bytes between the compressor options and the inode table, read back from the file BEFORE
 *              sqfs_writer_finish is called (after sqfs_block_processor_finish)
 *   result = <rc of init/finish> <super fields of the in-memory struct, comma separated> <hex of the whole file> */
#include "config.h"
#include "compat.h"
#include "simple_writer.h"
#include "common.h"
#include "fstree.h"
#include "sqfs/block.h"
#include "sqfs/super.h"
#include "sqfs/inode.h"
#include <stdio.h>
#include <stdlib.h>
#include <string.h>
#include <errno.h>
#include <unistd.h>
#include <fcntl.h>
#include <sys/stat.h>

/* ---- toy compressors: modes 0, 1 = props/C03/h_dirmeta.c (MetaModel.toy_compress), 3 = zero-run-length
 *      (Img/TreeModel.v zrle_compress); each with its inverse (the block processor reads fragments back) ---- */
typedef struct {
	sqfs_compressor_t base;
	int mode;
	int uncompress;
} toy_t;

static int g_mode, g_optlen;
static int g_logfd = -1;

static sqfs_s32 toy_compress(const toy_t *t, const sqfs_u8 *in, sqfs_u32 size, sqfs_u8 *out, sqfs_u32 outsize)
{
	sqfs_u32 i;

	if (t->mode == 0 || size == 0)
		return 0;
	if (t->mode == 1) {
		if (size < 5 || size >= 16777216 || outsize < 4) return 0;
		for (i = 1; i < size; ++i)
			if (in[i] != in[0]) return 0;
		out[0] = in[0];
		out[1] = size & 0xFF; out[2] = (size >> 8) & 0xFF; out[3] = (size >> 16) & 0xFF;
		return 4;
	}
	{
		sqfs_u32 o = 0, z = 0;
		for (i = 0; i < size; ++i) {
			if (in[i] == 0) {
				if (z == 255) {
					if (o + 2 > outsize) return 0;
					out[o++] = 0; out[o++] = 255;
					z = 1;
				} else {
					++z;
				}
			} else {
				if (z != 0) {
					if (o + 2 > outsize) return 0;
					out[o++] = 0; out[o++] = (sqfs_u8)z;
					z = 0;
				}
				if (o + 1 > outsize) return 0;
				out[o++] = in[i];
			}
		}
		if (z != 0) {
			if (o + 2 > outsize) return 0;
			out[o++] = 0; out[o++] = (sqfs_u8)z;
		}
		return o < size ? (sqfs_s32)o : 0;
	}
}

static sqfs_s32 toy_uncompress(const toy_t *t, const sqfs_u8 *in, sqfs_u32 size, sqfs_u8 *out, sqfs_u32 outsize)
{
	sqfs_u32 i, o = 0;

	if (t->mode == 1) {
		sqfs_u32 n;
		if (size != 4) return SQFS_ERROR_COMPRESSOR;
		n = in[1] | (in[2] << 8) | ((sqfs_u32)in[3] << 16);
		if (n > outsize) return SQFS_ERROR_COMPRESSOR;
		memset(out, in[0], n);
		return n;
	}
	if (t->mode == 3) {
		for (i = 0; i < size; ++i) {
			if (in[i] == 0) {
				if (i + 1 >= size || in[i + 1] == 0 || o + in[i + 1] > outsize) return SQFS_ERROR_COMPRESSOR;
				memset(out + o, 0, in[i + 1]);
				o += in[i + 1];
				++i;
			} else {
				if (o + 1 > outsize) return SQFS_ERROR_COMPRESSOR;
				out[o++] = in[i];
			}
		}
		return o;
	}
	return SQFS_ERROR_COMPRESSOR;
}

static sqfs_s32 toy_do_block(sqfs_compressor_t *c, const sqfs_u8 *in, sqfs_u32 size, sqfs_u8 *out, sqfs_u32 outsize)
{
	const toy_t *t = (const toy_t *)c;
	return t->uncompress ? toy_uncompress(t, in, size, out, outsize) : toy_compress(t, in, size, out, outsize);
}

static int toy_write_options(sqfs_compressor_t *c, sqfs_file_t *file)
{
	sqfs_u8 buf[61];
	int i;
	(void)c;
	if (g_optlen <= 0)
		return 0;
	for (i = 0; i < g_optlen && i < 61; ++i) buf[i] = (sqfs_u8)(0xC0 + i);
	return sqfs_generic_write_options(file, buf, g_optlen < 61 ? g_optlen : 61);
}

static int toy_read_options(sqfs_compressor_t *c, sqfs_file_t *file) { (void)c; (void)file; return 0; }
static void toy_get_configuration(const sqfs_compressor_t *c, sqfs_compressor_config_t *cfg)
{
	(void)c;
	memset(cfg, 0, sizeof(*cfg));
	cfg->id = SQFS_COMP_GZIP;
}

static void toy_destroy(sqfs_object_t *o) { free(o); }

static sqfs_object_t *toy_copy(const sqfs_object_t *o)
{
	toy_t *n = malloc(sizeof(*n));
	if (n) memcpy(n, o, sizeof(*n));
	return (sqfs_object_t *)n;
}

/* the linker redirects every call of sqfs_compressor_create (init.c makes two: compressor and uncompressor) here */
int __wrap_sqfs_compressor_create(const sqfs_compressor_config_t *cfg, sqfs_compressor_t **out)
{
	toy_t *t = calloc(1, sizeof(*t));
	if (t == NULL) return SQFS_ERROR_ALLOC;
	t->base.base.refcount = 1;
	t->base.base.destroy = toy_destroy;
	t->base.base.copy = toy_copy;
	t->base.do_block = toy_do_block;
	t->base.write_options = toy_write_options;
	t->base.read_options = toy_read_options;
	t->base.get_configuration = toy_get_configuration;
	t->mode = g_mode;
	t->uncompress = (cfg->flags & SQFS_COMP_FLAG_UNCOMPRESS) != 0;
	*out = &t->base;
	return 0;
}

/* ---- helpers ---- */
static int hexval(int c) { return c <= '9' ? c - '0' : (c | 32) - 'a' + 10; }
static size_t unhexn(const char *s, size_t n, sqfs_u8 *out)
{
	size_t k = 0, i;
	for (i = 0; i + 1 < n; i += 2) out[k++] = (sqfs_u8)(hexval(s[i]) * 16 + hexval(s[i + 1]));
	return k;
}
static size_t unhex(const char *s, sqfs_u8 *out)
{
	if (s[0] == '-' && s[1] == 0) return 0;
	return unhexn(s, strlen(s), out);
}
static void puthex(const sqfs_u8 *p, size_t n)
{
	static const char *d = "0123456789abcdef";
	char buf[4096];
	size_t i, k = 0;
	if (n == 0) { fputs("-", stdout); return; }
	for (i = 0; i < n; ++i) {
		buf[k++] = d[p[i] >> 4]; buf[k++] = d[p[i] & 15];
		if (k == sizeof(buf)) { fwrite(buf, 1, k, stdout); k = 0; }
	}
	fwrite(buf, 1, k, stdout);
}

static char *tok(void) { return strtok(NULL, " \n"); }
static unsigned long long num(void) { char *t = tok(); return t ? strtoull(t, NULL, 10) : 0; }
static unsigned long long onum(void) { char *t = tok(); return t ? strtoull(t, NULL, 8) : 0; }

static unsigned int type_bits(char c)
{
	switch (c) {
	case 'f': return S_IFREG;
	case 'd': return S_IFDIR;
	case 'l': case 'h': return S_IFLNK;
	case 'b': return S_IFBLK;
	case 'c': return S_IFCHR;
	case 'p': return S_IFIFO;
	case 's': return S_IFSOCK;
	}
	return 0;
}

static void print_file_inode(const sqfs_inode_generic_t *n)
{
	size_t i, k = n->payload_bytes_used / 4;

	if (n->base.type == SQFS_INODE_EXT_FILE) {
		printf("1:%llu:%u:%u:%llu:%llu:", (unsigned long long)n->data.file_ext.blocks_start,
		       n->data.file_ext.fragment_idx, n->data.file_ext.fragment_offset,
		       (unsigned long long)n->data.file_ext.file_size, (unsigned long long)n->data.file_ext.sparse);
	} else {
		printf("0:%u:%u:%u:%u:0:", n->data.file.blocks_start, n->data.file.fragment_index,
		       n->data.file.fragment_offset, n->data.file.file_size);
	}
	if (k == 0) fputs("-", stdout);
	for (i = 0; i < k; ++i) printf("%s%u", i ? "," : "", n->extra[i]);
}

static void dump_node(const tree_node_t *n)
{
	const tree_node_t *it, *tgt;
	size_t cnt = 0;

	printf(" %u %u %u %u %u %u ", (unsigned)n->mode, n->uid, n->gid, n->mod_time, n->link_count, n->xattr_idx);
	switch (n->mode & S_IFMT) {
	case S_IFDIR:
		for (it = n->data.children; it != NULL; it = it->next) ++cnt;
		printf("d %u %zu", n->parent ? n->parent->inode_num : 0, cnt);
		for (it = n->data.children; it != NULL; it = it->next) {
			tgt = (S_ISLNK(it->mode) && (it->flags & FLAG_LINK_IS_HARD)) ? it->data.target_node : it;
			putchar(' ');
			puthex((const sqfs_u8 *)it->name, strlen(it->name));
			printf(" %u", tgt->inode_num);
		}
		break;
	case S_IFREG:
		fputs("f ", stdout);
		print_file_inode(n->data.file.inode);
		break;
	case S_IFLNK:
		fputs("l ", stdout);
		puthex((const sqfs_u8 *)n->data.target, strlen(n->data.target));
		break;
	case S_IFBLK: printf("b %llu", (unsigned long long)n->data.devno); break;
	case S_IFCHR: printf("c %llu", (unsigned long long)n->data.devno); break;
	case S_IFIFO: fputs("p", stdout); break;
	case S_IFSOCK: fputs("s", stdout); break;
	}
}

static sqfs_u8 *read_whole(const char *path, size_t *len)
{
	struct stat sb;
	sqfs_u8 *buf;
	int fd = open(path, O_RDONLY);
	size_t got = 0;

	*len = 0;
	if (fd < 0 || fstat(fd, &sb) != 0) { if (fd >= 0) close(fd); return NULL; }
	buf = malloc(sb.st_size + 1);
	while (got < (size_t)sb.st_size) {
		ssize_t r = read(fd, buf + got, sb.st_size - got);
		if (r <= 0) break;
		got += r;
	}
	close(fd);
	*len = got;
	return buf;
}

/* deterministic file content */
static void gen_content(sqfs_u8 *buf, size_t size, int kind, unsigned seed)
{
	size_t i;
	unsigned x = seed * 2654435761u + 12345u;

	for (i = 0; i < size; ++i) {
		switch (kind) {
		case 0: buf[i] = 0; break;                                   /* zero (sparse) */
		case 1: buf[i] = (sqfs_u8)seed; break;                       /* one repeated byte */
		case 2: x = x * 1103515245u + 12345u; buf[i] = (sqfs_u8)(x >> 16); break;   /* pseudo random */
		default: buf[i] = (i / 97) % 3 ? 0 : (sqfs_u8)(i + seed); break;            /* zero runs + data */
		}
	}
}

typedef struct { tree_node_t *node; int kind; size_t size; unsigned seed; int flags; } filejob_t;

static char line[1 << 25];
static char pathbuf[1 << 17], extrabuf[1 << 17], xbuf[1 << 17];
static char outpath[4096];

static int apply_xattr_spec(sqfs_xattr_writer_t *xwr, tree_node_t *node, const char *spec)
{
	const char *p = spec;
	sqfs_u32 idx;
	int ret;

	ret = sqfs_xattr_writer_begin(xwr, 0);
	if (ret) return ret;
	while (*p) {
		const char *eq = strchr(p, '='), *end;
		size_t kl, vl;
		static sqfs_u8 key[70000], val[70000];
		if (!eq) return -1;
		end = strchr(eq, ';');
		if (!end) end = eq + strlen(eq);
		kl = unhexn(p, eq - p, key);
		key[kl] = 0;
		vl = unhexn(eq + 1, end - (eq + 1), val);
		ret = sqfs_xattr_writer_add_kv(xwr, (const char *)key, val, vl);
		if (ret) return ret;
		p = *end ? end + 1 : end;
	}
	ret = sqfs_xattr_writer_end(xwr, &idx);
	if (ret) return ret;
	node->xattr_idx = idx;
	return 0;
}

static void do_case(void)
{
	sqfs_writer_t sqfs;
	sqfs_writer_cfg_t cfg;
	unsigned long long bs, devblk, exportable, no_xattr, n, i, duid, dgid, dmtime, dperm;
	char defaults[256];
	filejob_t *jobs;
	size_t njobs = 0, optbytes, data_end, len, k;
	sqfs_u8 *before = NULL, *file = NULL;
	int built = 1, rc;
	sqfs_u32 fi;

	if (g_logfd >= 0 && write(g_logfd, "C\n", 2) != 2)
		g_logfd = -1;

	g_mode = (int)num(); bs = num(); devblk = num(); exportable = num(); no_xattr = num(); g_optlen = (int)num();
	duid = num(); dgid = num(); dmtime = num(); dperm = onum();
	n = num();

	sqfs_writer_cfg_init(&cfg);
	cfg.filename = outpath;
	snprintf(defaults, sizeof(defaults), "uid=%llu,gid=%llu,mtime=%llu,mode=0%llo", duid, dgid, dmtime, dperm);
	cfg.fs_defaults = defaults;
	cfg.comp_extra = NULL;
	cfg.block_size = bs;
	cfg.devblksize = devblk;
	cfg.max_backlog = 8;
	cfg.num_jobs = 1;
	cfg.outmode = SQFS_FILE_OPEN_OVERWRITE;
	cfg.comp_id = SQFS_COMP_GZIP;
	cfg.exportable = exportable != 0;
	cfg.no_xattr = no_xattr != 0;
	cfg.quiet = true;

	memset(&sqfs, 0, sizeof(sqfs));
	unlink(outpath);
	if (sqfs_writer_init(&sqfs, &cfg)) {
		/* refused (block size): the model must refuse as well; no tree needed */
		printf("W %d %llu %llu %d %llu %llu %llu - - - - 0 | -1 init\n", g_mode, bs, dmtime, (int)cfg.comp_id, devblk,
		       exportable, no_xattr);
		return;
	}
	optbytes = sqfs.outfile->get_size(sqfs.outfile) - sizeof(sqfs_super_t);

	jobs = calloc(n + 1, sizeof(*jobs));
	for (i = 0; i < n && built; ++i) {
		char *hp = tok(), *ty = tok();
		unsigned long long perm = onum(), uid = num(), gid = num(), mtime = num(), rdev = num();
		char *xs = tok(), *ex = tok();
		sqfs_dir_entry_t *ent;
		tree_node_t *node;
		const char *extra = NULL;
		size_t l;

		if (!hp || !ty || !xs || !ex) { built = 0; break; }
		l = unhex(hp, (sqfs_u8 *)pathbuf);
		pathbuf[l] = 0;
		ent = calloc(1, sizeof(*ent) + l + 1);
		strcpy(ent->name, pathbuf);
		ent->mode = type_bits(ty[0]) | perm;
		ent->uid = uid; ent->gid = gid; ent->mtime = mtime; ent->rdev = rdev;
		if (ty[0] == 'h') ent->flags |= SQFS_DIR_ENTRY_FLAG_HARD_LINK;
		if (ty[0] == 'l' || ty[0] == 'h') {
			l = unhex(ex, (sqfs_u8 *)extrabuf);
			extrabuf[l] = 0;
			extra = extrabuf;
		}
		node = fstree_add_generic(&sqfs.fs, ent, extra);
		free(ent);
		if (node == NULL) { built = 0; break; }
		if (ty[0] == 'f') {
			int kind = 0, flags = 0;
			unsigned long long size = 0;
			unsigned seed = 0;
			sscanf(ex, "%d:%llu:%u:%d", &kind, &size, &seed, &flags);
			jobs[njobs].node = node; jobs[njobs].kind = kind; jobs[njobs].size = size;
			jobs[njobs].seed = seed; jobs[njobs].flags = flags;
			++njobs;
		}
		if (ty[0] != 'h' && strcmp(xs, "-") != 0) {
			strncpy(xbuf, xs, sizeof(xbuf) - 1);
			if (sqfs.xwr == NULL || apply_xattr_spec(sqfs.xwr, node, xbuf)) { built = 0; break; }
		}
	}
	if (built && fstree_post_process(&sqfs.fs)) built = 0;

	/* pack the files in the order of fs.files, as gensquashfs does */
	if (built) {
		tree_node_t *node;
		for (node = sqfs.fs.files; node != NULL && built; node = node->next_by_type) {
			sqfs_u8 *buf;
			size_t off;
			for (k = 0; k < njobs; ++k) if (jobs[k].node == node) break;
			if (k == njobs) { built = 0; break; }
			buf = malloc(jobs[k].size + 1);
			gen_content(buf, jobs[k].size, jobs[k].kind, jobs[k].seed);
			if (sqfs_block_processor_begin_file(sqfs.data, &node->data.file.inode, NULL, jobs[k].flags)) built = 0;
			for (off = 0; built && off < jobs[k].size; off += bs) {
				size_t d = jobs[k].size - off < bs ? jobs[k].size - off : bs;
				if (sqfs_block_processor_append(sqfs.data, buf + off, d)) built = 0;
			}
			if (built && sqfs_block_processor_end_file(sqfs.data)) built = 0;
			free(buf);
		}
	}
	/* everything the block processor still holds (last fragment block) goes out now, so that the file inodes are
	 * complete when they are dumped; sqfs_writer_finish calls it again (then a no-op) */
	if (built && sqfs_block_processor_finish(sqfs.data)) built = 0;
	free(jobs);
	if (!built) {
		printf("W %d %llu %llu %d %llu %llu %llu - - - - 0 | -1 build\n", g_mode, bs, dmtime, (int)cfg.comp_id, devblk,
		       exportable, no_xattr);
		sqfs_writer_cleanup(&sqfs, EXIT_FAILURE);
		return;
	}
	data_end = sqfs.outfile->get_size(sqfs.outfile);
	before = read_whole(outpath, &len);

	printf("W %d %llu %u %d %llu %llu %llu ", g_mode, bs, sqfs.fs.defaults.mtime, (int)cfg.comp_id, devblk,
	       exportable, no_xattr);
	if (before == NULL || len != data_end || len < sizeof(sqfs_super_t) + optbytes) {
		printf("- - - - 0 | -1 readback\n");
		free(before);
		sqfs_writer_cleanup(&sqfs, EXIT_FAILURE);
		return;
	}
	puthex(before + sizeof(sqfs_super_t), optbytes);
	putchar(' ');
	puthex(before + sizeof(sqfs_super_t) + optbytes, data_end - sizeof(sqfs_super_t) - optbytes);
	putchar(' ');
	for (fi = 0; fi < sqfs_frag_table_get_size(sqfs.fragtbl); ++fi) {
		sqfs_fragment_t fr;
		sqfs_frag_table_lookup(sqfs.fragtbl, fi, &fr);
		printf("%s%llu:%u", fi ? "," : "", (unsigned long long)fr.start_offset, fr.size);
	}
	if (fi == 0) fputs("-", stdout);
	fflush(stdout);

	/* the tree dump must come before finish (serialize_tree_node frees the file inodes); it is buffered so that the
	 * xattr field, known only after finish, can precede it */
	{
		char *tbuf = NULL;
		size_t tlen = 0;
		FILE *saved = stdout, *mem = open_memstream(&tbuf, &tlen);
		sqfs_u64 idend;
		size_t idblocks;

		stdout = mem;
		printf(" %zu", sqfs.fs.unique_inode_count);
		for (i = 0; i < sqfs.fs.unique_inode_count; ++i)
			dump_node(sqfs.fs.inodes[i]);
		fflush(mem);
		stdout = saved;

		rc = sqfs_writer_finish(&sqfs, &cfg);

		file = read_whole(outpath, &len);
		putchar(' ');
		idblocks = ((size_t)sqfs.super.id_count * 4 + 8191) / 8192;
		idend = sqfs.super.id_table_start + 8 * idblocks;
		if (rc == 0 && file != NULL && sqfs.super.xattr_id_table_start != 0xFFFFFFFFFFFFFFFFULL &&
		    sqfs.super.xattr_id_table_start >= idend && sqfs.super.bytes_used <= len &&
		    sqfs.super.bytes_used >= idend) {
			printf("%llu:", (unsigned long long)(sqfs.super.xattr_id_table_start - idend));
			puthex(file + idend, sqfs.super.bytes_used - idend);
		} else {
			fputs("-", stdout);
		}
		fclose(mem);
		fwrite(tbuf, 1, tlen, stdout);
		free(tbuf);
	}

	printf(" | %d ", rc);
	if (rc == 0 && file != NULL) {
		const sqfs_super_t *s = &sqfs.super;
		printf("%u,%u,%u,%u,%u,%u,%u,%u,%u,%u,%u,%llu,%llu,%llu,%llu,%llu,%llu,%llu,%llu ",
		       s->magic, s->inode_count, s->modification_time, s->block_size, s->fragment_entry_count,
		       s->compression_id, s->block_log, s->flags, s->id_count, s->version_major, s->version_minor,
		       (unsigned long long)s->root_inode_ref, (unsigned long long)s->bytes_used,
		       (unsigned long long)s->id_table_start, (unsigned long long)s->xattr_id_table_start,
		       (unsigned long long)s->inode_table_start, (unsigned long long)s->directory_table_start,
		       (unsigned long long)s->fragment_table_start, (unsigned long long)s->export_table_start);
		puthex(file, len);
	} else {
		fputs("-", stdout);
	}
	putchar('\n');
	free(before);
	free(file);
	{
		/* serialize_tree_node took the file inodes it reached; free the rest */
		size_t j;
		for (j = 0; j < sqfs.fs.unique_inode_count; ++j) {
			tree_node_t *nd = sqfs.fs.inodes[j];
			if (S_ISREG(nd->mode)) { free(nd->data.file.inode); nd->data.file.inode = NULL; }
		}
	}
	sqfs_writer_cleanup(&sqfs, EXIT_SUCCESS);
}

int main(int argc, char **argv)
{
	if (argc < 3) return 2;
	snprintf(outpath, sizeof(outpath), "%s", argv[1]);
	g_logfd = open(argv[2], O_WRONLY | O_CREAT | O_APPEND, 0644);
	while (fgets(line, sizeof(line), stdin)) {
		char *cmd = strtok(line, " \n");
		if (!cmd) continue;
		if (!strcmp(cmd, "W")) do_case();
		else puts("W - | PARSE");
		fflush(stdout);
	}
	unlink(outpath);
	return 0;
}
