/* C14 I/O shim (LD_PRELOAD): logs, and optionally kills the process right before, every
 * output system call on the file named by $C14_OUT.
 *
 *   C14_OUT   path of the packer's output file (identified by st_dev/st_ino on every call)
 *   C14_LOG   log file; one line per output call, appended with a raw write(2):
 *               W <offset> <returned> <requested> <hex of the bytes the kernel took>
 *               T <length> <returned>
 *               X <name>            (a call on the output descriptor the model has no event for)
 *   C14_KILL  k >= 0: SIGKILL the process right before the k-th (0-based) output call
 *   C14_SIZES optional second log: one line "<fstat st_size of the output descriptor>" appended right after every
 *             logged W / T call returned (same order as C14_LOG): the PHYSICAL length of the file a kill at
 *             that point would leave behind (compared with the model's length, strengthening for seed C14-8)
 *
 * Wrapped: pwrite, pwrite64, write, writev, pwritev, pwritev64, ftruncate, ftruncate64,
 * and (as "X" = a call the model has no event for) writev, pwritev, fallocate, posix_fallocate,
 * copy_file_range on the output descriptor.
 */
#define _GNU_SOURCE
#include <dlfcn.h>
#include <errno.h>
#include <fcntl.h>
#include <pthread.h>
#include <signal.h>
#include <stdint.h>
#include <stdio.h>
#include <stdlib.h>
#include <string.h>
#include <sys/stat.h>
#include <sys/syscall.h>
#include <sys/types.h>
#include <sys/uio.h>
#include <unistd.h>

static const char *out_path;
static int log_fd = -1;
static int size_fd = -1;
static long kill_at = -1;
static long counter;
static pthread_mutex_t mtx = PTHREAD_MUTEX_INITIALIZER;
static int ready;

static void init(void)
{
	const char *s;

	if (ready)
		return;
	ready = 1;
	out_path = getenv("C14_OUT");
	s = getenv("C14_LOG");
	if (s != NULL)
		log_fd = (int)syscall(SYS_open, s, O_WRONLY | O_CREAT | O_APPEND | O_CLOEXEC, 0644);
	s = getenv("C14_SIZES");
	if (s != NULL)
		size_fd = (int)syscall(SYS_open, s, O_WRONLY | O_CREAT | O_APPEND | O_CLOEXEC, 0644);
	s = getenv("C14_KILL");
	if (s != NULL && *s != '\0')
		kill_at = strtol(s, NULL, 10);
}

/* called with the mutex held, right after the real call returned */
static void log_size(int fd)
{
	struct stat st;
	char b[48];
	int n;

	if (size_fd < 0)
		return;
	if (fstat(fd, &st) != 0)
		n = snprintf(b, sizeof(b), "-1\n");
	else
		n = snprintf(b, sizeof(b), "%lld\n", (long long)st.st_size);
	(void)!syscall(SYS_write, size_fd, b, (size_t)n);
}

static int is_out(int fd)
{
	struct stat a, b;

	init();
	if (out_path == NULL || fd < 0)
		return 0;
	if (fstat(fd, &a) != 0 || stat(out_path, &b) != 0)
		return 0;
	return a.st_dev == b.st_dev && a.st_ino == b.st_ino;
}

static void raw_log(const char *buf, size_t len)
{
	while (log_fd >= 0 && len > 0) {
		long r = syscall(SYS_write, log_fd, buf, len);
		if (r <= 0) {
			if (r < 0 && errno == EINTR)
				continue;
			break;
		}
		buf += r;
		len -= (size_t)r;
	}
}

/* called with the mutex held, before the real call */
static void crash_point(void)
{
	if (kill_at >= 0 && counter == kill_at) {
		syscall(SYS_kill, (pid_t)syscall(SYS_getpid), SIGKILL);
		for (;;)
			pause();
	}
	counter += 1;
}

static void log_write(uint64_t off, long ret, size_t req, const void *data)
{
	static const char hx[] = "0123456789abcdef";
	size_t n = ret > 0 ? (size_t)ret : 0, i;
	char head[96];
	char *line;
	int hl;

	hl = snprintf(head, sizeof(head), "W %llu %ld %llu ", (unsigned long long)off, ret,
		      (unsigned long long)req);
	line = malloc((size_t)hl + 2 * n + 2);
	if (line == NULL)
		return;
	memcpy(line, head, (size_t)hl);
	for (i = 0; i < n; ++i) {
		line[hl + 2 * i] = hx[((const unsigned char *)data)[i] >> 4];
		line[hl + 2 * i + 1] = hx[((const unsigned char *)data)[i] & 15];
	}
	if (n == 0)
		line[hl++] = '-';
	line[hl + 2 * n] = '\n';
	raw_log(line, (size_t)hl + 2 * n + 1);
	free(line);
}

static void log_x(const char *name)
{
	char b[64];
	int n = snprintf(b, sizeof(b), "X %s\n", name);
	raw_log(b, (size_t)n);
}

#define REAL(fn) \
	static __typeof__(&fn) real; \
	if (real == NULL) real = (__typeof__(&fn))dlsym(RTLD_NEXT, #fn)

typedef ssize_t (*pwrite_t)(int, const void *, size_t, off_t);

static ssize_t do_pwrite(const char *sym, int fd, const void *buf, size_t n, off_t off)
{
	pwrite_t real = (pwrite_t)dlsym(RTLD_NEXT, sym);
	ssize_t r;

	if (!is_out(fd))
		return real(fd, buf, n, off);
	pthread_mutex_lock(&mtx);
	crash_point();
	r = real(fd, buf, n, off);
	log_write((uint64_t)off, (long)r, n, buf);
	log_size(fd);
	pthread_mutex_unlock(&mtx);
	return r;
}

ssize_t pwrite(int fd, const void *buf, size_t n, off_t off)
{
	return do_pwrite("pwrite", fd, buf, n, off);
}

ssize_t pwrite64(int fd, const void *buf, size_t n, off64_t off)
{
	return do_pwrite("pwrite64", fd, buf, n, (off_t)off);
}

ssize_t write(int fd, const void *buf, size_t n)
{
	REAL(write);
	ssize_t r;
	off_t pos;

	if (fd <= 2 || !is_out(fd))
		return real(fd, buf, n);
	pthread_mutex_lock(&mtx);
	crash_point();
	pos = lseek(fd, 0, SEEK_CUR);
	r = real(fd, buf, n);
	log_write((uint64_t)pos, (long)r, n, buf);
	log_size(fd);
	pthread_mutex_unlock(&mtx);
	return r;
}

typedef int (*ftrunc_t)(int, off_t);

static int do_ftruncate(const char *sym, int fd, off_t len)
{
	ftrunc_t real = (ftrunc_t)dlsym(RTLD_NEXT, sym);
	char b[96];
	int r, n;

	if (!is_out(fd))
		return real(fd, len);
	pthread_mutex_lock(&mtx);
	crash_point();
	r = real(fd, len);
	n = snprintf(b, sizeof(b), "T %llu %d\n", (unsigned long long)len, r);
	raw_log(b, (size_t)n);
	log_size(fd);
	pthread_mutex_unlock(&mtx);
	return r;
}

int ftruncate(int fd, off_t len)
{
	return do_ftruncate("ftruncate", fd, len);
}

int ftruncate64(int fd, off64_t len)
{
	return do_ftruncate("ftruncate64", fd, (off_t)len);
}

/* ---- calls the model has no event for: only recorded (and counted as crash points) ---- */

#define UNMODELLED_PRE(name) \
	do { if (is_out(fd)) { pthread_mutex_lock(&mtx); crash_point(); log_x(name); \
	     pthread_mutex_unlock(&mtx); } } while (0)

ssize_t writev(int fd, const struct iovec *iov, int cnt)
{
	REAL(writev);
	if (fd > 2)
		UNMODELLED_PRE("writev");
	return real(fd, iov, cnt);
}

ssize_t pwritev(int fd, const struct iovec *iov, int cnt, off_t off)
{
	REAL(pwritev);
	UNMODELLED_PRE("pwritev");
	return real(fd, iov, cnt, off);
}

ssize_t pwritev64(int fd, const struct iovec *iov, int cnt, off64_t off)
{
	REAL(pwritev64);
	UNMODELLED_PRE("pwritev64");
	return real(fd, iov, cnt, off);
}

int fallocate(int fd, int mode, off_t off, off_t len)
{
	REAL(fallocate);
	UNMODELLED_PRE("fallocate");
	return real(fd, mode, off, len);
}

int posix_fallocate(int fd, off_t off, off_t len)
{
	REAL(posix_fallocate);
	UNMODELLED_PRE("posix_fallocate");
	return real(fd, off, len);
}

ssize_t copy_file_range(int fdin, off64_t *oi, int fd, off64_t *oo, size_t len, unsigned int fl)
{
	REAL(copy_file_range);
	UNMODELLED_PRE("copy_file_range");
	return real(fdin, oi, fd, oo, len, fl);
}
