"""C14 - the writer's output-call sequence at system-call granularity (coq/C14/Refine*.v, Fine*.v, SectionModel.v).

real_check   on the logged calls of every real gensquashfs / tar2sqfs run of the sweep and the image it produced: the
             extracted coarse_of_image recomputes the section-level trace of Image.FinishModel from the image; the
             extracted trace_okb must accept it and the extracted trace_refinesb must accept the logged calls as a
             refinement of it (= the hypotheses of refinement_preserves_shape / refined_crash_safe hold of the run);
             every section whose calls the fine model predicts from its bytes (compressor options, inode table, directory
             table, fragment / export / id table, xattr section: blocks cut at their headers, location lists, xattr
             header) must have been written with EXACTLY those calls.
harness_tie  props/C14/h_fine.c (the working tree's sqfs_writer_init + block processor + sqfs_writer_finish with a toy
             compressor, under the logging shim) against the extracted write_image + fine_trace on the same input: first
             calls and all calls from the inode table on are compared exactly (offset, bytes); the block writer's calls in
             between must keep 96 and produce the data area (the two hypotheses fine_refines_l needs of the data phase)."""
import os
import random
import subprocess

HERE = os.path.dirname(os.path.abspath(__file__))


def build(B, core, info):
    h = B.compile_harness(info, [os.path.join(HERE, "h_fine.c")], "h_fine_c14",
                          extra=["-Wl,--wrap=sqfs_compressor_create"])
    drv = core.build_model_driver("C14fine", "ExtractC14Fine.v", os.path.join(HERE, "fine_driver.ml"))
    return h, drv


def parse_kv(line):
    p = line.strip().split(" ")
    out = dict(kind=p[0] if p else "")
    for x in p[1:]:
        if "=" in x:
            k, v = x.split("=", 1)
            out[k] = v
    return out


def real_check(fdrv, log, img, preexec=None, timeout=900):
    try:
        r = subprocess.run([fdrv, "real", log, img], stdout=subprocess.PIPE, stderr=subprocess.PIPE, preexec_fn=preexec,
                           timeout=timeout)
    except subprocess.TimeoutExpired:
        return dict(kind="TIMEOUT", rc=124)
    lines = r.stdout.decode("latin-1").split("\n")
    d = parse_kv(lines[0]) if lines and lines[0].startswith("REAL") else dict(kind="NONE")
    d["rc"] = r.returncode
    d["stderr"] = r.stderr.decode("latin-1")[-300:]
    return d


def real_ok(d):
    if d.get("kind") != "REAL" or d.get("rc") != 0:
        return False
    ex = d.get("exact", "0/1").split("/")
    return (d.get("okc") == "1" and d.get("wf") == "1" and d.get("refines") == "1" and ex[0] == ex[1]
            and d.get("first") == "-")


# ---------------------------------------------------------------------------------------------------------------
# harness cases (input format of props/C03/h_image.c)
# ---------------------------------------------------------------------------------------------------------------

def hx(b):
    if isinstance(b, str):
        b = b.encode()
    return b.hex() if b else "-"


def ent(path, typ, perm=0o644, uid=0, gid=0, mtime=0, rdev=0, xattr=None, extra="-"):
    xs = "-"
    if xattr:
        xs = ";".join("%s=%s" % (k.encode().hex(), (v if isinstance(v, bytes) else v.encode()).hex() or "")
                      for k, v in xattr)
    return "%s %s %o %d %d %d %d %s %s" % (hx(path), typ, perm, uid, gid, mtime, rdev, xs, extra)


def case(mode, bs, devblk, exportable, no_xattr, optlen, ents, dmtime=0):
    return "W %d %d %d %d %d %d %d %d %d %o %d %s" % (mode, bs, devblk, int(exportable), int(no_xattr), optlen, 0, 0,
                                                      dmtime, 0o755, len(ents), " ".join(ents))


def files_tree(r, bs, xattrs):
    """blocks, fragments, sparse, whole-file duplicates (block writer truncates), a duplicate after other data"""
    e = [ent("d", "d", 0o755, 1000, 100, 5)]
    seed = r.randrange(1 << 16)
    e.append(ent("d/a", "f", extra="2:%d:%d:0" % (2 * bs + 7, seed)))
    e.append(ent("d/frag", "f", extra="3:%d:%d:0" % (r.randint(1, 900), r.randrange(1 << 16))))
    e.append(ent("d/dup_of_a", "f", extra="2:%d:%d:0" % (2 * bs + 7, seed)))             # same content: dedup -> truncate
    e.append(ent("d/zero", "f", extra="0:%d:0:0" % (bs + 5)))                            # sparse
    seed2 = r.randrange(1 << 16)
    e.append(ent("d/nofrag", "f", 0o600, 7, 7, 7, extra="2:%d:%d:4" % (bs + 100, seed2)))
    e.append(ent("d/other", "f", extra="2:%d:%d:4" % (bs // 2, r.randrange(1 << 16))))
    e.append(ent("d/nofrag_dup", "f", 0o600, 7, 7, 7, extra="2:%d:%d:4" % (bs + 100, seed2)))       # dedup again, two blocks
    e.append(ent("d/a_again", "f", extra="2:%d:%d:4" % (2 * bs + 7, seed)))             # blocks equal, tail stored as block
    e.append(ent("d/run", "f", extra="1:%d:%d:0" % (3 * bs, r.randrange(256))))          # compressible (mode 1)
    e.append(ent("d/sl", "l", 0o777, 0, 0, 9, extra=hx("../target")))
    e.append(ent("d/chr", "c", 0o666, 0, 0, 1, rdev=0x103,
                 xattr=[("user.k", "v"), ("security.selinux", b"ctx\0")] if xattrs else None))
    if xattrs:
        e.append(ent("x1", "p", xattr=[("user.a", "1"), ("user.long", "L" * 40)]))
        e.append(ent("x2", "p", xattr=[("user.a", "1"), ("user.long", "L" * 40)]))
        e.append(ent("x3", "d", 0o755, xattr=[("trusted.t", "L" * 40), ("user.b", "")]))
    return e


def wide_tree(r, n, namelen, ids=False):
    e = [ent("w", "d", 0o755)]
    for i in range(n):
        nm = ("%05d" % i) + "n" * max(0, namelen - 5)
        uid, gid = (100000 + i, 300000 + i) if ids else (r.choice([0, 5]), 0)
        e.append(ent("w/" + nm, r.choice("pscb") if not ids else "p", 0o644, uid, gid, i, rdev=i))
    return e


def xattr_heavy(r, n):
    e = [ent("x", "d", 0o755)]
    for i in range(n):
        e.append(ent("x/n%04d" % i, "p", xattr=[("user.k%d" % i, "v" * (30 + i % 50) + str(i)), ("user.same", "S" * 20)]))
    return e


def gen_cases(seed, tier):
    r = random.Random(seed * 15485863 + 14)
    cs = []
    k = 0
    for mode in (0, 1, 3):
        for bs in (4096, 8192):
            exportable = (k % 2 == 0)
            no_xattr = (k % 3 == 1)
            optlen = [0, 4, 8, 61][k % 4]
            devblk = [4096, 1024, 512, 3000, 65536, 1][k % 6]
            cs.append(("files-m%d-b%d-e%d-x%d-o%d" % (mode, bs, exportable, no_xattr, optlen),
                       case(mode, bs, devblk, exportable, no_xattr, optlen, files_tree(r, bs, not no_xattr),
                            dmtime=r.choice([0, 1600000000]))))
            k += 1
    cs.append(("empty", case(3, 4096, 4096, True, False, 0, [])))
    cs.append(("empty-noexport-opts", case(0, 131072, 1024, False, True, 8, [])))
    cs.append(("dir-multiblock", case(3, 4096, 1, True, True, 0, wide_tree(r, 260, 120))))
    cs.append(("inode-multiblock-ids", case(1, 4096, 4096, False, True, 4, wide_tree(r, 560, 6, ids=True))))
    cs.append(("xattr-multiblock", case(0, 4096, 4096, False, False, 0, xattr_heavy(r, 120))))
    if tier != "quick":
        cs.append(("export-2blocks", case(3, 4096, 4096, True, True, 0, wide_tree(r, 1100, 6))))
        cs.append(("ids-2blocks", case(1, 4096, 4096, False, True, 0, wide_tree(r, 2100, 6, ids=True))))
        for i in range(12):
            bs = r.choice([4096, 8192, 32768])
            nx = r.random() < 0.3
            cs.append(("more-%d" % i, case(r.choice([0, 1, 3]), bs, r.choice([1024, 4096, 777]), r.random() < 0.5, nx,
                                           r.choice([0, 4, 8]), files_tree(r, bs, not nx), dmtime=r.randrange(1 << 32))))
    return cs


def split_log(path):
    """calls of each case: the harness writes a line 'C' before every case"""
    groups = []
    try:
        with open(path, "r", errors="replace") as f:
            for ln in f:
                ln = ln.rstrip("\n")
                if ln == "C":
                    groups.append([])
                elif groups and ln:
                    groups[-1].append(ln)
    except OSError:
        pass
    return groups


def harness_tie(scratch, shim, h, fdrv, cases, preexec=None, timeout=900):
    """returns (results, error); results[i] = dict(label, line, H fields)"""
    d = os.path.join(scratch, "fine_harness")
    os.makedirs(d, exist_ok=True)
    out = os.path.join(d, "hf.sqfs")
    log = os.path.join(d, "hf.log")
    for p in (out, log):
        if os.path.exists(p):
            os.remove(p)
    env = dict(os.environ, LD_PRELOAD=shim, C14_OUT=out, C14_LOG=log)
    env.pop("C14_KILL", None)
    env.pop("SOURCE_DATE_EPOCH", None)
    data = ("\n".join(l for _, l in cases) + "\n").encode()
    try:
        r = subprocess.run([h, out, log], input=data, stdout=subprocess.PIPE, stderr=subprocess.PIPE, env=env, timeout=timeout)
    except subprocess.TimeoutExpired:
        return [], "harness timeout"
    outs = r.stdout.decode("latin-1").split("\n")
    if r.returncode != 0:
        return [], "harness rc=%d: %s" % (r.returncode, r.stderr.decode("latin-1")[-400:])
    groups = split_log(log)
    if len(groups) != len(cases) or len(outs) < len(cases):
        return [], "harness produced %d call groups / %d lines for %d cases" % (len(groups), len(outs), len(cases))
    lines = []
    for i in range(len(cases)):
        left = outs[i].split(" | ")[0]
        lines.append(left + " | " + ";".join(groups[i]))
    try:
        m = subprocess.run([fdrv], input=("\n".join(lines) + "\n").encode(), stdout=subprocess.PIPE, stderr=subprocess.PIPE,
                           preexec_fn=preexec, timeout=timeout)
    except subprocess.TimeoutExpired:
        return [], "model driver timeout"
    mo = m.stdout.decode("latin-1").split("\n")
    if m.returncode != 0:
        return [], "model driver rc=%d: %s" % (m.returncode, m.stderr.decode("latin-1")[-400:])
    res = []
    for i, (label, line) in enumerate(cases):
        dct = parse_kv(mo[i]) if i < len(mo) else dict(kind="missing")
        dct["label"] = label
        dct["line"] = line
        dct["impl_rc"] = (outs[i].split(" | ")[1].split(" ")[0] if " | " in outs[i] else "?")
        dct["calls"] = len(groups[i])
        res.append(dct)
    return res, None


def harness_ok(d):
    if d.get("kind") != "H":
        return False
    if d.get("rc") != "0":
        # the model refuses (or the harness could not build the tree): nothing to compare; the C side must have failed too
        return d.get("rc", "").startswith(("err", "skip")) and d.get("impl_rc") != "0"
    return all(d.get(k) == "1" for k in ("pre", "suf", "keeps", "apply")) and d.get("impl_rc") == "0" and d.get("first") == "-"
