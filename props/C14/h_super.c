/* C14 component harness: the working tree's sqfs_super_init + sqfs_super_write, and
 * sqfs_super_read + sqfs_id_table_read exactly as rdsquashfs / sqfs2tar call them
 * (file opened through sqfs_file_open, i.e. the real io/file.c read path).
 *
 * argv[1] = scratch file.  stdin, one case per line (numbers in hex):
 *   I <block_size> <mtime> <compressor>   -> "I <ret> <write offset> <hex of the bytes written>"
 *   R <hex of the file>                   -> "R <super_read ret> <id_table_read ret | CMP | -> <19 fields>"
 */
#include "config.h"
#include "sqfs/super.h"
#include "sqfs/io.h"
#include "sqfs/compressor.h"
#include "sqfs/id_table.h"
#include "sqfs/error.h"

#include <stdio.h>
#include <stdlib.h>
#include <string.h>

typedef struct {
	sqfs_file_t base;
	sqfs_u64 off;
	size_t len;
	int calls;
	unsigned char data[4096];
} capture_t;

static int cap_write_at(sqfs_file_t *f, sqfs_u64 offset, const void *buffer, size_t size)
{
	capture_t *c = (capture_t *)f;

	c->calls += 1;
	c->off = offset;
	c->len = size < sizeof(c->data) ? size : sizeof(c->data);
	memcpy(c->data, buffer, c->len);
	return 0;
}

static int hv(int c) { return c <= '9' ? c - '0' : c - 'a' + 10; }

static char line[1 << 20];
static unsigned char buf[1 << 19];

int main(int argc, char **argv)
{
	const char *tmp = argc > 1 ? argv[1] : "/var/tmp/c14_h_super.tmp";

	while (fgets(line, sizeof(line), stdin)) {
		size_t n = strlen(line);

		while (n > 0 && (line[n - 1] == '\n' || line[n - 1] == '\r'))
			line[--n] = 0;

		if (line[0] == 'I') {
			unsigned long long bs, mt, comp;
			sqfs_super_t s;
			capture_t cap;
			int ret;
			size_t i;

			if (sscanf(line + 1, "%llx %llx %llx", &bs, &mt, &comp) != 3) {
				puts("BAD");
				continue;
			}
			memset(&s, 0xA5, sizeof(s));
			ret = sqfs_super_init(&s, (size_t)bs, (sqfs_u32)mt, (SQFS_COMPRESSOR)comp);
			if (ret != 0) {
				printf("I %d\n", ret);
				continue;
			}
			memset(&cap, 0, sizeof(cap));
			cap.base.write_at = cap_write_at;
			ret = sqfs_super_write(&s, (sqfs_file_t *)&cap);
			printf("I %d %llx ", ret, (unsigned long long)cap.off);
			if (cap.calls != 1)
				printf("CALLS=%d ", cap.calls);
			for (i = 0; i < cap.len; ++i)
				printf("%02x", cap.data[i]);
			putchar('\n');
		} else if (line[0] == 'R') {
			sqfs_compressor_config_t cfg;
			sqfs_compressor_t *cmp = NULL;
			sqfs_id_table_t *idtbl;
			sqfs_file_t *file = NULL;
			sqfs_super_t s;
			const char *p = line + 1;
			size_t len = 0;
			FILE *fp;
			int r1, r2;

			while (*p == ' ')
				++p;
			if (strcmp(p, "-") != 0) {
				for (; p[0] && p[1]; p += 2)
					buf[len++] = (unsigned char)(hv(p[0]) * 16 + hv(p[1]));
			}
			fp = fopen(tmp, "wb");
			if (fp == NULL || fwrite(buf, 1, len, fp) != len || fclose(fp) != 0) {
				puts("TMPFAIL");
				return 2;
			}
			if (sqfs_file_open(&file, tmp, SQFS_FILE_OPEN_READ_ONLY) != 0) {
				puts("OPENFAIL");
				return 2;
			}
			memset(&s, 0, sizeof(s));
			r1 = sqfs_super_read(&s, file);
			if (r1 != 0) {
				printf("R %d -\n", r1);
				sqfs_drop(file);
				continue;
			}
			printf("R 0 ");
			sqfs_compressor_config_init(&cfg, s.compression_id, s.block_size,
						    SQFS_COMP_FLAG_UNCOMPRESS);
			if (sqfs_compressor_create(&cfg, &cmp) != 0) {
				fputs("CMP", stdout);
			} else {
				idtbl = sqfs_id_table_create(0);
				r2 = sqfs_id_table_read(idtbl, file, &s, cmp);
				printf("%d", r2);
				sqfs_drop(idtbl);
				sqfs_drop(cmp);
			}
			printf(" %x %x %x %x %x %x %x %x %x %x %x %llx %llx %llx %llx %llx %llx %llx %llx\n",
			       s.magic, s.inode_count, s.modification_time, s.block_size,
			       s.fragment_entry_count, s.compression_id, s.block_log, s.flags,
			       s.id_count, s.version_major, s.version_minor,
			       (unsigned long long)s.root_inode_ref, (unsigned long long)s.bytes_used,
			       (unsigned long long)s.id_table_start,
			       (unsigned long long)s.xattr_id_table_start,
			       (unsigned long long)s.inode_table_start,
			       (unsigned long long)s.directory_table_start,
			       (unsigned long long)s.fragment_table_start,
			       (unsigned long long)s.export_table_start);
			sqfs_drop(file);
		} else {
			puts("BAD");
		}
	}
	remove(tmp);
	return 0;
}
