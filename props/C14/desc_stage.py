"""C14, descriptor leg (strengthening after seeded/C14-8): lib/sqfs/src/io/file.c's output descriptor vs coq/C14/FileLenModel.v.

props/C14/h_file.c drives the working tree's sqfs_file_open / write_at / truncate / get_size / sqfs_drop with a call sequence
and reports after EVERY call get_size() (logical length) and stat().st_size (the file a kill would leave behind).  Expected
values: the EXTRACTED FileLenModel (coq/Extract/ExtractC14File.v + props/C14/file_driver.ml: fd_step Physical from fd0, fop_ok,
appendsb, fd_close Physical applied with apply_from), all sequences of a run - the harness cases and the call logs of the real
tool runs (check.py desc_length_tie) - through ONE driver process (`ModelProc`).  Theorem behind the comparison:
Properties_C14.truncate_is_physical (logical = physical after every call when no empty write lies behind the cached size) and
truncate_reaches_the_file.

`model_run` is a Python transcription of the same three functions; it is NOT used by the check any more, only by the selftest
(`python3 props/C14/desc_stage.py`: driver in "full" mode = transcription on the quick-tier cases of seeds 1, 2, 3)."""
import os
import random
import subprocess
import threading


def parse(line):
    ops = []
    for tok in line.split():
        if tok[0] == "w":
            a, b, c = tok[1:].split(":")
            ops.append(("w", int(a), int(b), int(c)))
        else:
            ops.append(("t", int(tok[1:])))
    return ops


def model_run(ops):
    """selftest only.  [(fd_size, length of fd_file, fops_ok so far)] after every call, and the final file"""
    f = bytearray()
    size = 0
    ok = True
    out = []
    for op in ops:
        if op[0] == "w":
            _, off, n, seed = op
            if n == 0 and off > size:
                ok = False                      # fop_ok: an empty write behind the cached size moves it without any call
            if n > 0:                           # TraceModel.pwrite
                if len(f) < off:
                    f.extend(bytes(off - len(f)))
                f[off:off + n] = bytes((seed + 7 * i) & 255 for i in range(n))
            e = off + n
            if size <= e:                       # if (offset >= file->size) file->size = offset;
                size = e
        else:
            m = op[1]                           # TraceModel.truncate, fd_trunc Physical
            if m <= len(f):
                del f[m:]
            else:
                f.extend(bytes(m - len(f)))
            size = m
        out.append((size, len(f), ok))
    return out, bytes(f)


def fnv(b):
    h = 1469598103934665603
    for c in b:
        h = ((h ^ c) * 1099511628211) & ((1 << 64) - 1)
    return "%016x" % h


def gen_cases(seed, tier):
    rnd = random.Random(seed * 5639 + 41)
    cases = []

    def w(off, n):
        return "w%d:%d:%d" % (off, n, rnd.randrange(256))

    # the writer's pattern: super block, appends at get_size(), roll-backs to the end of an earlier block (of the last block,
    # of several, right before the tables / the commit), super block rewritten at 0, padding
    for _ in range(60 if tier == "quick" else 1500):
        ops = [w(0, 96)]
        size = 96
        marks = [96]
        for _ in range(rnd.randint(1, 12)):
            r = rnd.random()
            if r < 0.6:
                n = rnd.choice([0, 1, 2, 8, 100, 512, 4096, rnd.randint(1, 5000)])
                ops.append(w(size, n))
                size += n
                marks.append(size)
            elif r < 0.9:
                size = rnd.choice(marks)
                marks = [m for m in marks if m <= size]
                ops.append("t%d" % size)
            else:
                ops.append(w(0, 96))
        ops.append(w(0, 96))
        if rnd.random() < 0.7:
            ops.append(w(size, rnd.choice([1, 8, 4096 - size % 4096])))
        cases.append(" ".join(ops))
    # anything: writes inside / behind the end (gap), truncate that extends, to 0, to the same size, empty writes at / before /
    # behind the cached size (the last one is outside fops_ok: the model predicts the disagreement get_size != st_size)
    for _ in range(120 if tier == "quick" else 3000):
        ops = []
        for _ in range(rnd.randint(1, 10)):
            if rnd.random() < 0.6:
                ops.append(w(rnd.choice([0, 1, 95, 96, 100, 1000, 4096, rnd.randint(0, 9000)]),
                             rnd.choice([0, 0, 1, 7, 96, 300, 4096, rnd.randint(0, 6000)])))
            else:
                ops.append("t%d" % rnd.choice([0, 1, 96, 100, 4095, 4096, 4097, rnd.randint(0, 12000)]))
        cases.append(" ".join(ops))
    cases += ["t0", "t5000", "w0:0:1", "w10:0:1", "w10:0:1 w0:4:2", "w0:10:1 t4 w2:0:0 t10", "w0:4096:3 w4096:4096:3 t4096 w4096:10:9 w0:96:1"]
    return cases


def trace_line(calls):
    """the logged output calls of a real run [("W", off, len) | ("T", n, 0) | ("X", 0, 0)] as a sequence for the model: the
    bytes do not matter for the lengths (pattern with seed 0); an unmodelled call is the empty write at 0 (changes nothing)"""
    out = []
    for c in calls:
        if c[0] == "W":
            out.append("w%d:%d:0" % (c[1], c[2]))
        elif c[0] == "T":
            out.append("t%d" % c[1])
        else:
            out.append("w0:0:0")
    return " ".join(out)


def parse_model_line(got):
    """one output line of props/C14/file_driver.ml -> dict(steps=[(fd_size, flen fd_file, fops_ok so far, appendsb of the step)],
    before=, after=, hash=, extra=[fops_ok, agree] in full mode) or None"""
    try:
        head, tail = got.split(" | ")
        assert head.split()[0] == "M"
        steps = [tuple(int(x) for x in t.split(",")) for t in head.split()[1:]]
        assert all(len(t) == 4 for t in steps)
        tt = tail.split()
        return dict(steps=steps, before=int(tt[0]), after=int(tt[1]), hash=tt[2], extra=[int(x) for x in tt[3:]])
    except (ValueError, AssertionError, IndexError):
        return None


class ModelProc:
    """ONE process of the extracted FileLenModel for all call sequences of a run.  Sequences are handed over as they become
    known (`submit`, thread safe; the driver answers line by line), so the model works while the real tools still run;
    `finish` closes the input and returns everything.  (The extracted list functions are not tail recursive and the file is
    a list of N: a 180 kB image with 110 calls costs seconds, which this way are not added to the run time.)"""

    def __init__(self, driver, preexec=None, full=False):
        env = dict(os.environ)
        env.setdefault("OCAMLRUNPARAM", "s=8M")      # deep recursion: every minor collection scans the whole stack
        self.p = subprocess.Popen([driver] + (["full"] if full else []), stdin=subprocess.PIPE, stdout=subprocess.PIPE,
                                  stderr=subprocess.PIPE, preexec_fn=preexec, env=env)
        self.lock = threading.Lock()
        self.n = 0
        self.out = []
        self.t = threading.Thread(target=self._read, daemon=True)
        self.t.start()

    def _read(self):
        for ln in self.p.stdout:
            self.out.append(ln.decode("utf-8", "replace").rstrip("\n"))

    def submit(self, line):
        """-> index of the sequence in the result of finish()"""
        with self.lock:
            try:
                self.p.stdin.write(((line if line.strip() else "w0:0:0") + "\n").encode())
                self.p.stdin.flush()
            except (OSError, ValueError):
                pass                                  # the driver died: finish() reports it
            self.n += 1
            return self.n - 1

    def finish(self, timeout=600):
        """-> (one entry per submitted sequence: parse_model_line or None, error text or None)"""
        try:
            self.p.stdin.close()
        except OSError:
            pass
        self.t.join(timeout)
        err = None
        if self.t.is_alive():
            self.p.kill()
            self.t.join(10)
            err = "descriptor model driver timed out"
        rc = self.p.wait()
        if err is None and rc != 0:
            err = "descriptor model driver rc=%d %s" % (rc, self.p.stderr.read().decode("utf-8", "replace")[-300:])
        self.p.stderr.close()
        return [parse_model_line(self.out[i]) if i < len(self.out) else None for i in range(self.n)], err


def model_batch(driver, lines, preexec=None, full=False, timeout=600):
    """the extracted FileLenModel on every sequence of `lines`, one driver process -> as ModelProc.finish"""
    mp = ModelProc(driver, preexec=preexec, full=full)
    for l in lines:
        mp.submit(l)
    return mp.finish(timeout)


def run_harness(harness, scratch_file, cases):
    """the real descriptor on every case -> (output lines, error text or None)"""
    data = ("\n".join(cases) + "\n").encode()
    try:
        r = subprocess.run([harness, scratch_file], input=data, stdout=subprocess.PIPE, stderr=subprocess.PIPE, timeout=300)
    except subprocess.TimeoutExpired:
        return [], "descriptor harness timed out"
    err = None
    if r.returncode != 0:
        err = "descriptor harness rc=%d %s" % (r.returncode, r.stderr.decode("utf-8", "replace")[-300:])
    return r.stdout.decode().split("\n"), err


def compare(cases, lines, herr, models, merr):
    """harness output vs extracted model -> (list of problems (kind, text, line), stats)"""
    bad = []
    st = dict(cases=0, calls=0, truncations=0, shrinks=0, invariant_points=0, outside_fops_ok=0)
    for e in (herr, merr):
        if e:
            bad.append(("machinery", e, cases[0]))
    for i, line in enumerate(cases):
        got = lines[i] if i < len(lines) else "<missing>"
        ops = parse(line)
        mod = models[i] if i < len(models) else None
        st["cases"] += 1
        if mod is None or len(mod["steps"]) != len(ops):
            bad.append(("machinery", "no / unparsable line of the extracted model (props/C14/file_driver.ml)", line))
            continue
        exp = mod["steps"]
        try:
            head, tail = got.split(" | ")
            toks = head.split()[1:]
            before, after, h = tail.split()
            assert len(toks) == len(ops)
        except (ValueError, AssertionError):
            bad.append(("machinery", "unparsable harness line %r" % got[:200], line))
            continue
        prev_len = 0
        for j, (tok, (msize, mlen, ok, _app)) in enumerate(zip(toks, exp)):
            rc, gs, ss = (int(x) for x in tok.split(","))
            st["calls"] += 1
            if ops[j][0] == "t":
                st["truncations"] += 1
                if ops[j][1] < prev_len:
                    st["shrinks"] += 1
            kind = "truncate" if ops[j][0] == "t" else "write"
            if rc != 0:
                bad.append((kind, "call %d (%s) returned %d" % (j, line.split()[j], rc), line))
                break
            if ss != mlen:
                bad.append((kind, "after call %d (%s) the file is %d bytes long (stat), model %d; get_size() = %d"
                            % (j, line.split()[j], ss, mlen, gs), line))
                break
            if gs != msize:
                bad.append((kind, "after call %d (%s) get_size() = %d, model %d (file %d bytes)" % (j, line.split()[j], gs, msize, ss), line))
                break
            if ok:
                st["invariant_points"] += 1
                if gs != ss:                    # cannot happen when the two comparisons above hold and the theorem is right
                    bad.append((kind, "logical %d != physical %d after call %d" % (gs, ss, j), line))
                    break
            else:
                st["outside_fops_ok"] += 1
            prev_len = mlen
        else:
            if int(before) != mod["before"] or int(after) != mod["after"] or h != mod["hash"]:
                bad.append(("close", "file before / after sqfs_drop: %s / %s bytes, hash %s; model %d / %d bytes, hash %s"
                            % (before, after, h, mod["before"], mod["after"], mod["hash"]), line))
    return bad, st


def selftest(driver, preexec=None):
    """the driver (full mode: also fops_ok on the whole sequence and fd_run = the steps) against the Python transcription"""
    n = 0
    for seed in (1, 2, 3):
        cases = gen_cases(seed, "quick")
        models, err = model_batch(driver, cases, preexec=preexec, full=True)
        assert err is None, err
        for line, mod in zip(cases, models):
            exp, final = model_run(parse(line))
            assert mod is not None, line
            assert [(a, b, int(c)) for a, b, c in exp] == [t[:3] for t in mod["steps"]], line
            assert (mod["before"], mod["after"], mod["hash"]) == (len(final), len(final), fnv(final)), line
            assert mod["extra"] == [int(exp[-1][2]), 1], line
            n += 1
    return n


if __name__ == "__main__":
    import sys
    sys.path.insert(0, os.path.join(os.path.dirname(os.path.abspath(__file__)), "..", ".."))
    from vlib import core
    here = os.path.dirname(os.path.abspath(__file__))
    drv = core.build_model_driver("C14file", "ExtractC14File.v", os.path.join(here, "file_driver.ml"))
    print("selftest ok: %d sequences, extracted FileLenModel = transcription" % selftest(drv))
