"""C14, descriptor leg (strengthening after seeded/C14-8): lib/sqfs/src/io/file.c's output descriptor vs coq/C14/FileLenModel.v.

props/C14/h_file.c drives the working tree's sqfs_file_open / write_at / truncate / get_size / sqfs_drop with a call sequence
and reports after EVERY call get_size() (logical length) and stat().st_size (the file a kill would leave behind).  Expected
values: `model_run` below, a transcription of fd_write / fd_trunc Physical / fd_close Physical (FileLenModel.v is not extracted:
the functions are three lines each; the POSIX file itself - pwrite / truncate - is the extracted TraceModel.apply tied at every
kill point of the sweep).  Theorem behind the comparison: Properties_C14.truncate_is_physical (logical = physical after every
call when no empty write lies behind the cached size) and truncate_reaches_the_file."""
import random
import subprocess


def parse(line):
    ops = []
    for tok in line.split():
        if tok[0] == "w":
            a, b, c = tok[1:].split(":")
            ops.append(("w", int(a), int(b), int(c)))
        else:
            ops.append(("t", int(tok[1:])))
    return ops


def model_run(ops):
    """[(fd_size, length of fd_file, fops_ok so far)] after every call, and the final file"""
    f = bytearray()
    size = 0
    ok = True
    out = []
    for op in ops:
        if op[0] == "w":
            _, off, n, seed = op
            if n == 0 and off > size:
                ok = False                      # fop_ok: an empty write behind the cached size moves it without any call
            if n > 0:                           # TraceModel.pwrite
                if len(f) < off:
                    f.extend(bytes(off - len(f)))
                f[off:off + n] = bytes((seed + 7 * i) & 255 for i in range(n))
            e = off + n
            if size <= e:                       # if (offset >= file->size) file->size = offset;
                size = e
        else:
            m = op[1]                           # TraceModel.truncate, fd_trunc Physical
            if m <= len(f):
                del f[m:]
            else:
                f.extend(bytes(m - len(f)))
            size = m
        out.append((size, len(f), ok))
    return out, bytes(f)


def fnv(b):
    h = 1469598103934665603
    for c in b:
        h = ((h ^ c) * 1099511628211) & ((1 << 64) - 1)
    return "%016x" % h


def gen_cases(seed, tier):
    rnd = random.Random(seed * 5639 + 41)
    cases = []

    def w(off, n):
        return "w%d:%d:%d" % (off, n, rnd.randrange(256))

    # the writer's pattern: super block, appends at get_size(), roll-backs to the end of an earlier block (of the last block,
    # of several, right before the tables / the commit), super block rewritten at 0, padding
    for _ in range(60 if tier == "quick" else 1500):
        ops = [w(0, 96)]
        size = 96
        marks = [96]
        for _ in range(rnd.randint(1, 12)):
            r = rnd.random()
            if r < 0.6:
                n = rnd.choice([0, 1, 2, 8, 100, 512, 4096, rnd.randint(1, 5000)])
                ops.append(w(size, n))
                size += n
                marks.append(size)
            elif r < 0.9:
                size = rnd.choice(marks)
                marks = [m for m in marks if m <= size]
                ops.append("t%d" % size)
            else:
                ops.append(w(0, 96))
        ops.append(w(0, 96))
        if rnd.random() < 0.7:
            ops.append(w(size, rnd.choice([1, 8, 4096 - size % 4096])))
        cases.append(" ".join(ops))
    # anything: writes inside / behind the end (gap), truncate that extends, to 0, to the same size, empty writes at / before /
    # behind the cached size (the last one is outside fops_ok: the model predicts the disagreement get_size != st_size)
    for _ in range(120 if tier == "quick" else 3000):
        ops = []
        for _ in range(rnd.randint(1, 10)):
            if rnd.random() < 0.6:
                ops.append(w(rnd.choice([0, 1, 95, 96, 100, 1000, 4096, rnd.randint(0, 9000)]),
                             rnd.choice([0, 0, 1, 7, 96, 300, 4096, rnd.randint(0, 6000)])))
            else:
                ops.append("t%d" % rnd.choice([0, 1, 96, 100, 4095, 4096, 4097, rnd.randint(0, 12000)]))
        cases.append(" ".join(ops))
    cases += ["t0", "t5000", "w0:0:1", "w10:0:1", "w10:0:1 w0:4:2", "w0:10:1 t4 w2:0:0 t10", "w0:4096:3 w4096:4096:3 t4096 w4096:10:9 w0:96:1"]
    return cases


def run(harness, scratch_file, cases):
    """-> (list of problems (kind, text, line), stats)"""
    data = ("\n".join(cases) + "\n").encode()
    try:
        r = subprocess.run([harness, scratch_file], input=data, stdout=subprocess.PIPE, stderr=subprocess.PIPE, timeout=300)
    except subprocess.TimeoutExpired:
        return [("machinery", "descriptor harness timed out", cases[0])], {}
    lines = r.stdout.decode().split("\n")
    bad = []
    st = dict(cases=0, calls=0, truncations=0, shrinks=0, invariant_points=0, outside_fops_ok=0)
    if r.returncode != 0:
        bad.append(("machinery", "descriptor harness rc=%d %s" % (r.returncode, r.stderr.decode("utf-8", "replace")[-300:]), cases[0]))
    for i, line in enumerate(cases):
        got = lines[i] if i < len(lines) else "<missing>"
        ops = parse(line)
        exp, final = model_run(ops)
        st["cases"] += 1
        try:
            head, tail = got.split(" | ")
            toks = head.split()[1:]
            before, after, h = tail.split()
            assert len(toks) == len(ops)
        except (ValueError, AssertionError):
            bad.append(("machinery", "unparsable harness line %r" % got[:200], line))
            continue
        prev_len = 0
        for j, (tok, (msize, mlen, ok)) in enumerate(zip(toks, exp)):
            rc, gs, ss = (int(x) for x in tok.split(","))
            st["calls"] += 1
            if ops[j][0] == "t":
                st["truncations"] += 1
                if ops[j][1] < prev_len:
                    st["shrinks"] += 1
            kind = "truncate" if ops[j][0] == "t" else "write"
            if rc != 0:
                bad.append((kind, "call %d (%s) returned %d" % (j, line.split()[j], rc), line))
                break
            if ss != mlen:
                bad.append((kind, "after call %d (%s) the file is %d bytes long (stat), model %d; get_size() = %d"
                            % (j, line.split()[j], ss, mlen, gs), line))
                break
            if gs != msize:
                bad.append((kind, "after call %d (%s) get_size() = %d, model %d (file %d bytes)" % (j, line.split()[j], gs, msize, ss), line))
                break
            if ok:
                st["invariant_points"] += 1
                if gs != ss:                    # cannot happen when the two comparisons above hold and the theorem is right
                    bad.append((kind, "logical %d != physical %d after call %d" % (gs, ss, j), line))
                    break
            else:
                st["outside_fops_ok"] += 1
            prev_len = mlen
        else:
            if int(before) != len(final) or int(after) != len(final) or h != fnv(final):
                bad.append(("close", "file before / after sqfs_drop: %s / %s bytes, fnv %s; model %d bytes, fnv %s"
                            % (before, after, h, len(final), fnv(final)), line))
    return bad, st
