"""C14 — a killed packer never leaves a file that reads as a complete image.

Theorems: coq/Properties_C14.v (superblock codec, provisional superblock refused by every reader,
every crash point of a trace of the promised shape is refused or complete).
Tie (a) exact/verdict: extracted super_init+encode / super_read+id-table guard vs the working tree's
    sqfs_super_init+sqfs_super_write / sqfs_super_read+sqfs_id_table_read (props/C14/h_super.c).
Tie (b) trace: real gensquashfs / tar2sqfs runs under an LD_PRELOAD shim that logs every output
    system call; the extracted trace_okb is evaluated on the real trace (run-time check of the
    theorems' hypothesis), and the extracted `apply` of every trace prefix is compared with the file
    a packer killed at that point really leaves behind (md5).
Tie (c) system-call level (session 3, props/C14/fine_stage.py): the logged calls of every real run must REFINE the
    section-level trace of Image.FinishModel recomputed from the image (extracted trace_refinesb / coarse_of_image) and
    every section but the data area must have been written with exactly the calls coq/C14/FineModel.v predicts; a
    component harness (h_fine.c, toy compressor) compares the library's whole call sequence with the model's fine trace.
Search: the kill sweep - for every input and every k the shim SIGKILLs the packer right before its
    k-th output call; rdsquashfs -l, rdsquashfs -d and sqfs2tar on the file left behind must each
    fail or produce exactly what they produce on the image of the uninterrupted run."""
import hashlib
import io
import json
import os
import random
import shutil
import subprocess
import sys
import time
import tarfile
from concurrent.futures import ThreadPoolExecutor

from vlib import build as B
from vlib import core

HERE = os.path.dirname(os.path.abspath(__file__))
if HERE not in sys.path:
    sys.path.insert(0, HERE)
import desc_stage  # noqa: E402  (props/C14/desc_stage.py: io/file.c descriptor vs coq/C14/FileLenModel.v)
import fine_stage  # noqa: E402  (props/C14/fine_stage.py: system-call level trace, refinement check, harness tie)
LEVEL = "proof"

NO_TABLE = (1 << 64) - 1
COMPRESSORS = ["gzip", "lzma", "xz", "lz4", "zstd"]
READERS = ["rd-l", "rd-d", "s2t"]


# ----------------------------------------------------------------------------------------------
# build
# ----------------------------------------------------------------------------------------------

def build_all():
    info = B.build("plain")
    h = B.compile_harness(info, [os.path.join(HERE, "h_super.c")], "h_super_c14")
    shim = B.compile_harness(info, [os.path.join(HERE, "shim_io.c")], "shim_io_c14.so",
                             extra=["-shared", "-fPIC"], link_lib=False, libs=["-ldl", "-lpthread"])
    drv = core.build_model_driver("C14", "ExtractC14.v", os.path.join(HERE, "driver.ml"))
    return info, h, shim, drv


def build_desc(info):
    """-> (harness of io/file.c's descriptor or None, driver of the extracted FileLenModel, why the harness does not build)"""
    filedrv = core.build_model_driver("C14file", "ExtractC14File.v", os.path.join(HERE, "file_driver.ml"))
    try:
        return B.compile_harness(info, [os.path.join(HERE, "h_file.c")], "h_file_c14"), filedrv, None
    except Exception as e:  # noqa: BLE001
        return None, filedrv, str(e)


def build_fine(info):
    """harness + driver of the system-call level model (session 3); (None, None, why) if they no longer build"""
    try:
        hf, fdrv = fine_stage.build(B, core, info)
        return hf, fdrv, None
    except Exception as e:  # model / harness no longer builds against the current tree
        return None, None, str(e)


# ----------------------------------------------------------------------------------------------
# tie (a): component cases
# ----------------------------------------------------------------------------------------------

FIELDS = [("magic", 0, 4), ("inode_count", 4, 4), ("mtime", 8, 4), ("block_size", 12, 4),
          ("frag_count", 16, 4), ("comp_id", 20, 2), ("block_log", 22, 2), ("flags", 24, 2),
          ("id_count", 26, 2), ("vmaj", 28, 2), ("vmin", 30, 2), ("root_ref", 32, 8),
          ("bytes_used", 40, 8), ("id_start", 48, 8), ("xattr_start", 56, 8), ("inode_start", 64, 8),
          ("dir_start", 72, 8), ("frag_start", 80, 8), ("export_start", 88, 8)]
FOFF = {n: (o, w) for n, o, w in FIELDS}


def mk_super(**kw):
    vals = dict(magic=0x73717368, inode_count=1, mtime=0, block_size=4096, frag_count=0, comp_id=1,
                block_log=12, flags=0x250, id_count=1, vmaj=4, vmin=0, root_ref=0, bytes_used=96,
                id_start=NO_TABLE, xattr_start=NO_TABLE, inode_start=NO_TABLE, dir_start=NO_TABLE,
                frag_start=NO_TABLE, export_start=NO_TABLE)
    vals.update(kw)
    b = bytearray(96)
    for n, o, w in FIELDS:
        b[o:o + w] = (vals[n] & ((1 << (8 * w)) - 1)).to_bytes(w, "little")
    return bytes(b)


def valid_image(nids=2, comp=1, bs=4096):
    """superblock + one uncompressed metadata block holding `nids` ids + its location list:
    sqfs_id_table_read succeeds on it."""
    ids = b"".join((1000 + i).to_bytes(4, "little") for i in range(nids))
    blk = (0x8000 | len(ids)).to_bytes(2, "little") + ids
    loc = 96 + len(blk)
    total = loc + 8
    lg = bs.bit_length() - 1
    sb = mk_super(comp_id=comp, block_size=bs, block_log=lg, id_count=nids, id_start=loc, dir_start=96,
                  inode_start=96, bytes_used=total)
    return sb + blk + (96).to_bytes(8, "little"), loc, total


def put(img, name, val):
    o, w = FOFF[name]
    b = bytearray(img)
    b[o:o + w] = (val & ((1 << (8 * w)) - 1)).to_bytes(w, "little")
    return bytes(b)


def gen_component_cases(ctx):
    """returns list of (line, tail_valid) ; tail_valid = 'if the model accepts, sqfs_id_table_read must return 0'"""
    rnd = random.Random(ctx.seed * 7919 + 14)
    cases = []
    # ---- I: sqfs_super_init + sqfs_super_write ----
    bss = {0, 1, 2, 3, 4095, 4096, 4097, 6144, 12288, (1 << 20) - 1, 1 << 20, (1 << 20) + 1, 1 << 21,
           (1 << 32) - 1, 1 << 32, (1 << 32) + 4096, (1 << 32) + (1 << 20), 1 << 63, (1 << 64) - 1,
           (1 << 63) + 4096}
    for k in range(0, 26):
        bss |= {1 << k, (1 << k) + 1, max((1 << k) - 1, 0)}
        for j in range(0, k, 5):
            bss.add((1 << k) + (1 << j))
    mts = [0, 1, 0x7fffffff, 0x80000000, 0xffffffff, 1700000000]
    comps = [0, 1, 2, 3, 4, 5, 6, 7, 8, 0xffff, 0x10001, 0x10006, 0x7fffffff]
    for bs in sorted(bss):
        cases.append(("I %x %x %x" % (bs, rnd.choice(mts), rnd.choice(comps)), False))
    for lg in range(12, 21):
        for mt in mts:
            for c in comps:
                cases.append(("I %x %x %x" % (1 << lg, mt, c), False))
    nrand = 300 if ctx.tier == "quick" else 20000
    for _ in range(nrand):
        bs = rnd.choice([1 << rnd.randint(0, 33), rnd.getrandbits(rnd.randint(1, 64)), 1 << rnd.randint(12, 20)])
        cases.append(("I %x %x %x" % (bs, rnd.getrandbits(32), rnd.choice(comps + [rnd.getrandbits(16)])), False))

    # ---- R: sqfs_super_read + sqfs_id_table_read ----
    def R(img, tv=False):
        cases.append(("R " + (img.hex() if img else "-"), tv))

    for comp in (1, 2, 3, 4, 5, 6):
        for bs in (4096, 8192, 1 << 17, 1 << 20):
            img, loc, total = valid_image(nids=rnd.randint(1, 5), comp=comp, bs=bs)
            R(img, True)
    img, loc, total = valid_image(nids=3)
    # short files
    for n in (0, 1, 4, 27, 48, 95, 96, 97, len(img) - 1):
        R(img[:n], False)
    bounds = {
        "magic": [0, 0x73717367, 0x73717369, 0x68737173, 0xffffffff],
        "vmaj": [0, 3, 5, 0xffff], "vmin": [1, 0xffff],
        "block_size": [0, 1, 2048, 4095, 4097, 6144, 8192, 1 << 20, 1 << 21, 1 << 31, 0xffffffff],
        "block_log": [0, 11, 13, 20, 21, 0xffff],
        "comp_id": [0, 1, 2, 3, 4, 5, 6, 7, 0xffff],
        "id_count": [0, 1, 2, 3, 4, 0x8000, 0xffff],
        "id_start": [0, 95, 96, loc - 1, loc + 1, total - 1, total, total + 1, NO_TABLE - 1, NO_TABLE],
        "bytes_used": [0, 95, 96, loc - 1, loc, loc + 1, total - 1, total + 1, 1 << 63, NO_TABLE],
        "dir_start": [0, 95, 97, 98, loc, NO_TABLE],
        "frag_start": [0, 96, 97, loc - 1, loc, NO_TABLE - 1],
        "export_start": [0, 96, 97, loc - 1, loc, NO_TABLE - 1],
        "inode_count": [0, 0xffffffff], "mtime": [0xffffffff], "frag_count": [0xffffffff],
        "flags": [0, 0xffff], "root_ref": [NO_TABLE], "xattr_start": [0, 96], "inode_start": [0, NO_TABLE],
    }
    free = {"inode_count", "mtime", "frag_count", "flags", "root_ref", "xattr_start", "inode_start"}
    for name, vs in bounds.items():
        for v in vs:
            R(put(img, name, v), name in free)
    # consistent block size / log pairs and the off-by-one neighbours
    for lg in range(10, 23):
        for d in (-1, 0, 1):
            R(put(put(img, "block_size", 1 << lg), "block_log", lg + d), d == 0 and 12 <= lg <= 20)
    # the lock pair: id_count x id_start x bytes_used
    for idc in (0, 1, 3):
        for ids in (0, 96, loc, total - 1, total, NO_TABLE):
            for bu in (0, 96, loc, loc + 1, total, NO_TABLE):
                R(put(put(put(img, "id_count", idc), "id_start", ids), "bytes_used", bu),
                  idc == 3 and ids == loc)
    # provisional superblocks exactly as sqfs_super_init makes them, with and without data behind them
    for lg in (12, 15, 17, 20):
        for comp in (1, 4, 6):
            sb = mk_super(block_size=1 << lg, block_log=lg, comp_id=comp, id_count=0, inode_count=0,
                          mtime=rnd.getrandbits(32))
            R(sb, False)
            R(sb + img[96:], False)
            # one lock opened at a time
            R(put(sb, "id_count", 1) + img[96:], False)
            R(put(put(sb, "id_start", loc), "bytes_used", total) + img[96:], False)
    # random byte damage of a valid image
    nrand = 400 if ctx.tier == "quick" else 20000
    for _ in range(nrand):
        b = bytearray(img)
        for _ in range(rnd.randint(1, 3)):
            p = rnd.randrange(96)
            b[p] = rnd.choice([0, 1, 0xff, b[p] ^ (1 << rnd.randrange(8)), rnd.getrandbits(8)])
        R(bytes(b), False)
    return cases


def big_stack():
    """the extracted list functions are not tail recursive: give the model driver a deep stack"""
    import resource
    resource.setrlimit(resource.RLIMIT_AS, (12 << 30, 12 << 30))
    soft, hard = resource.getrlimit(resource.RLIMIT_STACK)
    want = 4 << 30
    if hard != resource.RLIM_INFINITY:
        want = min(want, hard)
    try:
        resource.setrlimit(resource.RLIMIT_STACK, (want, hard))
    except (ValueError, OSError):
        pass


WRITE_SITES = {"lib/common/src/comp_lzo.c", "lib/common/src/writer/finish.c", "lib/sqfs/src/block_writer.c",
               "lib/sqfs/src/comp/compressor.c", "lib/sqfs/src/io/file.c", "lib/sqfs/src/meta_writer.c",
               "lib/sqfs/src/write_super.c", "lib/sqfs/src/write_table.c", "lib/sqfs/src/xattr/xattr_writer_flush.c"}


def call_sites(ctx):
    """Not a theorem: the places that can produce output events are the ones the trace shape was written for.
    (`writer_trace_ok` is established per run by trace_okb on the logged trace; this guards the code the
    sweep's inputs may not reach.)"""
    import re
    probs = []
    sw = {}
    sites = set()
    for top in ("lib", "bin"):
        for d, _, fs in os.walk(os.path.join(B.REPO, top)):
            if "/test" in d:
                continue
            for fn in fs:
                if not fn.endswith(".c"):
                    continue
                p = os.path.join(d, fn)
                rel = os.path.relpath(p, B.REPO)
                txt = open(p, errors="replace").read()
                n = len(re.findall(r"\bsqfs_super_write\s*\(", txt))
                if n:
                    sw[rel] = n
                if re.search(r"write_at\s*\(|->truncate\s*\(", txt):
                    sites.add(rel)
    want = {"lib/common/src/writer/finish.c": 1, "lib/common/src/writer/init.c": 1, "lib/sqfs/src/write_super.c": 1}
    if sw != want:
        probs.append(("super-write-sites", "sqfs_super_write is called from %s (expected: once in writer/init.c, once in writer/finish.c)" % sw))
    if sites != WRITE_SITES:
        probs.append(("write-sites", "files that write to / truncate an sqfs_file_t changed: new %s, gone %s"
                      % (sorted(sites - WRITE_SITES), sorted(WRITE_SITES - sites))))
    try:
        fin = open(os.path.join(B.REPO, "lib/common/src/writer/finish.c")).read()
        body = fin[fin.index("int sqfs_writer_finish"):]
        pos = {k: body.find(k) for k in ("sqfs_block_processor_finish(", "sqfs_serialize_fstree(", "sqfs_frag_table_write(",
                                         "sqfs_dir_writer_write_export_table(", "sqfs_id_table_write(",
                                         "sqfs_xattr_writer_flush(", "sqfs_super_write(")}
        last = pos["sqfs_super_write("]
        if last < 0 or any(v < 0 or v > last for k, v in pos.items() if k != "sqfs_super_write("):
            probs.append(("finish-order", "sqfs_writer_finish no longer calls sqfs_super_write after every table writer: %s" % pos))
    except (OSError, ValueError) as e:
        probs.append(("finish-order", "cannot read sqfs_writer_finish: %r" % (e,)))
    return probs


def run_lines(cmd, data):
    r = subprocess.run(cmd, input=data, stdout=subprocess.PIPE, stderr=subprocess.PIPE, preexec_fn=big_stack)
    return r.returncode, r.stdout.decode().split("\n"), r.stderr.decode("utf-8", "replace")


def component_tie(ctx, h, drv, cases):
    data = ("\n".join(c for c, _ in cases) + "\n").encode()
    tmp = os.path.join(ctx.scratch, "h_super.tmp")
    rc_c, out_c, err_c = run_lines([h, tmp], data)
    rc_m, out_m, err_m = run_lines([drv], data)
    bad = []
    stats = dict(init_ok=0, init_refused=0, read_ok=0, read_refused=0, guard_refused=0, opened=0)
    if rc_c != 0 or rc_m != 0:
        bad.append(("harness-exit", "rc_c=%d rc_m=%d %s %s" % (rc_c, rc_m, err_c[-300:], err_m[-300:]), cases[0][0]))
    for i, (line, tv) in enumerate(cases):
        lc = out_c[i] if i < len(out_c) else "<missing>"
        lm = out_m[i] if i < len(out_m) else "<missing>"
        pc, pm = lc.split(" "), lm.split(" ")
        if line[0] == "I":
            if pc != pm:
                bad.append(("super-init", "impl=%s model=%s" % (lc[:260], lm[:260]), line))
            if len(pc) > 2:
                stats["init_ok"] += 1
            else:
                stats["init_refused"] += 1
            continue
        # R lines: "R <r1> <r2> fields..."
        if len(pc) < 3 or len(pm) < 3:
            bad.append(("super-read", "impl=%s model=%s" % (lc[:200], lm[:200]), line))
            continue
        if pc[1] != pm[1]:
            bad.append(("super-read", "sqfs_super_read returns %s, model %s" % (pc[1], pm[1]), line))
            continue
        if pm[1] != "0":
            stats["read_refused"] += 1
            continue
        stats["read_ok"] += 1
        if pc[3:] != pm[3:]:
            bad.append(("super-read", "decoded fields differ: impl=%s model=%s" % (lc[:300], lm[:300]), line))
        if pm[2] != "0":
            stats["guard_refused"] += 1
            # the model says the id-table guard refuses: the implementation must fail with that code
            # (or already have no compressor: then the reader has exited before)
            if pc[2] not in ("-5", "CMP"):
                bad.append(("id-table-guard", "model refuses (id_count / id_table_start >= bytes_used), "
                            "sqfs_id_table_read returned %s" % pc[2], line))
        elif tv and pc[2] != "CMP":
            if pc[2] != "0":
                bad.append(("id-table-guard", "model accepts a well-formed image, sqfs_id_table_read returned %s" % pc[2], line))
            else:
                stats["opened"] += 1
    return bad, stats, (out_c, out_m)


# ----------------------------------------------------------------------------------------------
# inputs of the kill sweep
# ----------------------------------------------------------------------------------------------

class Inp:
    def __init__(self, name, tool, args, stdin=None, preexisting=False, recipe=None):
        self.name, self.tool, self.args, self.stdin, self.preexisting = name, tool, args, stdin, preexisting
        self.recipe = recipe or {}


def blob(rnd, n, kind):
    if kind == "rand":
        return bytes(rnd.getrandbits(8) for _ in range(n))
    if kind == "zero":
        return bytes(n)
    if kind == "text":
        words = [b"squash", b"file", b"system", b"block", b"inode", b"table", b"\n", b" "]
        out = bytearray()
        while len(out) < n:
            out += rnd.choice(words)
        return bytes(out[:n])
    # "mixed": compressible but not trivially so
    chunk = bytes(rnd.getrandbits(8) for _ in range(97))
    out = bytearray()
    while len(out) < n:
        out += chunk[:rnd.randint(10, 97)]
        out += bytes([rnd.getrandbits(8)])
    return bytes(out[:n])


def write_tree(rnd, d, files):
    os.makedirs(d, exist_ok=True)
    for path, data in files:
        p = os.path.join(d, path)
        os.makedirs(os.path.dirname(p), exist_ok=True)
        open(p, "wb").write(data)


def pack_input(rnd, base, name, bs, comp, files, extra_lines=(), extra_args=(), xattrs=None, preexisting=False):
    """gensquashfs -F packfile -D srcdir"""
    d = os.path.join(base, name)
    src = os.path.join(d, "src")
    write_tree(rnd, src, files)
    lines = []
    dirs = set()
    for path, _ in files:
        parts = path.split("/")[:-1]
        for i in range(1, len(parts) + 1):
            dirs.add("/".join(parts[:i]))
    for x in sorted(dirs):
        lines.append("dir /%s 0755 %d %d" % (x, rnd.choice([0, 1000]), rnd.choice([0, 100])))
    for path, _ in files:
        lines.append("file /%s 0%o %d %d" % (path, rnd.choice([0o644, 0o755, 0o600]), rnd.choice([0, 1000, 1001]), 0))
    lines += list(extra_lines)
    pf = os.path.join(d, "pack.txt")
    open(pf, "w").write("\n".join(lines) + "\n")
    args = ["-q", "-j", "1", "-b", str(bs), "-c", comp, "-F", pf, "-D", src] + list(extra_args)
    if xattrs:
        xf = os.path.join(d, "xattr.txt")
        open(xf, "w").write(xattrs)
        args += ["-A", xf]
    if preexisting:
        args += ["-f"]
    return Inp(name, "gensquashfs", args, preexisting=preexisting,
               recipe=dict(tool="gensquashfs", bs=bs, comp=comp, files=len(files)))


def tar_input(rnd, base, name, bs, comp, members, extra_args=(), jobs=1):
    d = os.path.join(base, name)
    os.makedirs(d, exist_ok=True)
    bio = io.BytesIO()
    tf = tarfile.open(fileobj=bio, mode="w", format=tarfile.PAX_FORMAT)
    for m in members:
        ti = tarfile.TarInfo(m["name"])
        ti.mtime = m.get("mtime", 1600000000)
        ti.uid, ti.gid = m.get("uid", 0), m.get("gid", 0)
        ti.uname = ti.gname = ""
        ti.mode = m.get("mode", 0o644)
        kind = m.get("type", "file")
        if m.get("xattrs"):
            ti.pax_headers = {"SCHILY.xattr." + k: v for k, v in m["xattrs"].items()}
        if kind == "dir":
            ti.type = tarfile.DIRTYPE
            ti.mode = 0o755
            tf.addfile(ti)
        elif kind == "sym":
            ti.type = tarfile.SYMTYPE
            ti.linkname = m["target"]
            tf.addfile(ti)
        elif kind == "hard":
            ti.type = tarfile.LNKTYPE
            ti.linkname = m["target"]
            tf.addfile(ti)
        elif kind == "fifo":
            ti.type = tarfile.FIFOTYPE
            tf.addfile(ti)
        else:
            ti.size = len(m["data"])
            tf.addfile(ti, io.BytesIO(m["data"]))
    tf.close()
    data = bio.getvalue()
    open(os.path.join(d, "in.tar"), "wb").write(data)
    args = ["-q", "-j", str(jobs), "-b", str(bs), "-c", comp] + list(extra_args)
    return Inp(name, "tar2sqfs", args, stdin=data,
               recipe=dict(tool="tar2sqfs", bs=bs, comp=comp, members=len(members), jobs=jobs))


def std_files(rnd, bs, scale=1):
    big = blob(rnd, int(bs * 2.4) + rnd.randint(1, 300), "rand")
    return [
        ("a.txt", b"hello\n"),
        ("d1/rand", big),
        ("d1/empty", b""),
        ("d2/dup", big),                                   # whole-file duplicate: block writer truncates
        ("d2/b.txt", blob(rnd, rnd.randint(1, 900), "text")),
        ("zeros", bytes(2 * bs + rnd.randint(0, bs // 2))),     # sparse blocks
        ("d2/deep/mixed", blob(rnd, bs * scale + rnd.randint(1, bs - 1), "mixed")),
        ("tailonly", blob(rnd, rnd.randint(1, bs - 1), "mixed")),
    ]


def make_inputs(ctx, base):
    rnd = random.Random(ctx.seed * 104729 + 3)
    inputs = []
    special = ["nod /dev_null 0666 0 0 c 1 3", "nod /blk 0600 0 0 b 8 1", "slink /lnk 0777 0 0 a.txt",
               "pipe /fifo 0644 5 5", "sock /sock 0644 5 5", "link /hard 0644 0 0 /a.txt"]
    # A: duplicates, sparse, fragments, every inode type; xz, 4k blocks
    inputs.append(pack_input(rnd, base, "gen-dedup-xz-4k", 4096, "xz", std_files(rnd, 4096), special))
    # B: default block size, gzip, export table
    inputs.append(pack_input(rnd, base, "gen-export-gzip-128k", 131072, "gzip",
                             [("big", blob(rnd, 131072 + rnd.randint(1, 50000), "mixed")),
                              ("small1", blob(rnd, 300, "text")), ("d/small2", blob(rnd, 5000, "text"))],
                             special[:3], extra_args=["-e"]))
    # C: many inodes -> several metadata blocks in the inode and directory tables; lz4
    many = ["dir /m 0755 0 0"]
    for i in range(700 if ctx.tier == "quick" else 2500):
        u = rnd.choice([0, 1, 2, 3, 1000 + i % 7])
        if i % 3 == 0:
            many.append("slink /m/l%04d 0777 %d 0 %s" % (i, u, "t" * rnd.randint(1, 120)))
        elif i % 3 == 1:
            many.append("nod /m/n%04d 0600 %d %d c %d %d" % (i, u, i % 5, i % 200, i % 13))
        else:
            many.append("dir /m/d%04d 0755 %d 0" % (i, u))
    inputs.append(pack_input(rnd, base, "gen-many-inodes-lz4", 8192, "lz4",
                             [("f", blob(rnd, 100, "text"))], many))
    # D: xattrs from an xattr file; zstd
    xa = ("# file: a.txt\nuser.mime=\"text/plain\"\nuser.k=0x%s\n\n# file: d1/rand\nuser.mime=\"application/x\"\n\n"
          "# file: d2\nsecurity.selinux=\"system_u:object_r:etc_t:s0\"\n" % bytes(rnd.getrandbits(8) for _ in range(20)).hex())
    inputs.append(pack_input(rnd, base, "gen-xattr-zstd-8k", 8192, "zstd", std_files(rnd, 8192), special[:2], xattrs=xa))
    # E: nothing but the root
    inputs.append(pack_input(rnd, base, "gen-empty-gzip", 4096, "gzip", [], []))
    # F: output file exists already and holds a complete older image (-f)
    inputs.append(pack_input(rnd, base, "gen-overwrite-existing-xz", 4096, "xz",
                             std_files(rnd, 4096)[:5], special[:3], preexisting=True))
    # G: no tail packing, lzma, files of exact block multiples
    inputs.append(pack_input(rnd, base, "gen-notail-lzma-4k", 4096, "lzma",
                             [("x", blob(rnd, 8192, "mixed")), ("y", blob(rnd, 4096 * 3 + 17, "mixed")),
                              ("z", blob(rnd, 4095, "rand"))], [], extra_args=["-T"]))
    # G2: many data blocks / fragments / metadata flushes: a long trace
    nfiles = 36 if ctx.tier == "quick" else 120
    inputs.append(pack_input(rnd, base, "gen-many-blocks-gzip-4k", 4096, "gzip",
                             [("b/f%03d" % i, blob(rnd, rnd.randint(1, 22000), rnd.choice(["mixed", "text", "rand"])))
                              for i in range(nfiles)],
                             # `link` is a real hard link (repo fix F05): its target must exist in this input
                             special[:5] + ["link /hard 0644 0 0 /b/f000"]))
    # H: tar2sqfs with xattrs, hard link, symlink, fifo; zstd
    mem = [dict(name="dir", type="dir"),
           dict(name="dir/file1", data=blob(rnd, 9000, "mixed"), xattrs={"user.a": "1", "user.bb": "x" * 40}, uid=1000, gid=100),
           dict(name="dir/file2", data=blob(rnd, 700, "text"), mtime=1234567890),
           dict(name="dir/same", data=b"", xattrs={"user.a": "1"}),
           dict(name="dir/hl", type="hard", target="dir/file1"),
           dict(name="dir/sl", type="sym", target="file2"),
           dict(name="fifo", type="fifo"),
           dict(name="big", data=blob(rnd, 4096 * 5 + 100, "rand"), uid=65534, gid=65534)]
    inputs.append(tar_input(rnd, base, "tar-xattr-zstd-4k", 4096, "zstd", mem))
    # I: tar2sqfs, several workers, lz4
    mem = [dict(name="f%02d" % i, data=blob(rnd, rnd.randint(1, 30000), rnd.choice(["mixed", "text", "rand"])),
                uid=rnd.choice([0, 1, 2])) for i in range(14)]
    mem.append(dict(name="dupe", data=mem[3]["data"]))
    inputs.append(tar_input(rnd, base, "tar-jobs4-lz4-8k", 8192, "lz4", mem, jobs=4))
    # J-N: the optional tables present / absent (fragment table x xattr tables x export table x compressor options).
    # Without a fragment table the only readers' tests between the super block and the listing are the id table's; an
    # input WITH xattrs and WITHOUT fragments is the one where a super block stored too early (before the xattr flush)
    # can make an incomplete file readable (seeded/C14-5).
    def nofrag_files(r, bs, n=2):
        # nothing that ends up in a fragment: empty files and exact multiples of the block size
        return [("nf/blk%d" % i, blob(r, bs * (1 + i % 2), "mixed")) for i in range(n)] + [("nf/empty", b"")]

    xa_nf = ("# file: nf\nsecurity.selinux=\"system_u:object_r:etc_t:s0\"\n\n# file: nf/blk0\nuser.mime=\"application/x\"\n"
             "user.sum=0x%s\n\n# file: dev_null\nuser.comment=\"a device\"\n" % bytes(rnd.getrandbits(8) for _ in range(8)).hex())
    inputs.append(pack_input(rnd, base, "gen-xattr-nofrag-gzip-4k", 4096, "gzip", nofrag_files(rnd, 4096), special[:3], xattrs=xa_nf))
    inputs.append(pack_input(rnd, base, "gen-bare-nofrag-noxattr-gzip", 4096, "gzip", nofrag_files(rnd, 4096, 1), special[:4]))
    inputs.append(pack_input(rnd, base, "gen-exportonly-nofrag-lz4", 4096, "lz4", [], special[:5], extra_args=["-e"]))
    inputs.append(pack_input(rnd, base, "gen-xattr-export-nofrag-xz", 8192, "xz", nofrag_files(rnd, 8192, 1), special[:2],
                             extra_args=["-e"], xattrs=xa_nf))
    mem = [dict(name="nf", type="dir", xattrs={"user.d": "dir"}),
           dict(name="nf/blk", data=blob(rnd, 4096 * 2, "mixed"), xattrs={"user.a": "1", "security.selinux": "ctx"}),
           dict(name="nf/empty", data=b"", xattrs={"user.a": "1"}),
           dict(name="nf/sl", type="sym", target="blk"),
           dict(name="fifo", type="fifo", xattrs={"user.f": "x" * 30})]
    inputs.append(tar_input(rnd, base, "tar-xattr-nofrag-zstd-4k", 4096, "zstd", mem))
    # O: tar2sqfs with an export table (the last optional table sqfs_writer_finish writes), with and without fragments
    r4 = random.Random(ctx.seed * 613 + 11)
    mem = [dict(name="e", type="dir"), dict(name="e/blk", data=blob(r4, 4096, "mixed")),
           dict(name="e/tail", data=blob(r4, 300, "text"), uid=7), dict(name="e/sl", type="sym", target="blk")]
    inputs.append(tar_input(r4, base, "tar-export-gzip-4k", 4096, "gzip", mem, extra_args=["-e"]))
    # P-T: every way the block writer ROLLS BACK with truncate (deduplicate_blocks: a file whose blocks all exist already is
    # written, found equal and cut off again).  What is cut off must be MORE than everything written afterwards (incompressible
    # multi-block duplicates, little or nothing behind them), otherwise a shrink the descriptor only notes but does not perform
    # (seeded/C14-8) is papered over by the later writes: roll-back of the LAST file, of a MIDDLE file, SEVERAL roll-backs
    # (incl. a one-block duplicate and a duplicate of a duplicate), with a fragment behind it, and the same through tar2sqfs.
    r5 = random.Random(ctx.seed * 7789 + 5)
    nb = r5.choice([2, 3, 4])
    big5 = blob(r5, 4096 * nb, "rand")
    one5 = blob(r5, 4096, "rand")
    inputs.append(pack_input(r5, base, "gen-rollback-last-gzip-4k", 4096, "gzip", [("r/a", big5), ("r/b", big5)], []))
    inputs.append(pack_input(r5, base, "gen-rollback-middle-lz4-4k", 4096, "lz4",
                             [("r/a", big5), ("r/b", big5), ("r/c", blob(r5, 4096, "text")), ("r/d", blob(r5, 200, "text"))], special[:1]))
    inputs.append(pack_input(r5, base, "gen-rollback-several-zstd-4k", 4096, "zstd",
                             [("r/a", big5), ("r/b", one5), ("r/c", big5), ("r/d", one5), ("r/e", blob(r5, 4096, "zero")),
                              ("r/f", big5 + one5), ("r/g", big5 + one5)], [], extra_args=["-T"]))
    mem = [dict(name="r", type="dir"), dict(name="r/a", data=big5 + one5), dict(name="r/t", data=blob(r5, 90, "text")),
           dict(name="r/b", data=big5 + one5, uid=3), dict(name="r/c", data=one5), dict(name="r/d", data=one5)]
    inputs.append(tar_input(r5, base, "tar-rollback-gzip-4k", 4096, "gzip", mem))
    if ctx.tier == "thorough":
        for c in range(12):
            r6 = random.Random(ctx.seed * 4241 + c)
            bs6 = r6.choice([4096, 8192, 32768])
            comp = COMPRESSORS[c % 5]
            pool = [blob(r6, bs6 * r6.randint(1, 4) + r6.choice([0, 0, r6.randint(1, bs6 - 1)]), "rand") for _ in range(3)]
            seq = [r6.choice(pool) for _ in range(r6.randint(2, 7))]
            if c % 2 == 0:
                inputs.append(pack_input(r6, base, "gen-rollback-r%02d-%s" % (c, comp), bs6, comp,
                                         [("r/f%02d" % j, d) for j, d in enumerate(seq)], special[:r6.randint(0, 3)],
                                         extra_args=r6.choice([[], ["-T"], ["-e"]])))
            else:
                inputs.append(tar_input(r6, base, "tar-rollback-r%02d-%s" % (c, comp), bs6, comp,
                                        [dict(name="f%02d" % j, data=d) for j, d in enumerate(seq)], jobs=r6.choice([1, 3])))
    if ctx.tier == "thorough":
        # all 16 combinations of the optional sections, gensquashfs, rotating compressors
        for c in range(16):
            frag, xat, exp, opt = c & 1, c & 2, c & 4, c & 8
            r3 = random.Random(ctx.seed * 97 + c)
            comp = ["lz4", "xz"][c % 2] if opt else ["gzip", "zstd", "lzma"][c % 3]
            files = nofrag_files(r3, 4096, 1) + ([("fr/tail", blob(r3, 700, "text"))] if frag else [])
            ea = (["-e"] if exp else []) + (["-X", "dictsize=8192"] if (opt and comp == "xz") else [])
            inputs.append(pack_input(r3, base, "gen-opt%02d-%s" % (c, comp), 4096, comp, files, special[:3], extra_args=ea,
                                     xattrs=(xa_nf if xat else None)))
    if ctx.tier == "thorough":
        # every compressor x several block sizes x both tools, random trees
        for i in range(120):
            comp = COMPRESSORS[i % 5]
            bs = [4096, 8192, 32768, 131072][(i // 5) % 4]
            r2 = random.Random(ctx.seed * 31 + i)
            if i % 2 == 0:
                files = std_files(r2, bs)
                r2.shuffle(files)
                files = files[:r2.randint(2, len(files))]
                ea = r2.choice([[], ["-e"], ["-T"], ["-e", "-T"], ["-B", "1024"], ["-B", "65536"]])
                inputs.append(pack_input(r2, base, "gen-r%03d-%s-%d" % (i, comp, bs), bs, comp, files,
                                         r2.sample(special[:5], r2.randint(0, 5)), extra_args=ea,
                                         preexisting=(i % 8 == 0)))
            else:
                mem = [dict(name="t%02d" % j, data=blob(r2, r2.randint(0, 3 * bs), r2.choice(["mixed", "text", "rand", "zero"])),
                            uid=r2.choice([0, 5, 70000]), xattrs=({"user.x": "v%d" % j} if r2.random() < 0.3 else None))
                       for j in range(r2.randint(1, 9))]
                ea = r2.choice([[], ["-e"], ["-x"], ["-k"], ["-T"]])
                inputs.append(tar_input(r2, base, "tar-r%03d-%s-%d" % (i, comp, bs), bs, comp, mem, extra_args=ea,
                                        jobs=r2.choice([1, 1, 3])))
    return inputs


# ----------------------------------------------------------------------------------------------
# running packers and readers
# ----------------------------------------------------------------------------------------------

def run_packer(info, shim, inp, out, log=None, kill=None, timeout=120, sizes=None):
    env = dict(os.environ, LD_PRELOAD=shim, C14_OUT=out)
    env.pop("SOURCE_DATE_EPOCH", None)
    if log:
        env["C14_LOG"] = log
    if sizes:
        env["C14_SIZES"] = sizes
    if kill is not None:
        env["C14_KILL"] = str(kill)
    try:
        r = subprocess.run([info["tools"][inp.tool]] + inp.args + [out], input=inp.stdin or b"",
                           stdout=subprocess.DEVNULL, stderr=subprocess.PIPE, env=env, timeout=timeout)
        return r.returncode, r.stderr.decode("utf-8", "replace")[-400:]
    except subprocess.TimeoutExpired:
        return 124, "timeout"


def run_reader(info, which, img, timeout=60):
    if which == "rd-l":
        cmd = [info["tools"]["rdsquashfs"], "-l", "/", img]
    elif which == "rd-d":
        cmd = [info["tools"]["rdsquashfs"], "-d", img]
    else:
        cmd = [info["tools"]["sqfs2tar"], img]
    try:
        r = subprocess.run(cmd, stdout=subprocess.PIPE, stderr=subprocess.DEVNULL, timeout=timeout)
        return r.returncode, hashlib.sha256(r.stdout).hexdigest(), len(r.stdout)
    except subprocess.TimeoutExpired:
        return 124, "timeout", 0


def md5_file(p):
    try:
        b = open(p, "rb").read()
    except OSError:
        return None, -1
    return hashlib.md5(b).hexdigest(), len(b)


def image_identity(p):
    """(the 96 super block bytes, md5 of the bytes [0, bytes_used)) of the file `p`: what makes it *the* image.
    None components when the file is shorter than a super block / than its own bytes_used."""
    try:
        b = open(p, "rb").read()
    except OSError:
        return None, None
    if len(b) < 96:
        return None, None
    sb = b[:96]
    used = int.from_bytes(sb[40:48], "little")
    return sb.hex(), (hashlib.md5(b[:used]).hexdigest() if used <= len(b) else None)


def decode_super(hexsb):
    b = bytes.fromhex(hexsb)
    return {n: int.from_bytes(b[o:o + w], "little") for n, o, w in FIELDS}


def super_diff(a, b):
    """differing super block fields, 'name: leftover -> complete'"""
    if a is None or b is None:
        return ["no super block"]
    da, db = decode_super(a), decode_super(b)
    return ["%s: %#x, complete image %#x" % (n, da[n], db[n]) for n, _, _ in FIELDS if da[n] != db[n]]


class Full:
    pass


def whole_file_relation(left, final):
    """How the WHOLE file left behind (length included) relates to the file of the uninterrupted run.  The complete image
    is the whole output file; the only thing that may still be missing from an accepted left-over is (part of) the zero
    padding behind bytes_used (written after the commit, no reader looks at it).  So an accepted left-over must be a prefix
    of the final file that contains all of [0, bytes_used) - a LONGER file, or bytes behind bytes_used that are not the
    final file's, is not the complete image.  Returns None if so, else a description."""
    if left is None:
        return "no file"
    if len(final) < 96:
        return None
    used = int.from_bytes(final[40:48], "little")
    if len(left) > len(final):
        n = len(final)
        tail = left[n:]
        return ("the file is %d bytes long, the complete image %d: %d bytes follow the end of the image (%s)"
                % (len(left), n, len(tail), "all zero" if not any(tail) else "%d of them non-zero: stale data" % sum(1 for x in tail if x)))
    if left != final[:len(left)]:
        i = next(j for j in range(len(left)) if left[j] != final[j])
        return "byte %d of the file (length %d; bytes_used %d, complete file %d bytes) differs from the complete image" % (i, len(left), used, len(final))
    if len(left) < used:
        return "the file is %d bytes long, shorter than bytes_used = %d" % (len(left), used)
    return None


def logged_calls(f):
    """the output calls of the uninterrupted run as the shim logged them: [("W", off, len) | ("T", n, 0) | ("X", 0, 0)] or None"""
    calls = []
    try:
        for ln in open(f.log):
            p = ln.split(" ")
            if p[0] == "W":
                calls.append(("W", int(p[1]), int(p[2])))
            elif p[0] == "T":
                calls.append(("T", int(p[1]), 0))
            else:
                calls.append(("X", 0, 0))
    except (OSError, ValueError, IndexError):
        return None
    return calls


def desc_length_tie(f, calls, mod):
    """io/file.c's descriptor (coq/C14/FileLenModel.v, theorem truncate_is_physical): the cached logical size IS the
    physical length after every call.  Observed on the uninterrupted run, against the EXTRACTED descriptor model run on the
    logged calls (`mod`: fd_step Physical from fd0, props/C14/file_driver.ml; one driver process for all runs): (1) the
    physical length the shim fstat()s after call k equals flen (fd_file) of the model after call k (and, as before, the
    length of the extracted apply (firstn (k+1) trace), K lines of the trace driver); (2) every writer of the library
    writes at get_size() (the logical size), so every write except the two super block writes at offset 0 starts at the
    model's fd_size before the call, which is the end of the model's file (extracted appendsb of the step): a write that
    starts inside the file means the real logical size had fallen behind... or ahead of the physical one.
    Returns a list of problems."""
    probs = []
    m = f.model
    if m is None or not f.phys:
        return ["no size log"] if f.rc == 0 else []
    if len(f.phys) != m["n"]:
        probs.append("size log has %d entries for %d calls" % (len(f.phys), m["n"]))
        return probs
    if calls is None:
        return ["unreadable call log"]
    if mod is None or len(mod["steps"]) != len(calls):
        return ["no line of the extracted descriptor model (props/C14/file_driver.ml) for this run's %d calls" % len(calls)]
    for k, phys in enumerate(f.phys):
        mk = m["ks"].get(k + 1)
        if mk is not None and mk["size"] != phys and len(probs) < 3:
            probs.append("after call %d the file is %d bytes long (fstat), the model's file %d" % (k, phys, mk["size"]))
        if k >= len(calls):
            continue
        msize, mlen, _ok, app = mod["steps"][k]
        if mlen != phys and len(probs) < 3:
            probs.append("after call %d the file is %d bytes long (fstat), the descriptor model's file %d (its get_size() %d)"
                         % (k, phys, mlen, msize))
        if calls[k][0] == "W" and calls[k][1] != 0 and calls[k][2] > 0:
            before = mod["steps"][k - 1][0] if k > 0 else 0
            if (calls[k][1] != before or not app) and len(probs) < 3:
                probs.append("call %d writes %d bytes at offset %d = get_size() while the model's descriptor has size %d and the "
                             "file is physically %d bytes long: logical and physical length differ"
                             % (k, calls[k][2], calls[k][1], before, f.phys[k - 1] if k > 0 else 0))
    return probs


def full_run(ctx, info, shim, drv, inp, base, fdrv=None, mp=None):
    """uninterrupted run under the logging shim + model evaluation of the trace"""
    d = os.path.join(base, inp.name)
    os.makedirs(d, exist_ok=True)
    f = Full()
    f.inp = inp
    f.dir = d
    f.old = None
    if inp.preexisting:
        # an older, different, complete image at the output path
        old = os.path.join(d, "old.sqfs")
        pf = os.path.join(d, "old.txt")
        open(pf, "w").write("dir /olddir 0755 0 0\nslink /olddir/x 0777 0 0 y\n")
        subprocess.run([info["tools"]["gensquashfs"], "-q", "-F", pf, old], stdout=subprocess.DEVNULL,
                       stderr=subprocess.DEVNULL)
        f.old = old
    f.img = os.path.join(d, "full.sqfs")
    f.log = os.path.join(d, "full.log")
    f.sizelog = os.path.join(d, "full.sizes")
    for p in (f.img, f.log, f.sizelog):
        if os.path.exists(p):
            os.remove(p)
    if f.old:
        shutil.copy(f.old, f.img)
    f.rc, f.err = run_packer(info, shim, inp, f.img, log=f.log, sizes=f.sizelog)
    f.final_bytes = b""
    f.phys = []
    f.refs = {}
    f.n = 0
    f.model = None
    f.calls = None
    f.desc_idx = None
    if f.rc != 0:
        return f
    # the logged calls go to the (one) process of the extracted descriptor model right away: it works on them while the
    # trace driver below and the other runs are busy
    f.calls = logged_calls(f)
    if mp is not None and f.calls is not None:
        f.desc_idx = mp.submit(desc_stage.trace_line(f.calls))
    for w in READERS:
        f.refs[w] = run_reader(info, w, f.img)
    try:
        r = subprocess.run([drv, "trace", f.log], stdout=subprocess.PIPE, stderr=subprocess.PIPE, preexec_fn=big_stack,
                           timeout=600)
        f.model_rc = r.returncode
        lines = r.stdout.decode().split("\n")
    except subprocess.TimeoutExpired:
        f.model_rc = 124
        lines = []
    head = dict(x.split("=", 1) for x in lines[0].split(" ")[1:]) if lines and lines[0].startswith("TRACE") else {}
    f.model = dict(ok=head.get("ok") == "1", commit=int(head.get("commit", -1)), n=int(head.get("n", 0)),
                   odd=head.get("odd", "?"), size=int(head.get("size", "0"), 16), short=int(head.get("short", 0)), ks={})
    for ln in lines[1:]:
        p = ln.split(" ")
        if len(p) == 6 and p[0] == "K":
            f.model["ks"][int(p[1])] = dict(accepts=p[2] == "1", size=int(p[3], 16), md5=p[4], image_md5=p[5])
    f.n = f.model["n"]
    f.final_md5, f.final_size = md5_file(f.img)
    f.final_super, f.final_body = image_identity(f.img)
    try:
        f.final_bytes = open(f.img, "rb").read()
        f.phys = [int(x) for x in open(f.sizelog).read().split()]
    except (OSError, ValueError):
        pass
    f.desc = None          # filled in by run(): one process of the extracted descriptor model for all runs
    # the logged calls as a refinement of the section-level trace recomputed from the image (coq/C14/SectionModel.v)
    f.fine = fine_stage.real_check(fdrv, f.log, f.img, preexec=big_stack) if fdrv else None
    return f


def kill_point(info, shim, f, k):
    """kill the packer right before its k-th output call (k calls completed); k == n: run to the end"""
    out = os.path.join(f.dir, "kill.%d.sqfs" % k)
    if os.path.exists(out):
        os.remove(out)
    if f.old:
        shutil.copy(f.old, out)
    rc, err = run_packer(info, shim, f.inp, out, kill=(k if k < f.n else None))
    md5, size = md5_file(out)
    res = dict(k=k, rc=rc, md5=md5, size=size, readers={})
    try:
        res["whole"] = whole_file_relation(open(out, "rb").read() if md5 is not None else None, f.final_bytes)
    except OSError:
        res["whole"] = "no file"
    res["super"], res["body"] = image_identity(out)
    for w in READERS:
        res["readers"][w] = run_reader(info, w, out) if md5 is not None else (1, "nofile", 0)
    if f.old and md5 is not None:
        res["is_old"] = (open(out, "rb").read() == open(f.old, "rb").read())
    try:
        os.remove(out)
    except OSError:
        pass
    return res


# ----------------------------------------------------------------------------------------------
# the check
# ----------------------------------------------------------------------------------------------

def run(ctx):
    info, h, shim, drv = build_all()
    hf, fdrv, fine_err = build_fine(info)
    ctx.log("implementation, harnesses, shim and both model drivers built")
    ctx.trusted += [
        "props/C14/fine_driver.ml (log / image / model-input parsing, search for the segment lengths handed to the extracted "
        "trace_refinesb as an untrusted certificate), props/C14/h_fine.c (= props/C03/h_image.c writing to a path the shim "
        "watches; real sqfs_writer_init / block processor / sqfs_writer_finish, toy compressor through -Wl,--wrap), "
        "props/C14/fine_stage.py",
        "props/C14/h_super.c, props/C14/driver.ml (hex I/O glue, md5 of the model's file)",
        "props/C14/h_file.c, props/C14/file_driver.ml (call-sequence parsing, byte pattern, printing, hash of the model's file around "
        "the extracted fd_step Physical / fop_ok / appendsb / fd_close of coq/Extract/ExtractC14File.v), props/C14/desc_stage.py "
        "(generation, comparison, the one streaming driver process)",
        "props/C14/shim_io.c: LD_PRELOAD wrapper of pwrite/pwrite64/write/ftruncate/ftruncate64 (+ recording of "
        "writev/pwritev/fallocate/copy_file_range) on the output file; the logged calls are taken to be all output calls",
        "the model of POSIX pwrite/ftruncate on a regular file (TraceModel.apply_ev), re-checked at every kill point "
        "against the file the kernel really left behind",
        "model `accepts` = what rdsquashfs/sqfs2tar do first (sqfs_super_read, sqfs_id_table_read guard); "
        "accepts = false => the reader exits non-zero; tied by verdict comparison and re-observed at every kill point",
    ]
    ctx.assumptions += [
        "crash granularity = between two output system calls (the property's quantifier); torn single writes, "
        "kernel write-back reordering, power loss are outside the model",
        "output is a regular file opened O_TRUNC or O_EXCL (lib/sqfs/src/io/unix.c): the file is empty before the first output call",
        "packer runs with a deterministic output-call sequence for a given input (checked: the file left by the killed run "
        "equals the model's apply of the uninterrupted run's trace prefix)",
    ]

    replay = json.load(open(ctx.replay)) if ctx.replay else None
    if replay:
        # inputs are regenerated from (seed, tier): use the ones the replay was recorded with
        ctx.seed = int(replay.get("seed", ctx.seed))
        ctx.tier = replay.get("tier", ctx.tier)

    # ---- system-call level model vs the library (harness, toy compressor): started now, evaluated below ----
    fine_cases = []
    if hf and fdrv:
        if replay and replay.get("kind") == "fine-harness":
            fine_cases = [("replay", l) for l in replay.get("lines", [])]
        elif not replay:
            fine_cases = fine_stage.gen_cases(ctx.seed, ctx.tier)
    fine_pool = ThreadPoolExecutor(max_workers=1)
    fine_future = fine_pool.submit(fine_stage.harness_tie, ctx.scratch, shim, hf, fdrv, fine_cases, big_stack) if fine_cases else None

    # ---- tie (a) ----
    if replay and replay.get("kind") == "component":
        cases = [(l[0], bool(l[1])) if isinstance(l, list) else (l, False) for l in replay.get("lines", [])]
    elif replay:
        cases = []
    else:
        cases = gen_component_cases(ctx)
    if replay and replay.get("kind") in ("fine-harness", "desc-harness"):
        cases = []
    comp_bad, comp_stats = [], {}
    if cases:
        comp_bad, comp_stats, outs = component_tie(ctx, h, drv, cases)
        ctx.add_samples([dict(case=cases[i][0][:120], impl=(outs[0][i] if i < len(outs[0]) else "<missing>")[:160],
                              model=(outs[1][i] if i < len(outs[1]) else "<missing>")[:160])
                         for i in (0, len(cases) // 2)])
    ctx.log("component tie: %d cases, %d disagreements, %s" % (len(cases), len(comp_bad), comp_stats))

    # ---- descriptor leg: io/file.c write_at / truncate / get_size / drop vs FileLenModel (logical = physical length) ----
    hd, filedrv, desc_err = build_desc(info)
    if replay and replay.get("kind") == "desc-harness":
        desc_cases = list(replay.get("lines", []))
    elif replay:
        desc_cases = []
    else:
        desc_cases = desc_stage.gen_cases(ctx.seed, ctx.tier)
    desc_hbad, desc_hstat = [], {}
    desc_hlines, desc_herr = [], None
    if not hd:
        desc_cases = []
    # the extracted FileLenModel (fd_step Physical ...) on the harness cases and on the logged calls of every real run: ONE process
    t_desc = time.time()
    mp = desc_stage.ModelProc(filedrv, preexec=big_stack)
    for c in desc_cases:
        mp.submit(c)
    if desc_cases:
        desc_hlines, desc_herr = desc_stage.run_harness(hd, os.path.join(ctx.scratch, "h_file.tmp"), desc_cases)

    # ---- tie (b) + search ----
    base = os.path.join(ctx.scratch, "sweep")
    os.makedirs(base, exist_ok=True)
    if replay and replay.get("kind") in ("component", "fine-harness", "desc-harness"):
        inputs = []
    else:
        inputs = make_inputs(ctx, base)
        if replay and replay.get("input"):
            inputs = [i for i in inputs if i.name == replay["input"]]
    fulls = []
    with ThreadPoolExecutor(max_workers=8) as ex:
        fulls = list(ex.map(lambda i: full_run(ctx, info, shim, drv, i, base, fdrv, mp), inputs))
    desc_models, desc_merr = mp.finish()
    ctx.log("extracted descriptor model: %d harness + %d tool call sequences in one process, done %.1f s after its start"
            % (len(desc_cases), sum(1 for f in fulls if f.desc_idx is not None), time.time() - t_desc))
    if desc_cases:
        desc_hbad, desc_hstat = desc_stage.compare(desc_cases, desc_hlines, desc_herr, desc_models[:len(desc_cases)], desc_merr)
    ctx.log("descriptor harness: %s, %d disagreements" % (desc_hstat, len(desc_hbad)))
    for f in fulls:
        f.desc = desc_length_tie(f, f.calls, desc_models[f.desc_idx] if f.desc_idx is not None else None)
    jobs = []
    shape_bad, apply_bad = [], []
    traces_ok = 0
    for f in fulls:
        if f.rc != 0 or f.model is None:
            ctx.violation("packer-failed:" + f.inp.name, "uninterrupted %s run failed under the logging shim (rc=%s): %s"
                          % (f.inp.tool, f.rc, f.err), dict(kind="kill", input=f.inp.name, recipe=f.inp.recipe), no_input=True)
            continue
        m = f.model
        if f.model_rc != 0:
            ctx.violation("machinery-error", "model driver failed on the trace of input %s (rc=%d)" % (f.inp.name, f.model_rc),
                          dict(kind="kill", input=f.inp.name, recipe=f.inp.recipe), no_input=True)
        if not m["ok"] or m["odd"] != "-":
            shape_bad.append(f)
        else:
            traces_ok += 1
        if m["ks"].get(m["n"], {}).get("md5") != f.final_md5:
            apply_bad.append((f, m["n"], "final file of the uninterrupted run: md5 %s size %d, model apply of its trace: %s size %d"
                              % (f.final_md5, f.final_size, m["ks"].get(m["n"], {}).get("md5"), m["ks"].get(m["n"], {}).get("size", -1))))
        ks = range(0, f.n + 1)
        if replay and "k" in replay:
            ks = [replay["k"]]
        for k in ks:
            jobs.append((f, k))
    ctx.log("%d inputs, %d output calls in total, %d kill points; trace_okb true on %d traces"
            % (len(fulls), sum(f.n for f in fulls), len(jobs), traces_ok))
    with ThreadPoolExecutor(max_workers=16) as ex:
        results = list(ex.map(lambda j: (j[0], kill_point(info, shim, j[0], j[1])), jobs))

    concrete = 0
    reported = set()
    verdict_bad = []
    stat = dict(violating=0, accepted_different_image=0, kill_points=0, rejected_by_all=0, complete=0, old_image_intact=0, before_commit=0, after_commit=0,
                model_accepts_reader_rejects=0, unpadded_accepted=0, unpadded_points=0)
    per_input = {}
    for f, res in results:
        k, m = res["k"], f.model
        mk = m["ks"].get(k)
        stat["kill_points"] += 1
        pi = per_input.setdefault(f.inp.name, dict(calls=f.n, commit=m["commit"], trace_ok=m["ok"], rejected=0, complete=0))
        before = k <= m["commit"]
        stat["before_commit" if before else "after_commit"] += 1
        # apply tie: the model's file after k calls is the file the kernel left behind
        if mk is None or mk["md5"] != res["md5"]:
            apply_bad.append((f, k, "killed before call %d: file left behind md5 %s size %d, model %s"
                              % (k, res["md5"], res["size"], mk)))
        all_rej = True
        violating = False
        # "either rejected by every reader or form the complete, correct image": an accepted file must BE the complete image -
        # the same super block (every field: flags, table starts, bytes_used, ...) and the same bytes [0, bytes_used).  What the
        # readers print is not enough: a table no reader prints (export table) or a flag may still be missing.
        same_image = (res.get("super") is not None and res["super"] == f.final_super and res.get("body") is not None
                      and res["body"] == f.final_body)
        for w in READERS:
            rc, sha, ln = res["readers"][w]
            ref = f.refs[w]
            if rc == 0 and ref[0] == 0 and sha == ref[1]:
                all_rej = False
                if same_image and res.get("whole") and not res.get("is_old"):
                    # same super block and same bytes [0, bytes_used) - but the FILE is not the complete image (length
                    # included): bytes behind bytes_used that the complete image does not have (seeded/C14-8: a shrink
                    # that is only applied when the file is closed leaves cut-off data blocks behind the image)
                    violating = True
                    concrete += 1
                    stat["accepted_different_file"] = stat.get("accepted_different_file", 0) + 1
                    sig = "crash-window:%s:accepted-different-file" % f.inp.tool
                    if sig not in reported:
                        reported.add(sig)
                        ctx.violation(sig, "%s killed right before output call %d of %d (commit is call %d) on input %s: %s accepts the "
                                      "file left behind and prints what it prints for the complete image, super block and bytes "
                                      "[0, bytes_used) are the complete image's, but the file is not the complete image: %s" % (
                                          f.inp.tool, k, f.n, m["commit"], f.inp.name,
                                          {"rd-l": "rdsquashfs -l /", "rd-d": "rdsquashfs -d", "s2t": "sqfs2tar"}[w], res["whole"]),
                                      dict(kind="kill", input=f.inp.name, k=k, reader=w, recipe=f.inp.recipe, tool=f.inp.tool,
                                           args=f.inp.args, reader_rc=rc, leftover_size=res["size"], complete_size=f.final_size,
                                           bytes_used=decode_super(f.final_super)["bytes_used"] if f.final_super else None,
                                           whole_file=res["whole"], model_accepts=(mk or {}).get("accepts")))
                if not same_image and not res.get("is_old"):
                    violating = True
                    concrete += 1
                    stat["accepted_different_image"] = stat.get("accepted_different_image", 0) + 1
                    sd = super_diff(res.get("super"), f.final_super)
                    sig = "crash-window:%s:accepted-different-image" % f.inp.tool
                    if sig not in reported:
                        reported.add(sig)
                        ctx.violation(sig, "%s killed right before output call %d of %d (commit is call %d) on input %s: %s accepts the "
                                      "file left behind (%d bytes) and prints what it prints for the complete image, but the file is not "
                                      "the complete image: %s" % (
                                          f.inp.tool, k, f.n, m["commit"], f.inp.name,
                                          {"rd-l": "rdsquashfs -l /", "rd-d": "rdsquashfs -d", "s2t": "sqfs2tar"}[w], res["size"],
                                          ("super block differs (" + "; ".join(sd) + ")") if sd else
                                          "same super block, bytes [0, bytes_used) differ"),
                                      dict(kind="kill", input=f.inp.name, k=k, reader=w, recipe=f.inp.recipe, tool=f.inp.tool,
                                           args=f.inp.args, reader_rc=rc, super_leftover=decode_super(res["super"]) if res.get("super") else None,
                                           super_complete=decode_super(f.final_super) if f.final_super else None, super_diff=sd,
                                           body_md5_leftover=res.get("body"), body_md5_complete=f.final_body,
                                           model_accepts=(mk or {}).get("accepts")))
                continue
            if rc != 0 and rc != 124 and rc > 0:
                continue                                  # refused with an error
            if res.get("is_old"):
                all_rej = False
                continue                                  # packer had not touched the older image yet
            all_rej = False
            violating = True
            concrete += 1
            what = ("%s killed right before output call %d of %d (commit is call %d) on input %s: %s %s on the file left behind "
                    "(%d bytes)" % (f.inp.tool, k, f.n, m["commit"], f.inp.name,
                                    {"rd-l": "rdsquashfs -l /", "rd-d": "rdsquashfs -d", "s2t": "sqfs2tar"}[w],
                                    "exits 0 with output that differs from the complete image's" if rc == 0 else
                                    ("hangs" if rc == 124 else "dies with signal %d" % -rc), res["size"]))
            sig = "crash-window:%s:%s" % (f.inp.tool, "accepted-incomplete" if rc == 0 else "reader-died")
            if sig not in reported:                       # results are ordered by input, then k: first k wins
                reported.add(sig)
                ctx.violation(sig, what, dict(kind="kill", input=f.inp.name, k=k, reader=w, recipe=f.inp.recipe,
                                              tool=f.inp.tool, args=f.inp.args, reader_rc=rc,
                                              model_accepts=(mk or {}).get("accepts")))
        if violating:
            stat["violating"] += 1
        elif res.get("is_old"):
            stat["old_image_intact"] += 1
        elif all_rej:
            stat["rejected_by_all"] += 1
            pi["rejected"] += 1
        else:
            stat["complete"] += 1
            pi["complete"] += 1
        # verdict tie: model accepts = false  =>  every reader exits non-zero
        if mk is not None and not mk["accepts"] and not all_rej and not res.get("is_old"):
            verdict_bad.append((f, k))
        if mk is not None and mk["accepts"] and all_rej:
            stat["model_accepts_reader_rejects"] += 1
        if not before and k < f.n:
            stat["unpadded_points"] += 1
            if not all_rej:
                stat["unpadded_accepted"] += 1

    # ---- reporting of broken ties (only matter as "no failing input" if the sweep found nothing) ----
    for f in shape_bad[:3]:
        m = f.model
        ctx.violation("trace-shape:%s" % f.inp.tool,
                      "the output-call trace of a real %s run (input %s, %d calls) does not have the shape the theorems assume "
                      "(trace_okb = %s, calls the model has no event for: %s); kill sweep found %d concrete failures"
                      % (f.inp.tool, f.inp.name, f.n, m["ok"], m["odd"], concrete),
                      dict(kind="kill", input=f.inp.name, recipe=f.inp.recipe, args=f.inp.args,
                           correspondence="extracted trace_okb on the logged trace (hypothesis of crash_prefix_rejected / after_commit_complete)",
                           trace_head=open(f.log).read()[:3000] if os.path.exists(f.log) else ""), no_input=True)
    # ---- io/file.c descriptor: logical length = physical length after every call (truncate_is_physical) ----
    if desc_err:
        ctx.violation("desc-harness:build", "props/C14/h_file.c no longer builds against the current tree: %s" % desc_err[-500:],
                      dict(kind="desc-harness", detail=desc_err[-3000:]), no_input=True)
    seen_dh = set()
    for kind, why, line in desc_hbad:
        if kind in seen_dh:
            continue
        seen_dh.add(kind)
        ctx.violation("desc-harness:" + kind,
                      "the output descriptor of lib/sqfs/src/io/file.c does not behave like coq/C14/FileLenModel.v (fd_write / fd_trunc "
                      "Physical; theorem truncate_is_physical: after every call the file a kill leaves behind is as long as get_size() "
                      "says): %s; calls: %s; kill sweep found %d concrete failures" % (why, line[:300], concrete),
                      dict(kind="desc-harness", lines=[l for k2, _, l in desc_hbad if k2 == kind][:5], detail=why,
                           correspondence="props/C14/h_file.c (sqfs_file_open, write_at, truncate, get_size, stat after every call, "
                                          "sqfs_drop) vs the extracted FileLenModel (ExtractC14File.v, file_driver.ml)"), no_input=True)
    desc_bad = [f for f in fulls if f.rc == 0 and getattr(f, "desc", None)]
    stat["desc_length_runs_ok"] = sum(1 for f in fulls if f.rc == 0 and getattr(f, "desc", None) == [])
    stat["desc_length_calls"] = sum(len(f.phys) for f in fulls if f.rc == 0)
    seen_desc = set()
    for f in desc_bad:
        if f.inp.tool in seen_desc:
            continue
        seen_desc.add(f.inp.tool)
        ctx.violation("desc-length:%s" % f.inp.tool,
                      "the output descriptor of a real %s run (input %s, %d calls) does not behave like the model of io/file.c "
                      "(FileLenModel: logical size = physical length after every call, truncate_is_physical): %s; kill sweep found "
                      "%d concrete failures" % (f.inp.tool, f.inp.name, f.n, "; ".join(f.desc[:3]), concrete),
                      dict(kind="kill", input=f.inp.name, recipe=f.inp.recipe, args=f.inp.args, problems=f.desc[:3],
                           correspondence="fstat length after every call = flen (fd_file) of the extracted fd_step Physical on the "
                                          "logged calls = length of extracted apply (firstn (k+1) trace); every write_at(get_size()) "
                                          "starts at the model's fd_size = end of the model's file (extracted appendsb)"), no_input=True)
    # ---- system-call level: refinement of the section trace (real runs) and exact call sequence (harness) ----
    fine_stat = dict(real_runs=0, real_refine_ok=0, sections_exact=0, sections_predicted=0, data_calls=0, truncations=0,
                     harness_cases=0, harness_exact=0, harness_calls=0, harness_truncations=0, harness_refused=0)
    if fine_err:
        ctx.violation("fine-model-build-failed",
                      "the system-call level model (coq/C14/Fine*.v, SectionModel.v) or its harness no longer builds against the "
                      "current tree: %s; kill sweep found %d concrete failures" % (fine_err[-500:], concrete),
                      dict(kind="proof obligation / model build", detail=fine_err[-3000:]), no_input=True)
    fine_bad = []
    for f in fulls:
        d = getattr(f, "fine", None)
        if f.rc != 0 or d is None:
            continue
        fine_stat["real_runs"] += 1
        ex = (d.get("exact") or "0/0").split("/")
        fine_stat["sections_exact"] += int(ex[0]) if ex[0].isdigit() else 0
        fine_stat["sections_predicted"] += int(ex[1]) if len(ex) > 1 and ex[1].isdigit() else 0
        fine_stat["data_calls"] += int(d.get("data", 0) or 0)
        fine_stat["truncations"] += int(d.get("trunc", 0) or 0)
        if fine_stage.real_ok(d):
            fine_stat["real_refine_ok"] += 1
        else:
            fine_bad.append((f, d))
    for f, d in fine_bad[:2]:
        refines = d.get("refines") == "1" and d.get("okc") == "1"
        ctx.violation("%s:%s" % ("fine-calls" if refines else "trace-refine", f.inp.tool),
                      "the output calls of a real %s run (input %s, %d calls) %s: %s; kill sweep found %d concrete failures"
                      % (f.inp.tool, f.inp.name, f.n,
                         ("refine the section-level trace but the image's sections are not laid out as the model lays them out "
                          "(blocks followed by the location list that names their starts)" if d.get("wf") == "0" else
                          "refine the section-level trace but a section was not written with the calls the fine model predicts")
                         if refines else
                         "do not refine the section-level trace recomputed from the image (hypothesis of refinement_preserves_shape "
                         "/ writer_fine_trace_ok's conclusion does not hold of the run)",
                         {k: v for k, v in d.items() if k != "stderr"}, concrete),
                      dict(kind="kill", input=f.inp.name, recipe=f.inp.recipe, args=f.inp.args, fine=d,
                           correspondence="extracted trace_refinesb (logged calls) (coarse_of_image image) + predicted_calls",
                           trace_head=open(f.log).read()[:3000] if os.path.exists(f.log) else ""), no_input=True)
    if fine_future is not None:
        try:
            hres, herr = fine_future.result()
        except Exception as e:  # noqa: BLE001
            hres, herr = [], "harness stage raised %r" % (e,)
        if herr:
            ctx.violation("fine-harness:machinery", "system-call level harness tie could not run: %s" % herr,
                          dict(kind="fine-harness", lines=[l for _, l in fine_cases][:2], detail=herr), no_input=True)
        hbad = []
        for d in hres:
            fine_stat["harness_cases"] += 1
            fine_stat["harness_calls"] += d.get("calls", 0)
            fine_stat["harness_truncations"] += int(d.get("trunc", 0) or 0)
            if d.get("rc") != "0":
                fine_stat["harness_refused"] += 1
            if fine_stage.harness_ok(d):
                fine_stat["harness_exact"] += 1 if d.get("rc") == "0" else 0
            else:
                hbad.append(d)
        seen_h = set()
        for d in hbad:
            part = ("suffix" if d.get("suf") == "0" else "prefix" if d.get("pre") == "0" else
                    "data-keeps" if d.get("keeps") == "0" else "data-apply" if d.get("apply") == "0" else "rc")
            if part in seen_h:
                continue
            seen_h.add(part)
            ctx.violation("fine-harness:" + part,
                          "the call sequence of the library (sqfs_writer_init / block processor / sqfs_writer_finish, toy compressor, "
                          "case %s, %d calls) differs from the fine trace of the model (%s): %s; kill sweep found %d concrete failures"
                          % (d.get("label"), d.get("calls", 0), part, {k: v for k, v in d.items() if k not in ("line",)}, concrete),
                          dict(kind="fine-harness", lines=[d.get("line")], detail={k: v for k, v in d.items() if k != "line"},
                               correspondence="props/C14/h_fine.c under shim_io.c vs extracted write_image + fine_trace"),
                          no_input=True)
    fine_pool.shutdown(wait=True)
    ctx.log("fine traces: %s" % fine_stat)

    for f, k, why in apply_bad[:2]:
        ctx.violation("apply-tie:%s" % f.inp.tool,
                      "model of the output file disagrees with the file on disk (input %s): %s" % (f.inp.name, why),
                      dict(kind="kill", input=f.inp.name, k=k, recipe=f.inp.recipe,
                           correspondence="extracted apply (firstn k trace) = file left behind by the packer killed before call k"),
                      no_input=True)
    for f, k in verdict_bad[:2]:
        ctx.violation("accepts-tie:%s" % f.inp.tool,
                      "model says every reader refuses the file left at kill point %d of input %s, a reader did not" % (k, f.inp.name),
                      dict(kind="kill", input=f.inp.name, k=k, recipe=f.inp.recipe,
                           correspondence="accepts = false => rdsquashfs / sqfs2tar exit non-zero"), no_input=True)
    seen = set()
    tvs = dict(cases)
    for kind, why, line in comp_bad:
        if kind in seen:
            continue
        seen.add(kind)
        ctx.violation("tie-" + kind,
                      "correspondence model vs implementation broken (%s): %s; kill sweep over %d points found %d concrete failures"
                      % (kind, why, stat["kill_points"], concrete),
                      dict(kind="component", lines=[[l, tvs.get(l, False)] for k2, _, l in comp_bad if k2 == kind][:5], detail=why,
                           correspondence={"super-init": "super_init + encode = sqfs_super_init + sqfs_super_write (exact)",
                                           "super-read": "super_read = sqfs_super_read (error code and decoded fields)",
                                           "id-table-guard": "id_table_guard vs sqfs_id_table_read (verdict)",
                                           "harness-exit": "harness exit status"}.get(kind, kind)),
                      no_input=True)

    if not replay:
        for sig, what in call_sites(ctx):
            ctx.violation("callsite:" + sig, what + "; kill sweep found %d concrete failures" % concrete,
                          dict(kind="callsite", probe=sig, detail=what), no_input=True)

    short = sum(f.model.get("short", 0) for f in fulls if f.model)
    stat["short_writes_observed"] = short
    if short:
        ctx.notes.append("%d output writes returned a short count: the write loop of io/file.c issued more than one pwrite for "
                         "one write_at (each is its own crash point and its own trace event)" % short)

    # ---- thorough: independent re-check of the compiled proofs ----
    # (vlib.core.prepare_proofs already runs coqchk on Properties_C14 in the thorough tier; the closure contains the Image /
    #  Img / C01 / C03 developments since session 3 and takes a long time to re-check: do not run it twice)
    if ctx.tier == "thorough" and not replay:
        prev = ctx.coverage.get("coqchk")
        if isinstance(prev, dict) and "rc" in prev:
            okchk = prev["rc"] == 0
            ctx.coverage["coqchk_c14"] = "ok (run by prepare_proofs, %.0f s)" % prev.get("wall_s", 0) if okchk else "FAILED rc=%s" % prev["rc"]
        else:
            rc, out = core.sh(["timeout", "3000", "coqchk", "-silent", "-o", "-Q", ".", "SqfsV", "SqfsV.Properties_C14"], cwd=core.COQ)
            okchk = rc == 0 and "Axioms: <none>" in out
            ctx.coverage["coqchk"] = "ok, no axioms" if okchk else "FAILED rc=%d" % rc
            if not okchk:
                ctx.violation("coqchk", "coqchk does not accept Properties_C14.vo: " + out[-600:],
                              dict(kind="proof", detail=out[-3000:]), no_input=True)

    ctx.coverage["evaluations"] = len(cases) + stat["kill_points"]
    ctx.coverage["distinct_nontrivial"] = (comp_stats.get("init_ok", 0) + comp_stats.get("read_ok", 0) + stat["kill_points"])
    ctx.coverage["traces_validated_against_impl"] = traces_ok
    ctx.coverage["exhaustive"] = False
    ctx.coverage["rule"] = (
        "component: block sizes at every power of two 2^0..2^25 +-1 and sums of two powers, 2^32 wrap values, mtime/compressor "
        "boundaries incl. values beyond the field width; superblocks with every field at its test boundaries, the id_count x "
        "id_table_start x bytes_used grid, provisional superblocks with one lock opened at a time, short files 0..97 bytes, "
        "seeded random byte damage (seed %d). kill sweep: for each of %d real packer inputs (gensquashfs pack-file/xattr-file, "
        "tar2sqfs; 5 compressors; duplicates, sparse, fragments, xattrs, export table, many inodes, empty tree, pre-existing "
        "output, 4 workers) EVERY k in 0..n output calls; non-trivial = case reached past the refusing test / is a kill point. "
        "system-call level: on each of these runs the logged calls must refine (extracted trace_refinesb) the section trace "
        "recomputed from the image and write every predicted section with exactly the predicted calls; %d harness cases "
        "(toy compressors x block sizes x export / xattr / options, duplicates -> truncations, multi-block inode / directory / "
        "xattr tables, empty tree) compare the library's call sequence with the model's fine trace exactly"
        % (ctx.seed, len(fulls), fine_stat["harness_cases"]))
    ctx.coverage["distribution"] = dict(component=comp_stats, sweep=stat, inputs=per_input, fine=fine_stat, descriptor=desc_hstat)
    ctx.coverage["evaluations"] += desc_hstat.get("cases", 0)
    ctx.coverage["distinct_nontrivial"] += desc_hstat.get("cases", 0) - len(desc_hbad)
    ctx.coverage["evaluations"] += fine_stat["real_runs"] + fine_stat["harness_cases"]
    ctx.coverage["distinct_nontrivial"] += fine_stat["real_refine_ok"] + fine_stat["harness_exact"]
    ctx.notes.append("readers and a missing pad: at %d of %d kill points between the commit and the end of the padding write "
                     "all three readers decoded the complete tree (no reader of this code base tests the padding)"
                     % (stat["unpadded_accepted"], stat["unpadded_points"]))
    for f, res in results[:1] + results[len(results) // 2: len(results) // 2 + 2]:
        ctx.add_samples([dict(input=f.inp.name, k=res["k"], calls=f.n, commit=f.model["commit"], file_size=res["size"],
                              model_accepts=f.model["ks"].get(res["k"], {}).get("accepts"),
                              readers={w: res["readers"][w][0] for w in READERS})])
    ctx.log("sweep: %s" % stat)


def setup():
    info = build_all()[0]
    build_fine(info)
    build_desc(info)
