(* C14 fine-trace driver (extracted: C14.RefineModel / FineModel / SectionModel + Image.FinishModel).

   real <log> <image>
       the logged output calls of a real gensquashfs / tar2sqfs run (props/C14/shim_io.c) and the image it produced:
       coarse = coarse_of_image (first call) image       (the section-level trace write_image would emit)
       -> trace_okb coarse, trace_refinesb cuts calls coarse (the hypothesis of refinement_preserves_shape holds of
          the real run; the cuts are found here by file size and not trusted by the extracted check),
          and for every section whose calls the fine model predicts from the bytes (everything but the data area):
          the real segment must be exactly the predicted calls.
       one line:  REAL n=<calls> coarse=<events|none> okc=<0|1> wf=<sections well-formed 0|1> refines=<0|1> exact=<ok>/<predicted> data=<calls in the
                  data segment> trunc=<truncations> first=<first problem or ->

   harness      (stdin: one case per line  "<model input of h_fine.c> | <calls>"; calls in the shim's log format joined by ';')
       the working tree's sqfs_writer_init + block processor + sqfs_writer_finish driven by props/C14/h_fine.c with a toy
       compressor; model: write_image on the same input, fine_trace:
         prefix   [PWrite 0 (encode s0)] ++ ev_one 96 opts                       must equal the first real calls
         suffix   everything from the inode table on (blocks, location lists, commit, padding)   must equal the last
                  real calls exactly (offset and bytes)
         middle   the block writer's calls: each keeps 96, and applied to encode s0 ++ opts they give
                  encode s0 ++ opts ++ data       (hypotheses data_keeps / data_apply of writer_fine_trace_ok's core)
       one line:  H rc=<0|err|skip> n=<calls> pre=<0|1> suf=<0|1> keeps=<0|1> apply=<0|1> mid=<calls> trunc=<n> first=<..> *)
open C14_fine

let rec pos_of_int i = if i = 1 then XH else if i land 1 = 1 then XI (pos_of_int (i lsr 1)) else XO (pos_of_int (i lsr 1))
let n_of_int i = if i = 0 then N0 else Npos (pos_of_int i)
let rec int_of_pos = function XH -> 1 | XO p -> 2 * int_of_pos p | XI p -> 2 * int_of_pos p + 1
let int_of_n = function N0 -> 0 | Npos p -> int_of_pos p
let rec int_of_nat = function O -> 0 | S n -> 1 + int_of_nat n
let rec nat_of_int i = if i <= 0 then O else S (nat_of_int (i - 1))
let n10 = n_of_int 10
let n_of_string s =
  if String.length s <= 17 then n_of_int (int_of_string s)
  else begin
    let r = ref N0 in
    String.iter (fun c -> r := N.add (N.mul !r n10) (n_of_int (Char.code c - 48))) s;
    !r
  end
let int_of_z = function Z0 -> 0 | Zpos p -> int_of_pos p | Zneg p -> - (int_of_pos p)

let byte_tbl = Array.init 256 n_of_int
let hexv c = if c <= '9' then Char.code c - 48 else (Char.code c lor 32) - 87
let unhex s =
  if s = "-" then [] else begin
    let l = ref [] in
    for i = String.length s / 2 - 1 downto 0 do
      l := byte_tbl.(hexv s.[2*i] * 16 + hexv s.[2*i+1]) :: !l
    done;
    !l
  end
let list_of_string s =
  let l = ref [] in
  for i = String.length s - 1 downto 0 do l := byte_tbl.(Char.code s.[i]) :: !l done;
  !l
let nlist s = if s = "-" then [] else List.map n_of_string (String.split_on_char ',' s)
let split_ws s = List.filter (fun x -> x <> "") (String.split_on_char ' ' s)

(* ---- calls in the shim's log format ---- *)
let event_of_tokens toks odd =
  match toks with
  | ["W"; off; ret; req; h] ->
    let r = int_of_string ret in
    if r < 0 then (odd := ("failed-write:" ^ off) :: !odd; None)
    else begin
      if r <> int_of_string req then odd := ("short-write:" ^ off) :: !odd;
      Some (PWrite (n_of_int (int_of_string off), unhex h))
    end
  | ["T"; len; ret] ->
    if int_of_string ret <> 0 then (odd := ("failed-truncate:" ^ len) :: !odd; None)
    else Some (Truncate (n_of_int (int_of_string len)))
  | "X" :: name :: _ -> odd := ("unmodelled-call:" ^ name) :: !odd; None
  | [] -> None
  | _ -> odd := "unparsed" :: !odd; None

let read_log path =
  let ic = open_in path in
  let evs = ref [] and odd = ref [] in
  (try
     while true do
       match event_of_tokens (split_ws (input_line ic)) odd with
       | Some e -> evs := e :: !evs
       | None -> ()
     done
   with End_of_file -> close_in ic);
  (List.rev !evs, List.rev !odd)

let read_file path =
  let ic = open_in_bin path in
  let n = in_channel_length ic in
  let s = really_input_string ic n in
  close_in ic;
  s

let ev_str = function
  | PWrite (o, d) -> Printf.sprintf "W@%d+%d" (int_of_n o) (List.length d)
  | Truncate n -> Printf.sprintf "T@%d" (int_of_n n)

let rec take k l = if k <= 0 then [] else match l with [] -> [] | x :: r -> x :: take (k - 1) r
let rec drop k l = if k <= 0 then l else match l with [] -> [] | _ :: r -> drop (k - 1) r
let is_trunc = function Truncate _ -> true | _ -> false
let count_trunc l = List.length (List.filter is_trunc l)

(* sizes.(j) = file size after j events, starting from size0 *)
let sizes_after size0 evs =
  let a = Array.make (List.length evs + 1) size0 in
  List.iteri (fun i e -> a.(i + 1) <- size_ev a.(i) e) evs;
  a

(* cuts: for each coarse event (a write [off, off + len)) the LAST position (not before the previous cut) at which the
   file ends where the section ends; later sections only append, so the file never comes back to that size *)
let find_cuts size0 (fine : event list) (coarse : event list) : int list option =
  let sz = Array.map int_of_n (sizes_after size0 fine) in
  let n = Array.length sz - 1 in
  let rec go prev cs acc =
    match cs with
    | [] -> if prev = n then Some (List.rev acc) else None
    | PWrite (o, d) :: r ->
      let target = int_of_n o + List.length d in
      let best = ref (-1) in
      for j = prev to n do if sz.(j) = target then best := j done;
      if !best < 0 then None else go !best r ((!best - prev) :: acc)
    | Truncate _ :: _ -> None in
  go 0 coarse []

let first_problem = ref "-"
let problem s = if !first_problem = "-" then first_problem := s

let real log image =
  let (fine, odd) = read_log log in
  let img = list_of_string (read_file image) in
  first_problem := "-";
  List.iter (fun o -> problem o) odd;
  let n = List.length fine in
  match fine with
  | [] -> Printf.printf "REAL n=0 coarse=none okc=0 refines=0 exact=0/0 data=0 trunc=0 first=empty-trace\n"
  | e0 :: frest ->
    (match coarse_of_image e0 img with
     | None ->
       Printf.printf "REAL n=%d coarse=none okc=0 refines=0 exact=0/0 data=0 trunc=%d first=no-sections\n" n (count_trunc fine)
     | Some coarse ->
       let okc = trace_okb coarse in
       if not okc then problem "coarse-trace-not-ok";
       let wf = sections_wf img in
       if not wf then problem "sections-not-well-formed";
       (* split both at the commit *)
       let ci = int_of_nat (commit_index coarse) in
       let cbody = take (ci - 1) (drop 1 coarse) in
       let ctail = drop (ci + 1) coarse in
       let fi = int_of_nat (commit_index fine) in
       let fbody = take (fi - 1) frest in
       let ftail = drop fi frest in
       let size_e0 = size_ev N0 e0 in
       let cuts_b = find_cuts size_e0 fbody cbody in
       let size_commit = List.fold_left size_ev N0 (take (ci + 1) coarse) in
       let cuts_t = find_cuts size_commit ftail ctail in
       let refines, nexact, npred, ndata =
         match cuts_b, cuts_t with
         | Some cb, Some ct ->
           let r = trace_refinesb (List.map nat_of_int cb) (List.map nat_of_int ct) fine coarse in
           if not r then problem "trace_refinesb-false";
           (* exact comparison with the predicted calls, section by section *)
           let preds = match predicted_calls img with Some p -> p | None -> [] in
           let nex = ref 0 and np = ref 0 and nd = ref 0 in
           if List.length preds <> List.length cb then problem "prediction-count"
           else begin
             let rest = ref fbody in
             List.iteri (fun i (k, p) ->
                 let seg = take k !rest in
                 rest := drop k !rest;
                 match p with
                 | None -> nd := !nd + k
                 | Some want ->
                   incr np;
                   if List.length want = List.length seg && List.for_all2 (fun a b -> event_eqb a b) seg want then incr nex
                   else problem (Printf.sprintf "section-%d-calls:real=[%s]:model=[%s]" i
                                   (String.concat "," (List.map ev_str (take 6 seg)))
                                   (String.concat "," (List.map ev_str (take 6 want)))))
               (List.combine cb preds)
           end;
           (r, !nex, !np, !nd)
         | _ ->
           problem "no-cuts:file-size-never-reaches-a-section-end";
           (false, 0, 0, 0) in
       Printf.printf "REAL n=%d coarse=%d okc=%d wf=%d refines=%d exact=%d/%d data=%d trunc=%d first=%s\n" n (List.length coarse)
         (if okc then 1 else 0) (if wf then 1 else 0) (if refines then 1 else 0) nexact npred ndata (count_trunc fine) !first_problem)

(* ---- harness cases: the model input printed by h_fine.c (same format as props/C03/h_image.c) ---- *)
let toks = ref [||]
let pos = ref 0
let next () = let t = !toks.(!pos) in incr pos; t
let nextn () = n_of_string (next ())

let parse_file spec =
  match String.split_on_char ':' spec with
  | [ext; bs; fi; fo; fs; sp; w] ->
    let n = n_of_string in
    if ext = "1" then BFileX (n bs, n fs, n sp, n_of_int 1, n fi, n fo, n_of_string "4294967295", nlist w)
    else BFile (n bs, n fi, n fo, n fs, nlist w)
  | _ -> failwith "file"

let parse_node () =
  let mode = nextn () in let uid = nextn () in let gid = nextn () in let mtime = nextn () in
  let nlink = nextn () in let xattr = nextn () in
  let k = next () in
  let p = match k with
    | "d" ->
      let par = nextn () in
      let cnt = int_of_string (next ()) in
      let ch = List.init cnt (fun _ -> let nm = unhex (next ()) in let c = nextn () in (nm, c)) in
      PDir (par, ch)
    | "f" -> PFile (parse_file (next ()))
    | "l" -> PSlink (unhex (next ()))
    | "b" -> PDev (false, nextn ())
    | "c" -> PDev (true, nextn ())
    | "p" -> PIpc false
    | "s" -> PIpc true
    | _ -> failwith "kind" in
  { fn_mode = mode; fn_uid = uid; fn_gid = gid; fn_mtime = mtime; fn_nlink = nlink; fn_xattr = xattr; fn_payload = p }

let parse_tree () =
  let cnt = int_of_string (next ()) in
  List.init cnt (fun _ -> parse_node ())

let events_eq a b = List.length a = List.length b && List.for_all2 (fun x y -> event_eqb x y) a b

let harness_case line =
  first_problem := "-";
  match String.index_opt line '|' with
  | None -> print_string "H rc=parse\n"
  | Some bar ->
    let left = String.sub line 0 bar and right = String.sub line (bar + 1) (String.length line - bar - 1) in
    toks := Array.of_list (split_ws left);
    pos := 0;
    if Array.length !toks < 2 || !toks.(0) <> "W" || !toks.(1) = "-" then print_string "H rc=skip\n" else begin
      ignore (next ());
      let mode = nextn () in
      let bs = nextn () in let mtime = nextn () in let comp = nextn () in let devblk = nextn () in
      let exportable = next () <> "0" in let no_xattr = next () <> "0" in
      let opts = unhex (next ()) in
      let data = unhex (next ()) in
      let frags = (let s = next () in if s = "-" then [] else
                     List.map (fun p -> match String.split_on_char ':' p with
                         | [a; b] -> (n_of_string a, n_of_string b) | _ -> failwith "frag") (String.split_on_char ',' s)) in
      let xattr = (let s = next () in if s = "-" then None else
                     match String.split_on_char ':' s with
                     | [off; h] -> Some (unhex h, n_of_string off) | _ -> failwith "xattr") in
      let t = parse_tree () in
      let odd = ref [] in
      let calls = List.filter_map (fun c -> event_of_tokens (split_ws c) odd) (String.split_on_char ';' right) in
      List.iter (fun o -> problem o) !odd;
      let cfg = { c_block_size = bs; c_mtime = mtime; c_comp_id = comp; c_devblk = devblk; c_exportable = exportable;
                  c_no_xattr = no_xattr } in
      let inp = { in_opts = opts; in_data = data; in_frags = frags; in_tree = t; in_xattr = xattr } in
      match write_image (img_compress mode) c_id_table_limit cfg inp with
      | Ok w ->
        let expected = fine_trace opts w [] in
        let pre = PWrite (N0, encode0 w.w_super0) :: ev_one sizeof_sqfs_super_t opts in
        let npre = List.length pre in
        let suf = drop npre expected in
        let nsuf = List.length suf in
        let n = List.length calls in
        let ok_pre = n >= npre && events_eq (take npre calls) pre in
        let ok_suf = n >= npre + nsuf && events_eq (drop (n - nsuf) calls) suf in
        if not ok_pre then problem (Printf.sprintf "prefix:real=[%s]" (String.concat "," (List.map ev_str (take 3 calls))));
        if not ok_suf then begin
          (* first differing call, counted from the end of the data segment *)
          let real_s = if n >= nsuf then drop (n - nsuf) calls else calls in
          let rec fd i a b = match a, b with
            | x :: a', y :: b' -> if event_eqb x y then fd (i + 1) a' b' else Printf.sprintf "suffix-call-%d:real=%s:model=%s" i (ev_str x) (ev_str y)
            | _, _ -> Printf.sprintf "suffix-length:real=%d:model=%d" (List.length real_s) nsuf in
          problem (fd 0 real_s suf)
        end;
        let mid = if n >= npre + nsuf then take (n - npre - nsuf) (drop npre calls) else [] in
        let file0 = app (encode0 w.w_super0) opts in
        let ok_keeps = forallb (keeps sizeof_sqfs_super_t) mid in
        let ok_apply = list_eqb (apply_from file0 mid) (app file0 data) in
        if not ok_keeps then problem "data-call-below-96";
        if not ok_apply then problem "data-calls-do-not-produce-the-data-area";
        Printf.printf "H rc=0 n=%d pre=%d suf=%d keeps=%d apply=%d mid=%d trunc=%d dom=%d first=%s\n" n
          (if ok_pre then 1 else 0) (if ok_suf then 1 else 0) (if ok_keeps then 1 else 0) (if ok_apply then 1 else 0)
          (List.length mid) (count_trunc calls)
          (if image_domain cfg inp && image_fits w then 1 else 0) !first_problem
      | Err e -> Printf.printf "H rc=err%d\n" (int_of_z e)
      | Crash -> print_string "H rc=crash\n"
      | OutOfFuel -> print_string "H rc=fuel\n"
    end

let harness () =
  try
    while true do
      let line = input_line stdin in
      (try harness_case line
       with Failure m -> Printf.printf "H rc=parse %s\n" m
          | Invalid_argument m -> Printf.printf "H rc=parse %s\n" m);
      flush stdout
    done
  with End_of_file -> ()

let () =
  if Array.length Sys.argv >= 4 && Sys.argv.(1) = "real" then real Sys.argv.(2) Sys.argv.(3)
  else harness ()
