(* C17 model driver, order leg: the packing order the model predicts for (tree, sort file).
   stdin, per case:
     CASE <id>
     D                                   scanned directory (gensquashfs -D), followed by the host tree in pre-order:
     H <depth> <namehex> <f|d> <ino>       one line per entry in the order readdir returned them (the model sorts)
     F                                   description file (gensquashfs -F), followed by the add operations in file order:
     OP <f|d> <pathhex> <inputhex|~>       fstree_add_generic(path, type, extra = input file)
     S <sortfilehex|->                   the sort file text  (or  NOSORT)
     END
   stdout, per case:  "CASE <id>" / "ORDER <pathhex>:<idx>:<prio>:<flags> ..." or "ERR tree|post|sort" / "END" *)
open C17_order_model

external c_fnmatch : string -> string -> bool -> bool = "c17_fnmatch"

let rec pos_of_int i = if i = 1 then XH else if i land 1 = 1 then XI (pos_of_int (i lsr 1)) else XO (pos_of_int (i lsr 1))
let n_of_int i = if i = 0 then N0 else Npos (pos_of_int i)
let rec int_of_pos = function XH -> 1 | XO p -> 2 * int_of_pos p | XI p -> 2 * int_of_pos p + 1
let int_of_n = function N0 -> 0 | Npos p -> int_of_pos p
let rec i64_of_pos = function
  | XH -> 1L
  | XO p -> Int64.mul 2L (i64_of_pos p)
  | XI p -> Int64.add (Int64.mul 2L (i64_of_pos p)) 1L
let i64_of_z = function Z0 -> 0L | Zpos p -> i64_of_pos p | Zneg p -> Int64.neg (i64_of_pos p)

let unhex s =
  if s = "-" then [] else
  List.init (String.length s / 2) (fun i -> n_of_int (int_of_string ("0x" ^ String.sub s (2*i) 2)))
let hex l =
  let b = Buffer.create 64 in
  List.iter (fun c -> Buffer.add_string b (Printf.sprintf "%02x" (int_of_n c))) l;
  if Buffer.length b = 0 then "-" else Buffer.contents b
let str_of l = String.init (List.length l) (let a = Array.of_list l in fun i -> Char.chr (int_of_n a.(i)))
let fnm pat s pathname = c_fnmatch (str_of pat) (str_of s) pathname

(* a path on the wire is the '/'-joined string; the model works on components *)
let split_path (s : string) : n list list =
  let bytes = unhex s in
  let rec go cur acc = function
    | [] -> List.rev (List.rev cur :: acc)
    | c :: r -> if int_of_n c = 47 then go [] (List.rev cur :: acc) r else go (c :: cur) acc r in
  List.filter (fun c -> c <> []) (go [] [] bytes)

let type_of = function "f" -> FReg | "d" -> FDir | x -> failwith ("bad type " ^ x)

type hline = { depth : int; nm : n list; st : hstat }

let rec build_children depth (ls : hline list) : hnode list * hline list =
  match ls with
  | l :: rest when l.depth = depth ->
    let (kids, rest') = build_children (depth + 1) rest in
    let (sibs, rest'') = build_children depth rest' in
    (HNode (l.nm, l.st, kids) :: sibs, rest'')
  | _ -> ([], ls)

let mkstat t ino =
  { h_type = t; h_perm = n_of_int (if t = FDir then 0o755 else 0o644); h_uid = N0; h_gid = N0; h_mtime = Z0;
    h_dev = n_of_int 1; h_ino = n_of_int ino; h_rdev = N0; h_target = [] }

(* gensquashfs -D <dir> without further options: every dirscan flag off, no prefix / pattern *)
let default_cfg =
  { c_keep_time = false; c_keep_uid = false; c_keep_gid = false; c_keep_mode = false; c_onefs = false; c_norec = false;
    c_nohl = false; c_fullpath = false; c_no_sock = false; c_no_slink = false; c_no_file = false; c_no_blk = false;
    c_no_dir = false; c_no_chr = false; c_no_fifo = false; c_def_uid = N0; c_def_gid = N0; c_def_perm = n_of_int 0o755;
    c_def_mtime = Z0; c_prefix = []; c_pattern = None; c_fileprefix = None }

let dflt = { fd_uid = N0; fd_gid = N0; fd_mtime = N0; fd_perm = n_of_int 0o755 }

let words l = List.filter (fun w -> w <> "") (String.split_on_char ' ' l)

let show = function
  | QTreeErr -> "ERR tree"
  | QPostErr -> "ERR post"
  | QSortErr -> "ERR sort"
  | QOrder l ->
    "ORDER" ^ String.concat "" (List.map (fun f ->
      Printf.sprintf " %s:%d:%Ld:%d" (hex (join_slash f.pf_path)) (int_of_n f.pf_idx) (i64_of_z f.pf_prio)
        (int_of_n f.pf_flags)) l)

let () =
  let mode = ref 'D' in
  let hl : hline list ref = ref [] in
  let ops : op list ref = ref [] in
  let sf : n list option ref = ref None in
  try
    while true do
      let line = input_line stdin in
      match words line with
      | ["CASE"; id] -> Printf.printf "CASE %s\n" id; hl := []; ops := []; sf := None; mode := 'D'
      | ["D"] -> mode := 'D'
      | ["F"] -> mode := 'F'
      | ["H"; d; name; t; ino] ->
        hl := { depth = int_of_string d; nm = unhex name; st = mkstat (type_of t) (int_of_string ino) } :: !hl
      | ["OP"; t; path; input] ->
        let e = { e_path = split_path path; e_type = type_of t; e_perm = n_of_int (if t = "d" then 0o755 else 0o644);
                  e_uid = N0; e_gid = N0; e_mtime = Z0; e_rdev = N0; e_hard = false } in
        ops := (e, (if input = "~" then None else Some (unhex input))) :: !ops
      | ["S"; text] -> sf := Some (unhex text)
      | ["NOSORT"] -> sf := None
      | ["END"] ->
        let r =
          if !mode = 'D' then begin
            let (kids, _) = build_children 0 (List.rev !hl) in
            let root = HNode ([], mkstat FDir 1, kids) in
            order_dir fnm true fnm dflt default_cfg true root !sf
          end else order_ops fnm true dflt (List.rev !ops) !sf in
        print_string (show r); print_string "\nEND\n"
      | [] -> ()
      | _ -> print_string "BAD-INPUT\n"
    done
  with End_of_file -> ()
