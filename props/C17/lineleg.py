"""C17 line leg: the sort file's LINE PARSER, tied to the extracted SortFileModel.

Model side: coq/Extract/ExtractC17Line.v + driver_line.ml (parse_sort_line, print_sort_line, entry_okb).
Implementation side: h_line.c = one iteration of the loop of fstree_sort_files() of the working tree's
sort_by_file.c up to the matching loop (istream_get_line, '#' test, decode_priority, decode_flags, decode_filename).

Three streams of generated lines:
  printed   entries -> extracted print_sort_line -> both parsers.  Oracle (the round-trip theorem evaluated on the
            implementation, no model parser involved): the decoders must return the entry itself with the name
            canonicalised (Python py_canon) - or refuse the line when the name has a `..` component.
  written   the same entries written by hand the other ways the manual allows (unquoted name, blanks / tabs as
            separators, padded and repeated keywords, empty flag list, CRLF, indentation, blank lines in front); expectation = the entry (documented syntax).
  malformed one defect per line, by class (unknown flag: prefix / suffix of a keyword, `align`; missing / signed /
            overflowing priority; missing `]`; no blank behind `]` or the priority; unterminated quote; bytes behind
            the closing quote; unknown escape; `..`); expectation = refused.  Plus random byte edits (no expectation:
            tie only).
Compared exactly: the result line of h_line.c with the result line of the model driver.  A difference on a line with
an expectation the implementation does not meet is a concrete C17 violation (replay kind "line"); any other difference
breaks the correspondence only."""
import os
import random
import subprocess

from vlib import build as B
from vlib import core

HERE = os.path.dirname(os.path.abspath(__file__))
ENV = dict(os.environ, ASAN_OPTIONS="detect_leaks=0", LC_ALL="C")

BITS = {b"dont_compress": 1, b"dont_fragment": 4, b"dont_deduplicate": 8, b"nosparse": 16}
ALLKW = [b"glob", b"glob_no_path"] + list(BITS)
S64LIM = 2 ** 63 - 1
WS = b" \t\r\v\f"


def model_driver():
    return core.build_model_driver("C17line", "ExtractC17Line.v", os.path.join(HERE, "driver_line.ml"))


def harness(info):
    return B.compile_harness(info, [os.path.join(HERE, "h_line.c")], "h_line_c17",
                             extra=["-I" + B.REPO + "/bin/gensquashfs/src"])


def hexs(b):
    return b.hex() if b else "-"


def py_canon(p):
    comps = [c for c in p.split(b"/") if c]
    if b".." in comps:
        return None
    return b"/".join(c for c in comps if c != b".")


def run_lines(exe, data, timeout=120):
    try:
        r = subprocess.run([exe], input=data, stdout=subprocess.PIPE, stderr=subprocess.DEVNULL, env=ENV, timeout=timeout)
        return r.returncode, r.stdout.decode("latin-1").split("\n")
    except subprocess.TimeoutExpired:
        return 124, []


# ---------------------------------------------------------------------------------------------
# generators
# ---------------------------------------------------------------------------------------------
NAME_PIECES = [b"a", b"b", b"bin", b"ls", b"x y", b"q\"t", b"b\\s", b"[r]", b"#h", b"c,d", b"*", b"?", b".", b"..", b"...",
               b".x", b"\xc3\xa4", b"\t", b" ", b"]", b"[", b"\x7f", b"\x01", b"lib64", b"\r", b"'"]


def gen_name(rnd):
    n = rnd.choice([1, 1, 2, 2, 3, 4])
    parts = []
    for _ in range(n):
        k = rnd.choice([1, 1, 1, 2])
        parts.append(b"".join(rnd.choice(NAME_PIECES) for _ in range(k)))
    sep = rnd.choice([b"/", b"/", b"/", b"//"])
    s = sep.join(parts)
    if rnd.random() < 0.15:
        s = rnd.choice([b"/", b"./", b"//"]) + s
    if rnd.random() < 0.1:
        s += b"/"
    return s


def gen_prio(rnd):
    r = rnd.random()
    if r < 0.3:
        return rnd.randint(-20, 20)
    if r < 0.5:
        return rnd.choice([0, 1, -1, S64LIM - 1, -(S64LIM - 1), 10 ** 18, -10 ** 18, 2 ** 32, -2 ** 31, 999999999999999999])
    if r < 0.8:
        return rnd.randint(-(S64LIM - 1), S64LIM - 1)
    return rnd.randint(-100000, 100000)


def gen_entry(rnd):
    g = rnd.choice([(0, 0), (0, 0), (1, 1), (1, 0)])
    fl = 0
    for b in (1, 4, 8, 16):
        if rnd.random() < 0.35:
            fl |= b
    return dict(prio=gen_prio(rnd), glob=g[0], path=g[1], flags=fl, name=gen_name(rnd))


def expect_of(e):
    c = py_canon(e["name"])
    if c is None:
        return "err"
    return "dir %d %d %d %d %s" % (e["prio"], e["glob"], e["path"], e["flags"], hexs(c))


def kw_list(rnd, e, minimal=False):
    ks = []
    if e["glob"]:
        ks.append(b"glob" if e["path"] else b"glob_no_path")
    ks += [k for k, b in BITS.items() if e["flags"] & b]
    if minimal:
        return ks
    rnd.shuffle(ks)
    if e["glob"]:
        # the LAST glob keyword decides: keep the deciding one last among the glob keywords
        dec = b"glob" if e["path"] else b"glob_no_path"
        other = b"glob_no_path" if e["path"] else b"glob"
        ks = [k for k in ks if k != dec]
        if rnd.random() < 0.2:
            ks.insert(rnd.randint(0, len(ks)), other)
        pos = max([i for i, k in enumerate(ks) if k == other] + [-1]) + 1
        ks.insert(rnd.randint(pos, len(ks)), dec)
    if ks and rnd.random() < 0.2:
        k = rnd.choice([k for k in ks if k in BITS] or [None])
        if k:
            ks.insert(rnd.randint(0, len(ks)), k)
    return ks


def quote(name):
    return b'"' + name.replace(b"\\", b"\\\\").replace(b'"', b'\\"') + b'"'


def simple_name(name):
    return (name and name[0:1] not in b'"[' and name[0:1] not in WS and name[-1:] not in WS
            and b"\n" not in name and b"\0" not in name)


def write_line(rnd, e):
    """the entry in one of the other documented spellings"""
    sp = lambda: rnd.choice([b" ", b" ", b"\t", b"  ", b" \t "])
    pad = lambda: rnd.choice([b"", b"", b" ", b"\t"])
    ks = kw_list(rnd, e)
    line = rnd.choice([b"", b"", b" ", b"\t  "]) + b"%d" % e["prio"] + sp()
    if ks or rnd.random() < 0.15:
        line += b"[" + b",".join(pad() + k + pad() for k in ks) + b"]" + sp()
    if simple_name(e["name"]) and rnd.random() < 0.6:
        line += e["name"]
    else:
        line += quote(e["name"])
    line += rnd.choice([b"", b"", b"\n", b"\r\n", b" \n", b"\t\r\n"])
    if rnd.random() < 0.15:
        line = rnd.choice([b"\n", b"  \n", b"\t \r\n", b"\r\n\n"]) + line      # blank lines are skipped by the reader
    return line


def malformed(rnd, e):
    """(class, line): the line is the printed / written form of e with one defect of the class"""
    ks = kw_list(rnd, e, minimal=True)
    prio = b"%d" % e["prio"]
    qn = quote(e["name"])
    fl = (b"[" + b",".join(ks) + b"] ") if ks else b""
    c = rnd.choice(["flag-prefix", "flag-suffix", "flag-align", "flag-other", "flag-empty", "no-priority", "sign", "overflow",
                    "no-rbracket", "no-blank-after-flags", "no-blank-after-priority", "no-name", "unterminated-quote",
                    "trailing-garbage", "unknown-escape", "dotdot"])
    if c == "flag-prefix":
        k = rnd.choice(ALLKW)
        bad = k[:rnd.randint(1, len(k) - 1)]
        if bad in ALLKW:        # glob is a prefix of glob_no_path
            bad = bad[:-1]
        ks2 = ks[:]
        ks2.insert(rnd.randint(0, len(ks2)), bad)
        return c, prio + b" [" + b",".join(ks2) + b"] " + qn
    if c == "flag-suffix":
        k = rnd.choice(ALLKW)
        bad = k + rnd.choice([b"x", b"_", b"s", b"_no", b"glob", b"]"[:0] + b"2"])
        if bad in ALLKW:
            bad += b"x"
        ks2 = ks[:]
        ks2.insert(rnd.randint(0, len(ks2)), bad)
        return c, prio + b" [" + b",".join(ks2) + b"] " + qn
    if c == "flag-align":
        ks2 = ks[:]
        ks2.insert(rnd.randint(0, len(ks2)), b"align")
        return c, prio + b" [" + b",".join(ks2) + b"] " + qn
    if c == "flag-other":
        bad = rnd.choice([b"Glob", b"GLOB", b"dont-compress", b"no_sparse", b"sparse", b"dont_dedup", b"compress", b"g lob",
                          b"glob;nosparse", b"0", b"*"])
        ks2 = ks[:]
        ks2.insert(rnd.randint(0, len(ks2)), bad)
        return c, prio + b" [" + b",".join(ks2) + b"] " + qn
    if c == "flag-empty":
        # an empty word between two commas is dropped by split_line (separator runs), so this one is NOT malformed for
        # the code; a word of blanks only is (trim gives the empty string, which is no keyword)
        ks2 = ks[:]
        ks2.insert(rnd.randint(0, len(ks2)), rnd.choice([b" ", b"\t", b"  "]))
        return c, prio + b" [" + b",".join(ks2) + b"] " + qn
    if c == "no-priority":
        return c, rnd.choice([b"", b"x ", b"- ", b"-x", b"[glob] ", b". ", b"/ "]) + fl + qn if rnd.random() < 0.7 else (fl + qn)
    if c == "sign":
        return c, rnd.choice([b"+", b"--", b"-+", b"- ", b"+-"]) + prio.lstrip(b"-") + b" " + fl + qn
    if c == "overflow":
        v = rnd.choice([S64LIM, S64LIM + 1, 2 ** 63 + rnd.randint(0, 1000), 2 ** 64 - 1, 2 ** 64, 2 ** 64 + rnd.randint(0, 10 ** 6),
                        10 ** 19, 10 ** rnd.randint(20, 40) + rnd.randint(0, 99), rnd.randint(S64LIM, 2 ** 64)])
        return c, rnd.choice([b"", b"-"]) + rnd.choice([b"", b"", b"0", b"000"]) + b"%d" % v + b" " + fl + qn
    if c == "no-rbracket":
        name = e["name"].replace(b"]", b"_")
        return c, prio + b" [" + b",".join(ks) + b" " + quote(name)
    if c == "no-blank-after-flags":
        return c, prio + b" [" + b",".join(ks) + b"]" + rnd.choice([qn, b"", b"x", b"/"])
    if c == "no-blank-after-priority":
        return c, prio + rnd.choice([b"", b"x", b"[glob] a", b'"a"', b"/a", b".5 a", b"e3 a", b"L a"])
    if c == "no-name":
        return c, prio + rnd.choice([b"", b" ", b"\t", b"  \r\n"])
    if c == "unterminated-quote":
        name = e["name"].replace(b'"', b"_")
        if name.endswith(b"\\"):
            name += b"x"
        return c, prio + b" " + fl + b'"' + name.replace(b"\\", b"\\\\")
    if c == "trailing-garbage":
        return c, prio + b" " + fl + qn + rnd.choice([b"x", b" x", b' "y"', b"\\", b" #c", b'"'])
    if c == "unknown-escape":
        esc = b"\\" + rnd.choice([b"n", b"t", b"x", b"0", b"'", b" ", b"/"])
        body = e["name"].replace(b"\\", b"\\\\").replace(b'"', b'\\"')
        k = rnd.randint(0, len(body))
        while k > 0 and body[k - 1:k] == b"\\":
            k -= 1
        return c, prio + b" " + fl + b'"' + body[:k] + esc + body[k:] + b'"'
    name = rnd.choice([b"../a", b"a/../b", b"a/..", b"..", b"/../x", b"a//..//b"])
    return "dotdot", prio + b" " + fl + (name if rnd.random() < 0.5 else quote(name))


def byte_edit(rnd, line):
    b = bytearray(line)
    for _ in range(rnd.choice([1, 1, 2])):
        op = rnd.random()
        k = rnd.randint(0, len(b))
        ch = rnd.choice(b' \t"\\[],-#0159agx]/.')
        if op < 0.35 and k < len(b):
            del b[k]
        elif op < 0.7:
            b.insert(k, ch)
        elif k < len(b):
            b[k] = ch
    return bytes(b).replace(b"\0", b"0")


FIXED = [
    ("written", b"5 a", "dir 5 0 0 0 61"),
    ("written", b"-8000  [glob]          bin/*", "dir -8000 1 1 0 " + b"bin/*".hex()),
    ("written", b"5 [] a", "dir 5 0 0 0 61"),
    ("written", b"5 []\ta]b", "dir 5 0 0 0 " + b"a]b".hex()),
    ("written", b"5 [nosparse] []", "dir 5 0 0 16 " + b"[]".hex()),
    ("written", b"5 [glob,glob_no_path] a", "dir 5 1 0 0 61"),
    ("written", b"5 [glob_no_path,glob] a", "dir 5 1 1 0 61"),
    ("written", b"-0 a", "dir 0 0 0 0 61"),
    ("written", b"007 a", "dir 7 0 0 0 61"),
    ("written", b"%d a" % (S64LIM - 1), "dir %d 0 0 0 61" % (S64LIM - 1)),
    ("written", b"-%d a" % (S64LIM - 1), "dir -%d 0 0 0 61" % (S64LIM - 1)),
    ("written", b"  # 5 a", "skip"),
    ("written", b"", "skip"),
    ("written", b" \t\r\n\n", "skip"),
    ("overflow", b"%d a" % S64LIM, "err"),
    ("overflow", b"-%d a" % S64LIM, "err"),
    ("overflow", b"-%d a" % (S64LIM + 1), "err"),
    ("flag-prefix", b"5 [glo] a", "err"),
    ("flag-prefix", b"5 [nos] a", "err"),
    ("flag-prefix", b"5 [dont_] a", "err"),
    ("flag-prefix", b"5 [glob_no_pat] a", "err"),
    ("flag-suffix", b"5 [globx] a", "err"),
    ("flag-suffix", b"5 [nosparse2] a", "err"),
    ("flag-align", b"5 [align] a", "err"),
    ("no-rbracket", b"5 [glob a", "err"),
    ("no-blank-after-flags", b"5 [glob]a", "err"),
    ("no-blank-after-flags", b"5 []", "err"),
    ("sign", b"+5 a", "err"),
    ("trailing-garbage", b'5 "a" b', "err"),
    ("unterminated-quote", b'5 "a', "err"),
    ("unknown-escape", b'5 "a\\nb"', "err"),
    ("dotdot", b"5 a/../b", "err"),
]


def gen_cases(seed, n):
    """[(stream/class, raw line bytes | None, expectation | None, entry | None)]; printed lines are filled in by run_leg"""
    rnd = random.Random(seed * 7919 + 17)
    cases = [dict(cls=c, line=l, expect=x, entry=None) for c, l, x in FIXED]
    for i in range(n):
        e = gen_entry(rnd)
        r = rnd.random()
        if r < 0.30:
            cases.append(dict(cls="printed", line=None, expect=expect_of(e), entry=e,
                              eol=rnd.choice([b"", b"\n", b"\r\n"])))
        elif r < 0.60:
            cases.append(dict(cls="written", line=write_line(rnd, e), expect=expect_of(e), entry=e))
        elif r < 0.92:
            c, l = malformed(rnd, e)
            cases.append(dict(cls=c, line=l, expect="err", entry=e))
        else:
            base = write_line(rnd, e) if rnd.random() < 0.5 else malformed(rnd, e)[1]
            cases.append(dict(cls="edit", line=byte_edit(rnd, base), expect=None, entry=None))
    return cases


# ---------------------------------------------------------------------------------------------
# the leg
# ---------------------------------------------------------------------------------------------
def run_leg(ctx, info, cases):
    drv = model_driver()
    h = harness(info)
    res = dict(bad=[], tie_bad=[], crash=None, samples=[],
               stats=dict(cases=len(cases), printed=0, accepted=0, refused=0, skipped=0, tied=0, printer_refused=0))
    # 1. the extracted printer
    pidx = [i for i, c in enumerate(cases) if c["line"] is None]
    if pidx:
        data = "".join("P %d %d %d %d %s\n" % (cases[i]["entry"]["prio"], cases[i]["entry"]["glob"], cases[i]["entry"]["path"],
                                               cases[i]["entry"]["flags"], hexs(cases[i]["entry"]["name"])) for i in pidx)
        rc, out = run_lines(drv, data.encode())
        if rc != 0 or len(out) < len(pidx):
            res["crash"] = "model driver (printer) failed rc=%d" % rc
            return res
        for i, o in zip(pidx, out):
            okb, hx = o.split(" ")
            if okb != "1":
                res["stats"]["printer_refused"] += 1     # generator only makes expressible entries
            cases[i]["line"] = bytes.fromhex(hx) + cases[i].get("eol", b"")
        res["stats"]["printed"] = len(pidx)
    # 2. both parsers
    rc_m, out_m = run_lines(drv, "".join("L %s\n" % hexs(c["line"]) for c in cases).encode())
    rc_c, out_c = run_lines(h, "".join("%s\n" % hexs(c["line"]) for c in cases).encode())
    if rc_m != 0 or len(out_m) < len(cases):
        res["crash"] = "model driver failed rc=%d" % rc_m
        return res
    if rc_c != 0 or len(out_c) < len(cases):
        k = max(0, len(out_c) - 1)
        res["crash"] = "h_line (sort_by_file.c decoders) died rc=%d after %d of %d lines" % (rc_c, k, len(cases))
        res["crash_case"] = cases[min(k, len(cases) - 1)]
        return res
    for c, m, r in zip(cases, out_m, out_c):
        c["model"], c["impl"] = m, r
        st = res["stats"]
        st["accepted" if r.startswith("dir") else "refused" if r == "err" else "skipped"] += 1
        concrete = c["expect"] is not None and r != c["expect"]
        if concrete:
            res["bad"].append(c)
        elif m != r:
            res["tie_bad"].append(c)
        else:
            st["tied"] += 1
        if c["expect"] is not None and m != c["expect"] and not concrete:
            # the model disagrees with the documented expectation although the implementation meets it
            res["tie_bad"].append(c)
    for c in cases[len(FIXED):len(FIXED) + 3]:
        res["samples"].append(dict(kind="line", cls=c["cls"], line=c["line"].decode("latin-1"), impl=c["impl"], model=c["model"]))
    return res


def readable(c):
    return dict(kind="line", cls=c["cls"], line=hexs(c["line"]), line_readable=c["line"].decode("latin-1"),
                expect=c["expect"], impl=c.get("impl"), model=c.get("model"),
                how="printf '<line>' > s; gensquashfs -S s ... (or: echo <hex> | h_line_c17)")


def report(ctx, res, seen, maxsigs=4):
    """returns True if the tie is broken"""
    if res["crash"]:
        c = res.get("crash_case")
        ctx.tie_broken.append("parse_sort_line = line decoders of sort_by_file.c")
        ctx.violation("line:harness-died", res["crash"], readable(c) if c else dict(kind="none"), no_input=c is None)
        return True
    n = 0
    for c in res["bad"]:
        sig = "line:" + c["cls"]
        if sig in seen or n >= maxsigs:
            continue
        seen.add(sig)
        n += 1
        ctx.violation(sig, "sort file line %r (%s): the decoders of sort_by_file.c give `%s`, the documented syntax / "
                      "round-trip theorem demands `%s` (model: `%s`); %d lines of this run fail like this"
                      % (c["line"].decode("latin-1"), c["cls"], c["impl"], c["expect"], c["model"],
                         sum(1 for x in res["bad"] if x["cls"] == c["cls"])), readable(c))
    if res["tie_bad"]:
        c = res["tie_bad"][0]
        ctx.tie_broken.append("parse_sort_line = line decoders of sort_by_file.c")
        if not res["bad"] and "tie-line" not in seen:
            seen.add("tie-line")
            ctx.violation("tie-line", "correspondence parse_sort_line (model) vs decode_priority/decode_flags/decode_filename broken "
                          "on %d lines, first %r: implementation `%s`, model `%s`, expectation %r"
                          % (len(res["tie_bad"]), c["line"].decode("latin-1"), c["impl"], c["model"], c["expect"]),
                          readable(c), no_input=True)
    return bool(res["bad"] or res["tie_bad"])


def case_of_replay(rp):
    return dict(cls=rp.get("cls", "replay"), line=b"" if rp["line"] == "-" else bytes.fromhex(rp["line"]),
                expect=rp.get("expect"), entry=None)
