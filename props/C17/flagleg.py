"""C17 component leg: directive effects on the real block processor / block writer.

The theorems of coq/Properties_C17.v "directive effects" section are about FlagModel.tool_pack
(= pack_flags of pack_file + C08's model of the block processor and the block writer).  This leg

  * ties that function to the working tree: the same generated (node flag word, content) lists go
    through the extracted model (driver_flags.ml) and through lib/sqfs/src/block_processor/*.c +
    block_writer.c + frag_table.c driven by props/C08/h_dedup.c (used by path, not edited: in-memory
    file, toy compressor, toy checksum of props/C08/weakhash.c); compared exactly per file: block
    start, every size word (size, compressed bit), fragment index / offset; the fragment table; the
    bytes of the output file.  -T is applied on the C side by an independent one-line Python
    statement of pack_file (the model applies SortModel.pack_flags);
  * evaluates the statements of the theorems directly on the harness output (search oracle at
    component level), so a change that breaks a directive is reported with a concrete input even
    when model and code still agree or the proofs are broken.
"""
import collections
import hashlib
import os
import random
import subprocess

from vlib import build as B
from vlib import core

HERE = os.path.dirname(os.path.abspath(__file__))
C08 = os.path.join(os.path.dirname(HERE), "C08")
WEAKHASH = os.path.join(C08, "weakhash.c")
H_DEDUP = os.path.join(C08, "h_dedup.c")
ASAN_ENV = dict(ASAN_OPTIONS="detect_leaks=0:abort_on_error=0", UBSAN_OPTIONS="print_stacktrace=1")

DC, DH, DF, DD, NS = 1, 2, 4, 8, 16
UNCOMP = 1 << 24


def hexs(b):
    return b.hex() if b else "-"


def py_pack_flags(no_tail, size, bs, w):
    """pack_file (mkfs.c) / write_file (process_tarball.c), stated independently."""
    return (w | DF) if (no_tail and size > bs) else w


# --------------------------------------------------------------------------------------------
# cases
# --------------------------------------------------------------------------------------------

def mk(nt, bs, hm, initlen, backlog, files, tag):
    return dict(nt=int(nt), bs=bs, hm=hm, initlen=initlen, backlog=backlog, files=[(int(w), bytes(d)) for w, d in files],
                tag=tag)


def model_line(c):
    toks = [c["nt"], c["bs"], c["hm"], c["initlen"], len(c["files"])]
    for w, d in c["files"]:
        toks += [w, hexs(d)]
    return " ".join(str(t) for t in toks)


def harness_line(c):
    toks = [c["bs"], c["backlog"], 0, 1, c["hm"], c["initlen"], len(c["files"])]
    for w, d in c["files"]:
        toks += [py_pack_flags(c["nt"], len(d), c["bs"], w), hexs(d)]
    return " ".join(str(t) for t in toks)


def rnd_bytes(rnd, n, alphabet=256):
    return bytes(rnd.randrange(alphabet) for _ in range(n))


def directed_cases():
    """One family per case split of the proofs; block size 8, toy compressor (>= 5 equal bytes)."""
    out = []
    bs = 8
    A = bytes(range(1, 9))
    Bk = bytes(range(11, 19))
    Z = bytes(8)
    R7 = bytes([7]) * 8
    for nt in (0, 1):
        for hm in (65521, 0):
            f = lambda files, tag: out.append(mk(nt, bs, hm, 3, 5, files, tag))
            # dont_compress: compressible blocks stay raw; its tail opens a fragment block others join
            f([(DC, R7 + R7 + b"\7\7\7"), (0, b"\7\7"), (0, b"\7\7\7")], "dc-opens-fragblock")
            # ... joins a fragment block opened by a normal file (block inherits DONT_COMPRESS)
            f([(0, b"\7\7\7"), (DC, R7 + b"\7\7"), (0, b"\7")], "dc-joins-fragblock")
            # ... after the block was flushed: next block is compressed again
            f([(DC, b"\7\7\7\7\7\7"), (0, b"\7\7\7\7\7\7"[:5] + b"\7"), (0, b"\7\7\7\7\7")], "dc-then-flush")
            # F23: dont_compress tail equal to an earlier tail (dedup into a compressed block)
            f([(0, b"\7\7\7\7\7\7"), (DC, b"\7\7\7\7\7\7")], "f23-dc-tail-dedup")
            f([(0, A + b"\7\7\7\7\7\7"), (DC | DD, Bk + b"\7\7\7\7\7\7")], "dc-dd-tail-not-dedup")
            # dont_fragment: short last block, exact multiples, smaller than a block
            for n in (1, 7, 8, 9, 15, 16, 17, 24):
                f([(DF, (A + Bk + A + Bk)[:n]), (0, (A + Bk + A + Bk)[:n])], "df-size-%d" % n)
            # nosparse: zero blocks, zero tail, zero-only fragment block (F22), mixed
            f([(NS, Z + Z + b"\0\0\0")], "ns-all-zero")
            f([(NS, A + Z + b"\0\0\0"), (0, A + Z + b"\0\0\0")], "ns-vs-default")
            f([(NS, A + A + bytes(5)), (NS, bytes(3)), (0, b"\1\2")], "f22-zero-fragblock")
            f([(NS | DF, Z + bytes(3)), (NS | DC, Z + bytes(3))], "ns-df-dc")
            f([(0, Z), (0, Z + Z), (0, bytes(3))], "holes-only")
            # dont_deduplicate: duplicates of blocks and of tails
            f([(0, A + Bk + b"\1\2\3"), (DD, A + Bk + b"\1\2\3"), (0, A + Bk + b"\1\2\3")], "dd-duplicate")
            f([(0, A + A), (DD, A), (0, A), (DD, A + A)], "dd-overlap")
            f([(DD, b"\1\2\3"), (DD, b"\1\2\3"), (0, b"\1\2\3")], "dd-tails")
            # layout: dedup against own fresh blocks / fragment blocks between files
            f([(0, A), (0, A + A), (0, A + A + A)], "self-overlap")
            f([(0, A + b"\1"), (0, Bk + b"\2\2"), (0, A + b"\3\3\3"), (0, Bk)], "interleave")
            f([(0, b"\1\2\3\4\5\6\7"), (0, b"\1\2"), (0, A)], "fragblock-between")
            # -T: around one block
            for n in (7, 8, 9, 16, 17):
                f([(0, (A + Bk + A)[:n]), (DC, (Bk + A + Bk)[:n])], "T-size-%d" % n)
    return out


def random_case(rnd):
    bs = rnd.choice([8, 8, 8, 16, 16, 32, 64])
    hm = rnd.choice([65521, 65521, 65521, 251, 7, 0])
    nt = rnd.random() < 0.3
    initlen = rnd.choice([0, 3, 96])
    backlog = rnd.choice([3, 4, 5, 8, 20, 50])
    pool = []
    for _ in range(rnd.randint(2, 5)):
        k = rnd.random()
        if k < 0.25:
            pool.append(bytes(bs))
        elif k < 0.5:
            pool.append(bytes([rnd.randint(1, 3)]) * bs)
        else:
            pool.append(rnd_bytes(rnd, bs, 4))
    tsizes = [rnd.randint(1, bs - 1) for _ in range(2)] + [rnd.randint(1, 4)]
    tails = []
    for _ in range(rnd.randint(2, 5)):
        n = rnd.choice(tsizes)
        k = rnd.random()
        if k < 0.2:
            tails.append(bytes(n))
        elif k < 0.55:
            tails.append(bytes([rnd.choice([7, 7, 9])]) * n)     # compressible fragment blocks
        else:
            tails.append(rnd_bytes(rnd, n, 3))
    files = []
    for _ in range(rnd.choice([1, 2, 3, 4, 6, 8, 12])):
        if files and rnd.random() < 0.2:
            w, d = rnd.choice(files)
            files.append((rnd_flags(rnd) if rnd.random() < 0.6 else w, d))
            continue
        nb = rnd.choice([0, 0, 1, 1, 2, 2, 3, 5])
        d = b"".join(rnd.choice(pool) for _ in range(nb))
        if rnd.random() < 0.7:
            d += rnd.choice(tails)
        files.append((rnd_flags(rnd), d))
    return mk(nt, bs, hm, initlen, backlog, files, "random")


def rnd_flags(rnd):
    w = 0
    for bit, p in ((DC, 0.3), (DF, 0.2), (DD, 0.25), (NS, 0.3), (DH, 0.03)):
        if rnd.random() < p:
            w |= bit
    return w


def gen_cases(seed, n):
    rnd = random.Random(seed * 1000003 + 17)
    return directed_cases() + [random_case(rnd) for _ in range(n)]


# --------------------------------------------------------------------------------------------
# output
# --------------------------------------------------------------------------------------------

def parse_out(line):
    """'ok ... F=.. T=.. X=.. R=..' -> dict or None"""
    if not line.startswith("ok "):
        return None
    fields = {}
    for tok in line.split()[1:]:
        if "=" in tok:
            k, v = tok.split("=", 1)
            fields[k] = v
    res = dict(files=[], T=[], X=b"", R=[])
    if fields.get("F", "-") != "-":
        for ent in fields["F"].split(";"):
            start, nw, words, frag = ent.split("/")
            ws = [] if words == "-" else [int(x) if x != "?" else None for x in words.split(".")]
            fr = None if frag == "-" else tuple(int(x) for x in frag.split("."))
            res["files"].append(dict(start=int(start), nw=int(nw), words=ws, frag=fr))
    if fields.get("T", "-") != "-":
        res["T"] = [tuple(int(x) for x in e.split(".")) for e in fields["T"].split(",")]
    x = fields.get("X", "-")
    res["X"] = b"" if x == "-" else bytes.fromhex(x)
    r = fields.get("R", "-")
    res["R"] = [] if r == "-" else r.split(";")
    res["key"] = (fields.get("F"), fields.get("T"), fields.get("X"))
    return res


def oracle(c, o):
    """The statements of the directive theorems, evaluated on what the implementation produced.
    Returns ([(sig, what)], Counter)."""
    bad = []
    st = collections.Counter()
    bs = c["bs"]
    X = o["X"]
    if len(o["files"]) != len(c["files"]):
        return [("component:shape", "harness printed %d files for %d inputs" % (len(o["files"]), len(c["files"])))], st
    for loc, w in o["T"]:
        if (w & 0xFFFFFF) == 0:
            bad.append(("nosparse:fragment-block-dropped", "fragment table entry (%d, %#x) has size 0: an assembled fragment "
                        "block was treated as sparse and never written" % (loc, w)))
    prev = []       # (start, dlen, frag, taillen) of earlier files
    for i, ((w0, d), f) in enumerate(zip(c["files"], o["files"])):
        fl = py_pack_flags(c["nt"], len(d), bs, w0)
        nfull, r = divmod(len(d), bs)
        blocks = [d[k * bs:(k + 1) * bs] for k in range(nfull)]
        tail = d[nfull * bs:]
        if r and (fl & DF):
            blocks.append(tail)
            tail = b""
        # read back
        if i < len(o["R"]) and o["R"][i] != hexs(d):
            bad.append(("content:readback", "file %d (flags %#x, %d bytes) reads back differently" % (i, fl, len(d))))
        # -T touches only files larger than one block
        if c["nt"] and len(d) <= bs and fl != w0:
            bad.append(("no_tail_packing:small-file", "oracle bug"))
        off = f["start"]
        dlen = 0
        for k, b in enumerate(blocks):
            wd = f["words"][k] if k < len(f["words"]) else None
            if wd is None:
                bad.append(("component:missing-size-word", "file %d block %d has no size word" % (i, k)))
                continue
            zero = not any(b)
            if zero and not (fl & NS):
                st["holes"] += 1
                if wd != 0:
                    bad.append(("sparse:zero-block-stored", "file %d block %d is all zero, no nosparse, size word %#x" % (i, k, wd)))
                continue
            if wd & 0xFFFFFF == 0:
                bad.append(("nosparse:block-not-materialised" if zero else "component:block-dropped",
                            "file %d (flags %#x) block %d: size word %#x records a hole" % (i, fl, k, wd)))
                continue
            if zero:
                st["zero_blocks_materialised"] += 1
            size = wd & 0xFFFFFF
            if fl & DC:
                st["dc_blocks"] += 1
                if not (wd & UNCOMP) or size != len(b):
                    bad.append(("dont_compress:block-compressed", "file %d (dont_compress) block %d of %d bytes has size word %#x"
                                % (i, k, len(b), wd)))
                elif X[off + dlen:off + dlen + size] != b:
                    bad.append(("dont_compress:bytes", "file %d (dont_compress) block %d: the bytes at offset %d are not the "
                                "original ones" % (i, k, off + dlen)))
            dlen += size
        # the tail end
        if fl & DF:
            st["df_files"] += 1
            if f["frag"] is not None:
                bad.append(("dont_fragment:has-tail-fragment", "file %d (dont_fragment, %d bytes) has fragment reference %r"
                            % (i, len(d), f["frag"])))
        elif tail:
            zero = not any(tail)
            if zero and not (fl & NS):
                if f["frag"] is not None:
                    bad.append(("sparse:zero-tail-stored", "file %d: all-zero tail without nosparse has fragment %r" % (i, f["frag"])))
            elif f["frag"] is None:
                bad.append(("nosparse:tail-not-materialised" if zero else "component:tail-dropped",
                            "file %d (flags %#x) has a %d-byte tail but no fragment reference" % (i, fl, len(tail))))
            else:
                fi, fo = f["frag"]
                shared = any(p[2] == (fi, fo) for p in prev)
                if fi >= len(o["T"]):
                    bad.append(("component:fragment-index", "file %d fragment index %d outside the table" % (i, fi)))
                else:
                    tw = o["T"][fi][1]
                    if fl & DC:
                        if shared and not (tw & UNCOMP):
                            st["f23_instances"] += 1
                        elif not (tw & UNCOMP):
                            bad.append(("dont_compress:fragment-block-compressed", "file %d (dont_compress) put its tail into "
                                        "fragment block %d at %d (not shared with an earlier file); that block is stored "
                                        "compressed (size word %#x)" % (i, fi, fo, tw)))
                        else:
                            st["dc_fragblocks_uncompressed"] += 1
                            loc = o["T"][fi][0]
                            if X[loc + fo:loc + fo + len(tail)] != tail:
                                bad.append(("dont_compress:fragment-bytes", "file %d: tail not found raw at %d+%d" % (i, loc, fo)))
                    if fl & DD:
                        st["dd_tails"] += 1
                        for p in prev:
                            if p[2] is None:
                                continue
                            pi, po = p[2]
                            if not (pi < fi or (pi == fi and po + p[3] <= fo)):
                                bad.append(("dont_deduplicate:tail-shared", "file %d (dont_deduplicate) has fragment (%d,%d) "
                                            "overlapping the one of an earlier file (%d,%d,+%d)" % (i, fi, fo, pi, po, p[3])))
                                break
        # layout
        if dlen > 0:
            hw = max([p[0] + p[1] for p in prev if p[1] > 0], default=0)
            if f["start"] < hw:
                st["shared_starts"] += 1
                if fl & DD:
                    bad.append(("dont_deduplicate:blocks-shared", "file %d (dont_deduplicate) starts at %d, inside data of earlier "
                                "files (which end at %d)" % (i, f["start"], hw)))
            else:
                st["fresh_starts"] += 1
        prev.append((f["start"], dlen, f["frag"] if (tail and not (fl & DF)) else None, len(tail)))
    return bad, st


# --------------------------------------------------------------------------------------------

def weak_build():
    """the build props/C08 uses (xxh32 wrapped by props/C08/weakhash.c): same tag, shared cache"""
    tag = "c08-" + hashlib.sha256(open(WEAKHASH, "rb").read()).hexdigest()[:10]
    return B.build("asan", per_file_flags={"lib/util/src/xxhash.c": ["-Dxxh32=real_xxh32", "-include", WEAKHASH]},
                   tag=tag)


def model_driver():
    return core.build_model_driver("C17flags", "ExtractC17Flags.v", os.path.join(HERE, "driver_flags.ml"))


def run_lines(exe, data, env=None, timeout=300):
    try:
        r = subprocess.run([exe], input=data, stdout=subprocess.PIPE, stderr=subprocess.PIPE, env=env, timeout=timeout)
        return r.returncode, r.stdout.decode("utf-8", "replace").split("\n"), r.stderr.decode("utf-8", "replace")
    except subprocess.TimeoutExpired as e:
        return 124, (e.stdout or b"").decode("utf-8", "replace").split("\n"), "[timeout]"


def run_leg(ctx, cases, need_model=True):
    """Returns dict(tie_bad=[(case, impl_line, model_line)], prop_bad=[(case, sig, what)], crash, stats, model)."""
    info = weak_build()
    h = B.compile_harness(info, [H_DEDUP], "h_dedup_c17")
    drv = None
    try:
        drv = model_driver()
    except RuntimeError as e:
        if need_model and not ctx.proof_broken:
            raise
        ctx.notes.append("flags model driver not built: %s" % str(e)[-300:])
    env = dict(os.environ, **ASAN_ENV)
    from concurrent.futures import ThreadPoolExecutor
    hd = ("\n".join(harness_line(c) for c in cases) + "\n").encode()
    md = ("\n".join(model_line(c) for c in cases) + "\n").encode()
    with ThreadPoolExecutor(max_workers=2) as ex:
        fc = ex.submit(run_lines, h, hd, env)
        fm = ex.submit(run_lines, drv, md, None) if drv else None
        rc_c, out_c, err_c = fc.result()
        rc_m, out_m, err_m = fm.result() if fm else (0, None, "")
    res = dict(tie_bad=[], prop_bad=[], crash=None, stats=collections.Counter(), model=bool(drv), samples=[])
    st = res["stats"]
    if rc_c != 0:
        idx = len([l for l in out_c if l])
        res["crash"] = (cases[min(idx, len(cases) - 1)], rc_c, err_c[-2000:])
    if drv and rc_m != 0:
        res["tie_bad"].append((cases[0], "", "(model driver died rc=%d: %s)" % (rc_m, err_m[-300:])))
    for i, c in enumerate(cases):
        lc = out_c[i] if i < len(out_c) else ""
        if not lc and res["crash"]:
            break
        st["cases"] += 1
        st["family:" + c["tag"].split("-")[0]] += 1
        oc = parse_out(lc)
        if oc is None:
            res["prop_bad"].append((c, "component:pack-failed", "packing failed in the component harness: %s" % lc[:200]))
            continue
        bad, s = oracle(c, oc)
        st.update(s)
        if any(py_pack_flags(c["nt"], len(d), c["bs"], w) for w, d in c["files"]):
            st["with_directive"] += 1
        for sig, what in bad:
            res["prop_bad"].append((c, sig, what))
        if out_m is not None:
            lm = out_m[i] if i < len(out_m) else ""
            om = parse_out(lm)
            if om is None or om["key"] != oc["key"]:
                res["tie_bad"].append((c, lc, lm))
            else:
                st["tied"] += 1
    for i in (0, len(cases) // 2):
        if i < len(cases) and i < len(out_c):
            res["samples"].append(dict(case=model_line(cases[i])[:300], impl=out_c[i][:300],
                                       model=(out_m[i][:300] if out_m and i < len(out_m) else None)))
    return res


def replay_obj(c, **kw):
    d = dict(kind="flags", nt=c["nt"], bs=c["bs"], hm=c["hm"], initlen=c["initlen"], backlog=c["backlog"], tag=c["tag"],
             files=[[w, hexs(d)] for w, d in c["files"]], harness_line=harness_line(c), model_line=model_line(c))
    d.update(kw)
    return d


def case_of_replay(r):
    return mk(r["nt"], r["bs"], r["hm"], r["initlen"], r["backlog"],
              [(w, b"" if h == "-" else bytes.fromhex(h)) for w, h in r["files"]], r.get("tag", "replay"))


def report(ctx, res, seen):
    """component violations first (concrete inputs); a broken tie without one is reported as such"""
    if res["crash"]:
        c, rc, err = res["crash"]
        ctx.violation("flags-component-crash", "block processor harness died (rc=%d): %s" % (rc, err[-400:]),
                      replay_obj(c, stderr=err))
    for c, sig, what in res["prop_bad"]:
        if sig in seen or len(seen) >= 8:
            continue
        seen.add(sig)
        ctx.violation(sig, "component level (block processor + block writer of the working tree, toy compressor): " + what
                      + "  [case %s: %s]" % (c["tag"], model_line(c)[:200]), replay_obj(c))
    if res["tie_bad"] and not res["prop_bad"] and not res["crash"]:
        c, lc, lm = res["tie_bad"][0]
        ctx.tie_broken.append("tool_pack (FlagModel) = pack_file flags + block processor + block writer")
        ctx.violation("tie-flags", "correspondence tool_pack (model) vs block processor / block writer broken on %d cases, "
                      "e.g. [%s] impl=[%s] model=[%s]" % (len(res["tie_bad"]), model_line(c)[:120], lc[:200], lm[:200]),
                      replay_obj(c, impl=lc[:3000], model=lm[:3000], more=[model_line(x[0])[:400] for x in res["tie_bad"][1:4]],
                                 correspondence="props/C17: tool_pack = per-file block start, size words, fragment reference, "
                                                "fragment table, output bytes (exact)"),
                      no_input=True)
