/* C17 harness for the flag computation of pack_file() (bin/gensquashfs/src/mkfs.c) and
 * write_file() (bin/tar2sqfs/src/process_tarball.c).  The two C files are included (their
 * functions are static); the one call that hands the flags to the block processor is
 * redirected to a recorder that refuses, so nothing is packed.
 *
 * usage: h_pack <scratch dir>;  stdin: "<no_tail 0|1> <filesize> <block_size> <node flags>"
 * stdout: "<flags seen from pack_file | NONE> <flags seen from write_file | NONE>"
 * Built with -DH_PACK_GEN (gensquashfs half) or -DH_PACK_TAR (tar2sqfs half): the two tools
 * define clashing globals. */
#include "config.h"
#ifdef H_PACK_GEN
#include "mkfs.h"
#else
#include "tar2sqfs.h"
#endif
#include <stdio.h>
#include <stdlib.h>
#include <string.h>
#include <unistd.h>
#include <fcntl.h>

static long seen_flags = -1;

static int h_create_ostream(sqfs_ostream_t **out, const char *filename,
			    sqfs_block_processor_t *proc,
			    sqfs_inode_generic_t **inode, sqfs_u32 flags)
{
	(void)out; (void)filename; (void)proc; (void)inode;
	seen_flags = (long)flags;
	return SQFS_ERROR_UNSUPPORTED;
}

#define sqfs_block_processor_create_ostream h_create_ostream
#define main tool_main
#ifdef H_PACK_GEN
#include "bin/gensquashfs/src/mkfs.c"
#else
#include "bin/tar2sqfs/src/process_tarball.c"
#endif
#undef main

int main(int argc, char **argv)
{
	char line[256];

	if (argc < 2 || chdir(argv[1]) != 0) {
		perror("scratch dir");
		return 2;
	}

	while (fgets(line, sizeof(line), stdin)) {
		unsigned long long fsz, bs;
		int nt, fl, fd;

		if (sscanf(line, "%d %llu %llu %d", &nt, &fsz, &bs, &fl) != 4) {
			puts("BAD-INPUT");
			continue;
		}

		seen_flags = -1;
#ifdef H_PACK_GEN
		{
			tree_node_t node;
			options_t opt;

			fd = open("f", O_CREAT | O_TRUNC | O_WRONLY, 0600);
			if (fd < 0 || ftruncate(fd, (off_t)fsz) != 0) {
				perror("creating input file");
				return 2;
			}
			close(fd);

			memset(&node, 0, sizeof(node));
			memset(&opt, 0, sizeof(opt));
			node.data.file.flags = fl;
			opt.no_tail_packing = nt;
			opt.cfg.block_size = bs;
			opt.cfg.quiet = true;
			(void)pack_file(NULL, "f", &node, &opt);
		}
#else
		{
			sqfs_dir_entry_t *ent = sqfs_dir_entry_create("f", S_IFREG | 0644, 0);
			static sqfs_writer_t wr; /* only wr.data (NULL) is read before the redirected call */
			tree_node_t node;

			if (ent == NULL)
				return 2;
			memset(&node, 0, sizeof(node));
			ent->size = fsz;
			no_tail_pack = nt;
			cfg.block_size = bs;
			(void)fl; /* tar2sqfs has no per-file flags */
			(void)write_file(&wr, NULL, ent, &node);
			free(ent);
		}
#endif
		if (seen_flags < 0) puts("NONE"); else printf("%ld\n", seen_flags);
		fflush(stdout);
	}
	return 0;
}
