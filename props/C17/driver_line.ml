(* C17 line-parser driver (extracted SortFileModel).
   "L <hex raw bytes|->"                              -> skip | err | dir <prio> <glob> <path> <flags> <hex name|->
   "P <prio> <glob 0|1> <path 0|1> <flags> <hex name|->" -> "<okb 0|1> <hex of print_sort_line>"
   "F <hex text|->"                                   -> none | <n> entries as "prio:glob:path:flags:hexname,..." *)
open C17line_model

let rec pos_of_int i = if i = 1 then XH else if i land 1 = 1 then XI (pos_of_int (i lsr 1)) else XO (pos_of_int (i lsr 1))
let n_of_int i = if i = 0 then N0 else Npos (pos_of_int i)
let rec int_of_pos = function XH -> 1 | XO p -> 2 * int_of_pos p | XI p -> 2 * int_of_pos p + 1
let int_of_n = function N0 -> 0 | Npos p -> int_of_pos p
let rec i64_of_pos = function
  | XH -> 1L
  | XO p -> Int64.mul 2L (i64_of_pos p)
  | XI p -> Int64.add (Int64.mul 2L (i64_of_pos p)) 1L
let i64_of_z = function Z0 -> 0L | Zpos p -> i64_of_pos p | Zneg p -> Int64.neg (i64_of_pos p)
let rec pos_of_i64 i =
  if i = 1L then XH
  else if Int64.logand i 1L = 1L then XI (pos_of_i64 (Int64.shift_right_logical i 1))
  else XO (pos_of_i64 (Int64.shift_right_logical i 1))
(* Int64.min_int: its negation is itself; shift_right_logical treats it as 2^63 *)
let z_of_i64 i = if i = 0L then Z0 else if Int64.compare i 0L > 0 then Zpos (pos_of_i64 i) else Zneg (pos_of_i64 (Int64.neg i))

let unhex s =
  if s = "-" then [] else
  let n = String.length s / 2 in
  List.init n (fun i -> n_of_int (int_of_string ("0x" ^ String.sub s (2*i) 2)))
let hex l =
  let b = Buffer.create 64 in
  List.iter (fun c -> Buffer.add_string b (Printf.sprintf "%02x" (int_of_n c))) l;
  if Buffer.length b = 0 then "-" else Buffer.contents b

let b01 b = if b then 1 else 0
let show_dir d = Printf.sprintf "%Ld %d %d %d %s" (i64_of_z d.d_prio) (b01 d.d_glob) (b01 d.d_path) (int_of_n d.d_flags) (hex d.d_name)

let () =
  try
    while true do
      let line = input_line stdin in
      match String.split_on_char ' ' line with
      | ["L"; l] ->
        (match parse_sort_line (unhex l) with
         | LnSkip -> print_string "skip\n"
         | LnErr -> print_string "err\n"
         | LnFuel -> print_string "FUEL\n"
         | LnDir d -> Printf.printf "dir %s\n" (show_dir d))
      | ["P"; p; g; pg; fl; nm] ->
        let d = { d_prio = z_of_i64 (Int64.of_string p); d_glob = (g = "1"); d_path = (pg = "1");
                  d_flags = n_of_int (int_of_string fl); d_name = unhex nm } in
        Printf.printf "%d %s\n" (b01 (entry_okb d)) (hex (print_sort_line d))
      | ["F"; t] ->
        (match parse_sort_file (unhex t) with
         | None -> print_string "none\n"
         | Some ds -> Printf.printf "%d %s\n" (List.length ds)
                        (String.concat "," (List.map (fun d -> String.concat ":" (String.split_on_char ' ' (show_dir d))) ds)))
      | _ -> print_string "BAD-INPUT\n"
    done
  with End_of_file -> ()
