"""C17 size-class leg (tool level): a switch that applies to a size class applies to exactly that class.

The property fixes two thresholds in the data path of BOTH front ends:
  * --no-tail-packing / -T touches only files larger than one DATA block (-b), whatever the device block size (-B);
  * dont_fragment (sort file, gensquashfs only) touches exactly the listed files, whatever their size;
and every other file keeps its tail in a fragment.  The other tool-level oracles pack with -b == -B (tar2sqfs: only
4096/4096) or choose file sizes around multiples of -b only, so a threshold taken from another size field of the
configuration (device block size, a constant, the wrong comparison) never shows.  Here gensquashfs AND tar2sqfs pack the
same files under (-b, -B) pairs with b > B, b < B, b == B (explicit and default -B), at every size around both values
({1, B-1, B, B+1, b-1, b, b+1, b+B, 2b, 2b+1}), with / without -T and (gensquashfs) with a sort file that puts
dont_fragment on every other file.  Judged from the image (props/C17/sqimg.py: fragment reference, block words, contents)
against (a) the rule as the property states it and (b) the flag word the extracted model (SortModel.pack_flags through
driver.ml "P") predicts for that file.  A failure is reduced to the one file that shows it and reported with the archive /
file and the command line as replay.
"""
import io
import os
import shutil
import subprocess
import tarfile

import sqimg

ENV = dict(os.environ, ASAN_OPTIONS="detect_leaks=0", LC_ALL="C")
DF = 4

# (data block size -b, device block size -B or None = the tool's default SQFS_DEVBLK_SIZE 4096)
PAIRS = [(16384, None), (8192, 1024), (4096, 16384), (4096, None), (8192, 8192), (131072, None), (4096, 65536)]
DEFAULT_DEVBLK = 4096


def content(name, n):
    """never all-zero in any block, different in every block and tail of every file (no sparse blocks, no shared tails)"""
    out = bytearray()
    k = 0
    while len(out) < n:
        out += b"%s#%d squash block fragment inode size class\n" % (name.encode(), k)
        k += 1
    return bytes(out[:n])


def sizes_for(b, B):
    return sorted({1, B - 1, B, B + 1, b - 1, b, b + 1, b + B, 2 * b, 2 * b + 1})


def cases(quick=True):
    out = []
    for b, B in PAIRS:
        dev = B or DEFAULT_DEVBLK
        files = [("f%02d_%d" % (i, n), n) for i, n in enumerate(sizes_for(b, dev))]
        alt = [nm for i, (nm, _) in enumerate(files) if i % 2 == 0]
        alt2 = [nm for i, (nm, _) in enumerate(files) if i % 2 == 1]
        for notail in (False, True):
            out.append(dict(kind="thresh", tool="tar2sqfs", b=b, B=B, notail=notail, files=files, df=[]))
            out.append(dict(kind="thresh", tool="gensquashfs", b=b, B=B, notail=notail, files=files, df=[]))
            out.append(dict(kind="thresh", tool="gensquashfs", b=b, B=B, notail=notail, files=files,
                            df=alt if notail else alt2))
        out.append(dict(kind="thresh", tool="gensquashfs", b=b, B=B, notail=True, files=files, df=alt2))
        out.append(dict(kind="thresh", tool="gensquashfs", b=b, B=B, notail=False, files=files, df=alt))
    return out


def make_tar(files):
    buf = io.BytesIO()
    with tarfile.open(fileobj=buf, mode="w", format=tarfile.USTAR_FORMAT) as tf:
        for nm, n in files:
            ti = tarfile.TarInfo(nm)
            ti.size = n
            ti.mode = 0o644
            tf.addfile(ti, io.BytesIO(content(nm, n)))
    return buf.getvalue()


def command(info, c, img, ind=None, sf=None):
    common = ["-q", "-f", "-c", "gzip", "-b", str(c["b"])] + (["-B", str(c["B"])] if c["B"] else []) + \
             (["-T"] if c["notail"] else [])
    if c["tool"] == "tar2sqfs":
        return [info["tools"]["tar2sqfs"]] + common + [img]
    return [info["tools"]["gensquashfs"], "-D", ind, "-j", "1"] + common + (["-S", sf] if c["df"] else []) + [img]


def model_flags(drv, c):
    """flag word the extracted pack_flags hands to the block processor for every file of the case (None: no driver)"""
    if not drv:
        return None
    data = "".join("P %d %d %d %d\n" % (int(c["notail"]), n, c["b"], DF if nm in c["df"] else 0) for nm, n in c["files"])
    r = subprocess.run([drv], input=data.encode(), stdout=subprocess.PIPE, stderr=subprocess.PIPE)
    lines = r.stdout.decode().split()
    if r.returncode != 0 or len(lines) != len(c["files"]):
        return None
    try:
        return [int(x) for x in lines]
    except ValueError:
        return None


def run_case(info, drv, c, work):
    """-> list of (sig, what, file name)"""
    d = os.path.join(work, "thresh")
    shutil.rmtree(d, ignore_errors=True)
    os.makedirs(d)
    img = os.path.join(d, "t.sqfs")
    tool = c["tool"]
    if tool == "tar2sqfs":
        cmd = command(info, c, img)
        r = subprocess.run(cmd, input=make_tar(c["files"]), stdout=subprocess.PIPE, stderr=subprocess.PIPE, env=ENV)
    else:
        ind = os.path.join(d, "in")
        os.makedirs(ind)
        for nm, n in c["files"]:
            with open(os.path.join(ind, nm), "wb") as f:
                f.write(content(nm, n))
        sf = os.path.join(d, "sort.txt")
        with open(sf, "w") as f:
            f.write("".join("0 [dont_fragment] %s\n" % nm for nm in c["df"]))
        cmd = command(info, c, img, ind, sf)
        r = subprocess.run(cmd, stdout=subprocess.PIPE, stderr=subprocess.PIPE, env=ENV)
    opts = " ".join(cmd[1:-1]).replace(d + "/", "")
    if r.returncode != 0:
        return [("size-class:%s:pack-failed" % tool, "%s %s failed: %s" % (tool, opts, r.stderr.decode("utf-8", "replace")[-300:]),
                 None)]
    try:
        im = sqimg.Image(img)
    except Exception as e:  # noqa: BLE001
        return [("size-class:%s:image-unreadable" % tool, "%s %s: independent reader cannot decode the image: %r" % (tool, opts, e),
                 None)]
    mf = model_flags(drv, c)
    b = c["b"]
    probs = []
    if im.block_size != b:
        probs.append(("size-class:%s:block-size" % tool, "%s %s: super block says block size %d" % (tool, opts, im.block_size), None))
    for i, (nm, n) in enumerate(c["files"]):
        ino = im.files.get(nm)
        if ino is None or ino["file_size"] != n:
            probs.append(("size-class:%s:file-missing" % tool, "%s %s: %s (%d bytes) missing from the image or of another size"
                          % (tool, opts, nm, n), nm))
            continue
        listed = nm in c["df"]
        rule_df = listed or (c["notail"] and n > b)
        full, rem = divmod(n, b)
        has = ino["frag_idx"] != sqimg.NOFRAG
        want = rem > 0 and not rule_df
        tag = "%s %s: %s (%d bytes; data block %d, device block %d%s)" % (
            tool, opts, nm, n, b, c["B"] or DEFAULT_DEVBLK, "; dont_fragment in the sort file" if listed else "")
        if mf is not None and bool(mf[i] & DF) != rule_df:
            probs.append(("size-class:model-disagrees-with-rule", "%s: extracted pack_flags gives flag word %d, the property's "
                          "rule says dont_fragment=%s" % (tag, mf[i], rule_df), nm))
        if has != want:
            if has:
                sig = "dont_fragment:size-class" if listed else "no-tail-packing:large-file-keeps-tail"
                why = "dont_fragment is set for it" if listed else "-T applies to it (larger than one data block)"
                probs.append(("%s:%s" % (sig, tool), "%s keeps its tail in fragment %d although %s" % (tag, ino["frag_idx"], why), nm))
            elif c["notail"] and not listed:
                probs.append(("no-tail-packing:small-file-affected:%s" % tool, "%s lost its tail fragment (stored as %d block "
                              "words, no fragment) under -T although it is not larger than one data block: -T must affect "
                              "only files larger than one block" % (tag, len(ino["blocks"])), nm))
            else:
                probs.append(("fragment:missing:%s" % tool, "%s has no tail fragment although neither -T nor dont_fragment "
                              "applies to it" % tag, nm))
            continue
        nwant = full + (1 if rem and not want else 0)
        if len(ino["blocks"]) != nwant or any(sz == 0 for sz, _ in ino["blocks"]):
            probs.append(("size-class:%s:block-words" % tool, "%s: block words %r, expected %d non-empty ones"
                          % (tag, ino["blocks"], nwant), nm))
            continue
        if rem and not want:
            sz, comp = ino["blocks"][-1]
            if not comp and sz != rem:
                probs.append(("size-class:%s:short-block-size" % tool, "%s: short last block stored as %d raw bytes, tail has %d"
                              % (tag, sz, rem), nm))
        try:
            data = im.read_file(ino)
        except Exception as e:  # noqa: BLE001
            data = repr(e)
        if data != content(nm, n):
            probs.append(("size-class:%s:content" % tool, "%s: contents decoded from the image differ from the input" % tag, nm))
    return probs


def reduce_case(info, drv, c, probs, work):
    """the same options with only the file that shows the first problem (if that still shows it)"""
    sig, _, nm = probs[0]
    if nm is None or len(c["files"]) == 1:
        return c, probs
    small = dict(c, files=[f for f in c["files"] if f[0] == nm], df=[x for x in c["df"] if x == nm])
    p2 = run_case(info, drv, small, work)
    if p2 and p2[0][0] == sig:
        return small, p2
    return c, probs


def replay_obj(info, c, probs):
    rep = dict(c)
    rep["files"] = [list(f) for f in c["files"]]
    rep["content_rule"] = "file NAME of N bytes = first N bytes of the lines 'NAME#k squash block fragment inode size class\\n', k=0,1,.."
    rep["command"] = " ".join([c["tool"]] + command(info, c, "IMG", "DIR", "SORTFILE")[1:]) + \
        (" < ARCHIVE" if c["tool"] == "tar2sqfs" else "")
    if c["df"]:
        rep["sortfile"] = "".join("0 [dont_fragment] %s\n" % nm for nm in c["df"])
    if c["tool"] == "tar2sqfs" and sum(n for _, n in c["files"]) <= 40000:
        rep["tar_hex"] = make_tar(c["files"]).hex()
    rep["all_problems"] = [[s, w] for s, w, _ in probs[:10]]
    return rep


def case_of_replay(rp):
    return dict(kind="thresh", tool=rp["tool"], b=rp["b"], B=rp["B"], notail=rp["notail"],
                files=[(nm, n) for nm, n in rp["files"]], df=list(rp.get("df", [])))


def run_leg(ctx, info, drv, work, case_list):
    """-> (stats, [(case, probs)]) with every failing case already reduced"""
    st = dict(images=0, files=0, tar2sqfs=0, gensquashfs=0, with_T=0, with_dont_fragment=0, in_between_sizes=0, failing=0)
    bad = []
    for c in case_list:
        probs = run_case(info, drv, c, work)
        st["images"] += 1
        st[c["tool"]] += 1
        st["files"] += len(c["files"])
        st["with_T"] += int(c["notail"])
        st["with_dont_fragment"] += int(bool(c["df"]))
        lo, hi = sorted((c["b"], c["B"] or DEFAULT_DEVBLK))
        st["in_between_sizes"] += sum(1 for _, n in c["files"] if lo < n <= hi)
        if probs:
            st["failing"] += 1
            bad.append(reduce_case(info, drv, c, probs, work))
    return st, bad


def report(ctx, info, bad, seen, limit=4):
    n = 0
    for c, probs in bad:
        sig, what, _ = probs[0]
        if sig in seen or n >= limit:
            continue
        seen.add(sig)
        n += 1
        ctx.violation(sig, what, replay_obj(info, c, probs))
