"""C17 order leg: the packing order the MODEL predicts for (tree, sort file) vs. the data offsets of the real image.

Properties_C17.v layout_follows_sort_file is about OrderModel.pack_dir / pack_ops: directory scan (resp. the add
operations of a description file) -> fstree_post_process -> fstree_sort_files on the list post processing built ->
pack_files handing node k of the SORTED list to the block processor as file k.  run_order_is_order_dir/_ops: the
order component of that run is OrderModel.order_dir / order_ops, which is what this leg extracts
(coq/Extract/ExtractC17Order.v, driver_order.ml; fnmatch bound to libc's).

For generated trees whose files are incompressible and pairwise different at every block and tail (so neither
the compressor nor deduplication blurs the layout) the real `gensquashfs -D dir -S sortfile` resp.
`gensquashfs -F description -S sortfile` image is decoded with sqimg.py and compared EXACTLY with the prediction:
  * the files ordered by data start offset (those that store at least one block) = the model order restricted to them,
  * the files ordered by fragment reference (index, offset) (those with a tail end) = the model order restricted to them,
  * the `packing <path>` lines (for -F: the input files, mapped back to their nodes) = the model order,
  * the sort file is refused (exit status != 0, no image) iff the model says fstree_sort_files fails.
The sort files go beyond the simple grammar of the Python statement in check.py: quoted names with escapes, CRLF,
comment and blank lines, leading "/" and "./", padded flag lists, glob / glob_no_path, ties, negative priorities,
unlisted files, lines that match nothing, and (some) one malformed line."""
import os
import random
import shutil
import subprocess

from vlib import core

import sqimg

HERE = os.path.dirname(os.path.abspath(__file__))
ENV = dict(os.environ, ASAN_OPTIONS="detect_leaks=0", LC_ALL="C")
FLAGKW = [b"dont_compress", b"dont_fragment", b"dont_deduplicate", b"nosparse"]
NAMES = [b"a", b"b", b"c", b"d/e", b"d/f", b"d/g/h", b"k", b"m n", b"bin/ls", b"bin/cp", b"lib/x.so", b"z", b"d/q",
         b"bin/mk*", b"y?", b"w/v", b"d/g/i", b"lib/y\"q", b"e\\f", b"B", b"bin/[x]", b"a.b", b"d.e/f"]


def hexs(b):
    return b.hex() if b else "-"


def model_driver():
    return core.build_model_driver("C17order", "ExtractC17Order.v", os.path.join(HERE, "driver_order.ml"),
                                   stubs_c=os.path.join(HERE, "stubs.c"))


# ---------------------------------------------------------------------------------------------
# cases
# ---------------------------------------------------------------------------------------------

def gen_files(rnd, bs):
    """[(path, content)]: random bytes (incompressible, pairwise different with overwhelming probability)"""
    names = list(NAMES)
    rnd.shuffle(names)
    used, files = [], []
    for name in names:
        if len(files) >= rnd.randint(4, 8):
            break
        if any(name.startswith(u + b"/") or u.startswith(name + b"/") or u == name for u in used):
            continue
        used.append(name)
        k = rnd.choice([1, 1, 1, 2, 2, 3, 0])
        r = rnd.choice([0, 1, 17, 300, bs - 1]) if k else rnd.choice([1, 200, bs - 1, 0])
        files.append((name, distinct_bytes(rnd, len(files), bs, k * bs + r)))
    return files


def distinct_bytes(rnd, i, bs, n):
    """n random bytes; every block and the tail end start with the number of the file (and of the block), so no block
    and no tail end of two files of one tree are equal - not even a one-byte tail"""
    d = bytearray(rnd.randbytes(n))
    for b in range(0, n, bs):
        d[b] = i
        if b + 1 < n:
            d[b + 1] = b // bs
    return bytes(d)


def quote(name):
    return b'"' + name.replace(b"\\", b"\\\\").replace(b'"', b'\\"') + b'"'


def gen_sortfile(rnd, files):
    paths = [p for p, _ in files]
    lines = []
    malformed = rnd.random() < 0.08
    for _ in range(rnd.randint(1, 7)):
        r = rnd.random()
        if r < 0.1:
            lines.append(rnd.choice([b"# comment", b"", b"   ", b"#5 a"]))
            continue
        prio = rnd.choice([-10, -3, -1, 0, 1, 1, 2, 5, 5, 100, -9223372036854775806, 9223372036854775806])
        toks = [k for k in FLAGKW if rnd.random() < 0.25]
        plain = True
        r = rnd.random()
        if r < 0.5:
            name = rnd.choice(paths)
            k = rnd.random()
            if k < 0.15:
                name = b"/" + name
            elif k < 0.25:
                name = b"./" + name
            elif k < 0.3:
                name = name.replace(b"/", b"//")
        elif r < 0.9:
            p = rnd.choice(paths)
            k = rnd.random()
            if k < 0.25:
                name = b"*"
            elif k < 0.5 and b"/" in p:
                name = p.rsplit(b"/", 1)[0] + b"/*"
            elif k < 0.7:
                name = p[:1] + b"*"
            elif k < 0.85:
                name = p[:-1] + b"?"
            else:
                name = b"*/*"
            toks.append(rnd.choice([b"glob", b"glob_no_path"]))
            plain = False
        else:
            name = b"nothing/here"
        rnd.shuffle(toks)
        if plain and (b'"' in name or b"\\" in name or name.startswith(b"[")):
            q = True        # must be quoted to mean the file (an unquoted backslash / quote is taken literally, too)
        else:
            q = rnd.random() < 0.3
        sep = rnd.choice([b" ", b"  ", b"\t"])
        fl = b""
        if toks:
            pad = rnd.choice([b"", b" "])
            fl = b"[" + (pad + b"," + pad).join(toks) + b"]" + rnd.choice([b" ", b"  "])
        lines.append(b"%d" % prio + sep + fl + (quote(name) if q else name) + rnd.choice([b"", b"", b" "]))
    if malformed:
        bad = rnd.choice([b"x a", b"5a", b"5 [foo] a", b"5 [glob a", b'5 "a', b"5 a/../b", b"99999999999999999999 a", b"5 "])
        lines.insert(rnd.randint(0, len(lines)), bad)
    eol = rnd.choice([b"\n", b"\n", b"\r\n"])
    return eol.join(lines) + (eol if rnd.random() < 0.8 else b"")


def gen_cases(seed, n):
    rnd = random.Random(seed * 7919 + 17)
    cases = []
    for i in range(n):
        bs = rnd.choice([4096, 4096, 8192])
        files = gen_files(rnd, bs)
        mode = "F" if rnd.random() < 0.35 else "D"
        c = dict(kind="order", id=i, mode=mode, bs=bs, files=[(hexs(p), hexs(d)) for p, d in files],
                 sortfile=hexs(gen_sortfile(rnd, files)), notail=rnd.random() < 0.3, jobs=rnd.choice([1, 1, 3]),
                 shuffle=rnd.randint(0, 1 << 30))
        cases.append(c)
    return cases


def directed_cases(bs=4096):
    rb = random.Random(4242)
    cnt = [0]

    def f(n):
        cnt[0] += 1
        return distinct_bytes(rb, cnt[0], bs, n)
    out = []

    def mk(mode, files, sortfile, notail=False):
        out.append(dict(kind="order", id=100000 + len(out), mode=mode, bs=bs, files=[(hexs(p), hexs(d)) for p, d in files],
                        sortfile=hexs(sortfile), notail=notail, jobs=1, shuffle=len(out)))
    five = [(b"a", f(bs + 9)), (b"bin/cp", f(bs + 14)), (b"bin/ls", f(2 * bs + 14)), (b"lib/x", f(3)), (b"z", f(bs + 9))]
    # the Coq example: glob line, negative priority, tie, unlisted file, a later exact line that loses
    for mode in ("D", "F"):
        mk(mode, five, b"5 [glob] bin/*\n-3 [dont_compress] z\n5 a\n1 bin/ls\n")
        mk(mode, five, b"")                                      # empty sort file: default order
        mk(mode, five, b"# only a comment\n\n")
        mk(mode, five, b"-1 \"bin/ls\"\n-1 bin/cp\n-1 [glob_no_path] *\n", notail=True)   # all tied: default order
        mk(mode, five, b"3 z\n2 lib/x\n1 bin/ls\n0 bin/cp\n-1 a\n")                      # reversed
        mk(mode, five, b"5 [foo] a\n")                           # malformed: refused
    return out


# ---------------------------------------------------------------------------------------------
# sharing cases (audit 4, finding 1): identical files, files that are a sub-run of an earlier file, runs that
# overlap themselves - and the STRONG layout statement evaluated on the real image without the model
# ---------------------------------------------------------------------------------------------

def compressible(rnd, n, tag):
    words = [b"lorem", b"ipsum", b"dolor", b"sit", b"amet", b"%d" % tag, b"sed", b"do"]
    out = bytearray()
    while len(out) < n:
        out += rnd.choice(words) + b" "
    return bytes(out[:n])


def gen_share_files(rnd, bs):
    """[(path, content)] with planned coincidences: copies, sub-runs of another file at block boundaries, a repeated
    block, a common first block with a different rest, plus unrelated files; random and compressible data"""
    mk = (lambda n, tag: bytes(rnd.randbytes(n))) if rnd.random() < 0.6 else (lambda n, tag: compressible(rnd, n, tag))
    blocks = [mk(bs, k) for k in range(5)]
    tail = mk(rnd.choice([0, 17, 300]), 99)
    a = blocks[0] + blocks[1] + blocks[2] + tail
    pool = [a,
            a,                                             # identical
            blocks[1] + blocks[2] + tail,                  # a sub-run of a (ends with it)
            blocks[1] + tail,                              # a sub-run of a in the middle (one block)
            blocks[3] * 3,                                 # repeats its own first block
            blocks[3],                                     # ... and a file that is that block
            blocks[0] + blocks[4],                         # first block of a, then something else
            blocks[4] + blocks[0] + mk(5, 7),              # unrelated first block
            mk(2 * bs + 9, 8)]                             # unrelated
    rnd.shuffle(pool)
    names = [n for n in NAMES if not any(ch in n for ch in b' "\\*?[')]
    rnd.shuffle(names)
    used, files = [], []
    for name in names:
        if len(files) >= min(len(pool), rnd.randint(4, 7)):
            break
        if any(name.startswith(u + b"/") or u.startswith(name + b"/") or u == name for u in used):
            continue
        used.append(name)
        files.append((name, pool[len(files)]))
    return files


def gen_share_sortfile(rnd, files):
    """simple grammar only (exact names, no quotes): the statement below parses it itself"""
    lines = []
    for p, _ in files:
        if rnd.random() < 0.75:
            toks = [k for k in FLAGKW if rnd.random() < (0.35 if k == b"dont_deduplicate" else 0.12)]
            fl = (b"[" + b",".join(toks) + b"] ") if toks else b""
            lines.append(b"%d " % rnd.choice([-2, -1, 0, 1, 1, 2, 3]) + fl + p)
    rnd.shuffle(lines)
    return b"\n".join(lines) + b"\n"


def gen_share_cases(seed, n):
    rnd = random.Random(seed * 104729 + 5)
    cases = []
    for i in range(n):
        bs = 4096
        files = gen_share_files(rnd, bs)
        cases.append(dict(kind="order", share=True, id=200000 + i, mode="F" if rnd.random() < 0.3 else "D", bs=bs,
                          files=[(hexs(p), hexs(d)) for p, d in files], sortfile=hexs(gen_share_sortfile(rnd, files)),
                          notail=rnd.random() < 0.3, jobs=rnd.choice([1, 1, 3]), shuffle=rnd.randint(0, 1 << 30)))
    return cases


def directed_share_cases(bs=4096):
    rb = random.Random(777)
    X, Y, Z = rb.randbytes(bs), rb.randbytes(bs), rb.randbytes(bs)
    out = []

    def mk(files, sortfile, notail=False, mode="D"):
        out.append(dict(kind="order", share=True, id=300000 + len(out), mode=mode, bs=bs,
                        files=[(hexs(p), hexs(d)) for p, d in files], sortfile=hexs(sortfile), notail=notail, jobs=1,
                        shuffle=len(out)))
    two = [(b"a", X + Y + b"t1"), (b"z", X + Y + b"t1")]
    mk(two, b"-1 z\n")                                   # the Coq example: a is shared with z
    mk(two, b"-1 z\n0 [dont_deduplicate] a\n")           # ... unless it says dont_deduplicate
    mk(two, b"-1 [dont_deduplicate] z\n")                # the flag on the FIRST file protects nothing
    sub = [(b"a", X + Y + Z), (b"b", Y + Z), (b"c", Y), (b"d", Z + X)]
    mk(sub, b"")                                         # b and c are sub-runs of a
    mk(sub, b"5 a\n")                                    # a last: nothing to share with for b, c
    mk(sub, b"", mode="F")
    mk([(b"a", X), (b"b", X + X + X), (b"c", X + X)], b"")          # runs that overlap themselves
    mk([(b"a", X + b"tail-one"), (b"b", b"tail-one" + X[8:])], b"")  # a's tail end is a prefix of b's first block
    return out


def simple_flags(sortfile, path):
    """flags of the first line `prio [flags] path` naming exactly this path"""
    for line in sortfile.split(b"\n"):
        t = line.split()
        if len(t) >= 2 and t[-1] == path:
            return set(t[1].strip(b"[]").split(b",")) if len(t) == 3 else set()
    return set()


def file_blocks(d, bs, flags, notail):
    """(blocks the frontend submits, tail end) of a file with these sort-file flags (sqfs_block_processor frontend)"""
    n = len(d) // bs
    full = [d[k * bs:(k + 1) * bs] for k in range(n)]
    rest = d[n * bs:]
    if rest and (b"dont_fragment" in flags or (notail and len(d) > bs)):
        return full + [rest], None
    return full, (rest or None)


def kept(b, flags):
    return len(b) > 0 and (b"nosparse" in flags or any(b))


def share_statement(c, real):
    """the strong layout statement (Properties_C17 layout_follows_order_strong / distinct_data_laid_out_in_order) on the
    real image, in the tool's OWN packing order: a file that stores a block lies behind every file packed before it,
    or it has no dont_deduplicate and starts exactly where a stored block of an earlier-packed file (or a fragment
    block) with the same content as its first block starts, the following size words being those of its run; a file
    whose first kept block is no block of an earlier file and has no tail end as a prefix must lie behind.
    Returns (problems, shared file count)"""
    files = dict((unhex(p), unhex(d)) for p, d in c["files"])
    sortfile, bs, notail = unhex(c["sortfile"]), c["bs"], c["notail"]
    order = real["packing"]
    if sorted(order) != sorted(files):
        return ["packing lines %r do not name the files %r" % (order, sorted(files))], 0
    fl = {p: simple_flags(sortfile, p) for p in files}
    jb = {p: file_blocks(files[p], bs, fl[p], notail) for p in files}
    probs, nshared = [], 0
    for j, pj in enumerate(order):
        if pj not in real["ranges"]:
            continue
        sj, ej = real["ranges"][pj]
        kj = [b for b in jb[pj][0] if kept(b, fl[pj])]
        earlier = [p for p in order[:j] if p in real["ranges"]]
        behind = all(real["ranges"][p][1] <= sj for p in earlier)
        fresh = bool(kj) and all(kj[0] not in jb[p][0] for p in order[:j]) and \
            all(not (jb[p][1] and kj[0].startswith(jb[p][1])) for p in files)
        if behind:
            continue
        nshared += 1
        if fresh:
            probs.append("%r (first block new) starts at %d, inside data of files packed before it %r"
                         % (pj, sj, [(p, real["ranges"][p]) for p in earlier]))
            continue
        if b"dont_deduplicate" in fl[pj]:
            probs.append("%r carries dont_deduplicate but starts at %d, before the end of %r"
                         % (pj, sj, [(p, real["ranges"][p]) for p in earlier if real["ranges"][p][1] > sj]))
            continue
        # the witness: an earlier stored block at exactly this offset with the content of the first kept block
        wit = [(p, k) for p in earlier for (off, sz, comp, k) in real["blocks"][p]
               if off == sj and jb[p][0][k] == kj[0]]
        if not wit and not any(off == sj for off, _ in real["fragblocks"]):
            probs.append("%r starts at %d before the end of earlier files, but no block of an earlier file with the "
                         "content of its first block (and no fragment block) starts there" % (pj, sj))
            continue
        # the whole run stood there: every block of the run that lies inside the data of earlier files is, at exactly
        # that offset, a block of an earlier file with the same content (or a fragment block)
        nend = max(real["ranges"][p][1] for p in earlier)
        for off, sz, comp, k in real["blocks"][pj]:
            if off >= nend:
                break
            if not any(o == off and s2 == sz and jb[p][0][k2] == jb[pj][0][k]
                       for p in earlier for (o, s2, c2, k2) in real["blocks"][p]) and \
               not any(o == off for o, _ in real["fragblocks"]):
                probs.append("%r: block %d at %d lies inside the data of earlier files but is no block of theirs with "
                             "the same content" % (pj, k, off))
                break
    return probs, nshared


# ---------------------------------------------------------------------------------------------
# the two sides
# ---------------------------------------------------------------------------------------------

def unhex(s):
    return b"" if s == "-" else bytes.fromhex(s)


def model_text(c, dirpath, key):
    """the case as driver_order.ml reads it; key = the number the answer is filed under (position in the batch)"""
    files = [(unhex(p), unhex(d)) for p, d in c["files"]]
    rnd = random.Random(c["shuffle"])
    L = ["CASE %d" % key]
    if c["mode"] == "D":
        L.append("D")
        tree = {}
        for p, _ in files:
            node = tree
            comps = p.split(b"/")
            for comp in comps[:-1]:
                node = node.setdefault(comp, {})
            node[comps[-1]] = None
        ino = [10]

        def emit(node, depth):
            names = list(node)
            rnd.shuffle(names)               # readdir order: arbitrary (the repaired iterator sorts; so does the model)
            for nm in names:
                ino[0] += 1
                L.append("H %d %s %s %d" % (depth, hexs(nm), "f" if node[nm] is None else "d", ino[0]))
                if node[nm] is not None:
                    emit(node[nm], depth + 1)
        emit(tree, 0)
    else:
        L.append("F")
        for kind, p, loc in description_ops(c, dirpath):
            L.append("OP %s %s %s" % (kind, hexs(p), hexs(loc) if loc is not None else "~"))
    L.append("S " + hexs(unhex(c["sortfile"])))
    L.append("END")
    return "\n".join(L) + "\n"


def description_ops(c, dirpath):
    """the lines of the description file as (kind, path, location): the files and a random subset of their parent
    directories (each declared once; the others are created implicitly) in shuffled order - a `dir` line may come
    before or after the entries below it (then it fills in the implicitly created directory)"""
    files = [unhex(p) for p, _ in c["files"]]
    rnd = random.Random(c["shuffle"] + 1)
    ops = []
    parents = set()
    for i, p in enumerate(files):
        comps = p.split(b"/")
        for k in range(1, len(comps)):
            parents.add(b"/".join(comps[:k]))
        ops.append(("f", p, os.path.join(dirpath.encode(), b"f%d" % i)))
    for d in sorted(parents):
        if rnd.random() < 0.5:
            ops.append(("d", d, None))
    rnd.shuffle(ops)
    return ops


def needs_quote(s):
    return any(ch in s for ch in b' "\\\t')


def desc_quote(s):
    return quote(s) if needs_quote(s) else s


def run_real(info, c, work, with_sort=True):
    """returns dict(rc, packing, starts, frags, sizes) for the case (with_sort=False: the same tree without -S)"""
    G = info["tools"]["gensquashfs"]
    files = [(unhex(p), unhex(d)) for p, d in c["files"]]
    shutil.rmtree(work, ignore_errors=True)
    os.makedirs(work)
    sf = os.path.join(work, "sort.txt")
    open(sf, "wb").write(unhex(c["sortfile"]))
    img = os.path.join(work, "img.sqfs")
    cmd = [G, "-c", "gzip", "-b", str(c["bs"]), "-j", str(c["jobs"]), "-f"] + (["-S", sf] if with_sort else []) + \
          (["-T"] if c["notail"] else [])
    inputs = {}
    if c["mode"] == "D":
        ind = os.path.join(work, "in")
        for p, d in files:
            fp = os.path.join(ind.encode(), p)
            os.makedirs(os.path.dirname(fp), exist_ok=True)
            open(fp, "wb").write(d)
        cmd += ["-D", ind]
    else:
        src = os.path.join(work, "src")
        os.makedirs(src)
        for i, (p, d) in enumerate(files):
            open(os.path.join(src, "f%d" % i), "wb").write(d)
            inputs[os.path.join(src, "f%d" % i).encode()] = p
        lines = []
        for kind, p, loc in description_ops(c, src):
            if kind == "d":
                lines.append(b"dir " + desc_quote(b"/" + p) + b" 0755 0 0")
            else:
                lines.append(b"file " + desc_quote(b"/" + p) + b" 0644 0 0 " + desc_quote(loc))
        desc = os.path.join(work, "desc.txt")
        open(desc, "wb").write(b"\n".join(lines) + b"\n")
        cmd += ["-F", desc]
    r = subprocess.run(cmd + [img], stdout=subprocess.PIPE, stderr=subprocess.PIPE, env=ENV)
    res = dict(rc=r.returncode, stderr=r.stderr.decode("utf-8", "replace")[-300:])
    if r.returncode != 0:
        return res
    res["packing"] = [l[len(b"packing "):] for l in r.stdout.split(b"\n") if l.startswith(b"packing ")]
    if c["mode"] == "F":      # pack_files prints the input file it opens: back to the node it stands for
        res["packing"] = [inputs.get(l, l) for l in res["packing"]]
    im = sqimg.Image(img)
    starts, frags, sizes, ranges, blocks = {}, {}, {}, {}, {}
    for path, ino in im.files.items():
        p = path.encode("utf-8", "surrogateescape")
        sizes[p] = ino["file_size"]
        rng = im.data_range(ino)
        if rng is not None:
            starts[p] = rng[0]
            ranges[p] = rng
            pos, bl = ino["blocks_start"], []
            for k, (sz, comp) in enumerate(ino["blocks"]):
                if sz:
                    bl.append((pos, sz, comp, k))      # (offset, on-disk size, compressed?, block number in the file)
                pos += sz
            blocks[p] = bl
        if ino["frag_idx"] != sqimg.NOFRAG:
            frags[p] = (ino["frag_idx"], ino["frag_off"])
    res.update(starts=starts, frags=frags, sizes=sizes, ranges=ranges, blocks=blocks,
               fragblocks=[(f[0], f[1] & 0xFFFFFF) for f in im.frags], image=im.img)
    return res


def run_model(drv, cases, workroot):
    text = "".join(model_text(c, os.path.join(workroot, "src"), k) for k, c in enumerate(cases))
    r = subprocess.run([drv], input=text.encode(), stdout=subprocess.PIPE, stderr=subprocess.PIPE)
    out = {}
    cur = None
    for line in r.stdout.decode().split("\n"):
        w = line.split(" ")
        if w[0] == "CASE":
            cur = int(w[1])
        elif w[0] == "ORDER" and cur is not None:
            out[cur] = [(unhex(t.split(":")[0]), int(t.split(":")[1]), int(t.split(":")[2]), int(t.split(":")[3]))
                        for t in w[1:] if t]
        elif w[0] == "ERR" and cur is not None:
            out[cur] = w[1]
    return out, (r.returncode, r.stderr.decode("utf-8", "replace")[-300:])


def compare(c, pred, real):
    """list of (what) disagreements between the model's prediction and the real image"""
    files = dict((unhex(p), unhex(d)) for p, d in c["files"])
    if isinstance(pred, str):
        if pred == "sort":
            return [] if real["rc"] != 0 else ["model: fstree_sort_files refuses the sort file; gensquashfs accepted it"]
        return ["model could not build the tree (%s)" % pred]
    if real["rc"] != 0:
        return ["model: sort file accepted, order %r; gensquashfs failed: %s" % ([p for p, _, _, _ in pred], real["stderr"])]
    order = [p for p, _, _, _ in pred]
    probs = []
    if sorted(order) != sorted(files) or sorted(real["sizes"]) != sorted(files):
        return ["file sets differ: model %r, image %r, input %r" % (sorted(order), sorted(real["sizes"]), sorted(files))]
    if c.get("share"):
        # contents coincide on purpose: offsets are not a function of the order alone; the order itself is
        if real["packing"] != order:
            probs.append("pack_file calls in order %r, model %r" % (real["packing"], order))
        return probs
    by_start = sorted(real["starts"], key=lambda p: real["starts"][p])
    want = [p for p in order if p in real["starts"]]
    if by_start != want:
        probs.append("files by data start offset %r, model's packing order (files that store a block) %r"
                     % ([(p, real["starts"][p]) for p in by_start], want))
    if len(set(real["starts"].values())) != len(real["starts"]):
        probs.append("two files start at the same offset although all contents differ: %r" % (real["starts"],))
    by_frag = sorted(real["frags"], key=lambda p: real["frags"][p])
    wantf = [p for p in order if p in real["frags"]]
    if by_frag != wantf:
        probs.append("files by fragment reference %r, model's packing order (files with a tail end) %r"
                     % ([(p, real["frags"][p]) for p in by_frag], wantf))
    if real["packing"] != order:
        probs.append("pack_file calls in order %r, model %r" % (real["packing"], order))
    return probs


def run_leg(ctx, info, cases):
    drv = model_driver()
    workroot = os.path.join(ctx.scratch, "order")
    os.makedirs(workroot, exist_ok=True)
    work = os.path.join(workroot, "w")
    # the description files name their inputs with the path they will have in `work`
    preds, drv_status = run_model(drv, cases, work)
    res = dict(bad=[], share_bad=[], stats=dict(cases=0, refused=0, reordered=0, with_flags=0, mode_F=0, share_cases=0,
                                                files_shared=0), samples=[], drv=drv_status)
    for k, c in enumerate(cases):
        pred = preds.get(k, "no-output")
        real = run_real(info, c, work)
        res["stats"]["cases"] += 1
        res["stats"]["mode_F"] += int(c["mode"] == "F")
        if isinstance(pred, str):
            res["stats"]["refused"] += int(pred == "sort")
        else:
            res["stats"]["reordered"] += int([i for _, i, _, _ in pred] != sorted(i for _, i, _, _ in pred))
            res["stats"]["with_flags"] += int(any(fl for _, _, _, fl in pred))
        probs = compare(c, pred, real)
        if c.get("share") and real["rc"] == 0:
            sp, nshared = share_statement(c, real)
            res["stats"]["share_cases"] += 1
            res["stats"]["files_shared"] += nshared
            if sp:
                res["share_bad"].append((c, sp))
        real.pop("image", None)
        if probs:
            res["bad"].append((c, probs, pred if isinstance(pred, str) else [(p.decode("latin-1"), i, z, fl) for p, i, z, fl in pred]))
        elif len(res["samples"]) < 3 and not isinstance(pred, str):
            res["samples"].append(dict(kind="order", sortfile=unhex(c["sortfile"]).decode("latin-1"),
                                       order=[p.decode("latin-1") for p, _, _, _ in pred],
                                       data_starts=sorted((v, p.decode("latin-1")) for p, v in real["starts"].items())))
    return res
