"""C17 order leg: the packing order the MODEL predicts for (tree, sort file) vs. the data offsets of the real image.

Properties_C17.v layout_follows_sort_file is about OrderModel.pack_dir / pack_ops: directory scan (resp. the add
operations of a description file) -> fstree_post_process -> fstree_sort_files on the list post processing built ->
pack_files handing node k of the SORTED list to the block processor as file k.  run_order_is_order_dir/_ops: the
order component of that run is OrderModel.order_dir / order_ops, which is what this leg extracts
(coq/Extract/ExtractC17Order.v, driver_order.ml; fnmatch bound to libc's).

For generated trees whose files are incompressible and pairwise different at every block and tail (so neither
the compressor nor deduplication blurs the layout) the real `gensquashfs -D dir -S sortfile` resp.
`gensquashfs -F description -S sortfile` image is decoded with sqimg.py and compared EXACTLY with the prediction:
  * the files ordered by data start offset (those that store at least one block) = the model order restricted to them,
  * the files ordered by fragment reference (index, offset) (those with a tail end) = the model order restricted to them,
  * the `packing <path>` lines (for -F: the input files, mapped back to their nodes) = the model order,
  * the sort file is refused (exit status != 0, no image) iff the model says fstree_sort_files fails.
The sort files go beyond the simple grammar of the Python statement in check.py: quoted names with escapes, CRLF,
comment and blank lines, leading "/" and "./", padded flag lists, glob / glob_no_path, ties, negative priorities,
unlisted files, lines that match nothing, and (some) one malformed line."""
import os
import random
import shutil
import subprocess

from vlib import core

import sqimg

HERE = os.path.dirname(os.path.abspath(__file__))
ENV = dict(os.environ, ASAN_OPTIONS="detect_leaks=0", LC_ALL="C")
FLAGKW = [b"dont_compress", b"dont_fragment", b"dont_deduplicate", b"nosparse"]
NAMES = [b"a", b"b", b"c", b"d/e", b"d/f", b"d/g/h", b"k", b"m n", b"bin/ls", b"bin/cp", b"lib/x.so", b"z", b"d/q",
         b"bin/mk*", b"y?", b"w/v", b"d/g/i", b"lib/y\"q", b"e\\f", b"B", b"bin/[x]", b"a.b", b"d.e/f"]


def hexs(b):
    return b.hex() if b else "-"


def model_driver():
    return core.build_model_driver("C17order", "ExtractC17Order.v", os.path.join(HERE, "driver_order.ml"),
                                   stubs_c=os.path.join(HERE, "stubs.c"))


# ---------------------------------------------------------------------------------------------
# cases
# ---------------------------------------------------------------------------------------------

def gen_files(rnd, bs):
    """[(path, content)]: random bytes (incompressible, pairwise different with overwhelming probability)"""
    names = list(NAMES)
    rnd.shuffle(names)
    used, files = [], []
    for name in names:
        if len(files) >= rnd.randint(4, 8):
            break
        if any(name.startswith(u + b"/") or u.startswith(name + b"/") or u == name for u in used):
            continue
        used.append(name)
        k = rnd.choice([1, 1, 1, 2, 2, 3, 0])
        r = rnd.choice([0, 1, 17, 300, bs - 1]) if k else rnd.choice([1, 200, bs - 1, 0])
        files.append((name, distinct_bytes(rnd, len(files), bs, k * bs + r)))
    return files


def distinct_bytes(rnd, i, bs, n):
    """n random bytes; every block and the tail end start with the number of the file (and of the block), so no block
    and no tail end of two files of one tree are equal - not even a one-byte tail"""
    d = bytearray(rnd.randbytes(n))
    for b in range(0, n, bs):
        d[b] = i
        if b + 1 < n:
            d[b + 1] = b // bs
    return bytes(d)


def quote(name):
    return b'"' + name.replace(b"\\", b"\\\\").replace(b'"', b'\\"') + b'"'


def gen_sortfile(rnd, files):
    paths = [p for p, _ in files]
    lines = []
    malformed = rnd.random() < 0.08
    for _ in range(rnd.randint(1, 7)):
        r = rnd.random()
        if r < 0.1:
            lines.append(rnd.choice([b"# comment", b"", b"   ", b"#5 a"]))
            continue
        prio = rnd.choice([-10, -3, -1, 0, 1, 1, 2, 5, 5, 100, -9223372036854775806, 9223372036854775806])
        toks = [k for k in FLAGKW if rnd.random() < 0.25]
        plain = True
        r = rnd.random()
        if r < 0.5:
            name = rnd.choice(paths)
            k = rnd.random()
            if k < 0.15:
                name = b"/" + name
            elif k < 0.25:
                name = b"./" + name
            elif k < 0.3:
                name = name.replace(b"/", b"//")
        elif r < 0.9:
            p = rnd.choice(paths)
            k = rnd.random()
            if k < 0.25:
                name = b"*"
            elif k < 0.5 and b"/" in p:
                name = p.rsplit(b"/", 1)[0] + b"/*"
            elif k < 0.7:
                name = p[:1] + b"*"
            elif k < 0.85:
                name = p[:-1] + b"?"
            else:
                name = b"*/*"
            toks.append(rnd.choice([b"glob", b"glob_no_path"]))
            plain = False
        else:
            name = b"nothing/here"
        rnd.shuffle(toks)
        if plain and (b'"' in name or b"\\" in name or name.startswith(b"[")):
            q = True        # must be quoted to mean the file (an unquoted backslash / quote is taken literally, too)
        else:
            q = rnd.random() < 0.3
        sep = rnd.choice([b" ", b"  ", b"\t"])
        fl = b""
        if toks:
            pad = rnd.choice([b"", b" "])
            fl = b"[" + (pad + b"," + pad).join(toks) + b"]" + rnd.choice([b" ", b"  "])
        lines.append(b"%d" % prio + sep + fl + (quote(name) if q else name) + rnd.choice([b"", b"", b" "]))
    if malformed:
        bad = rnd.choice([b"x a", b"5a", b"5 [foo] a", b"5 [glob a", b'5 "a', b"5 a/../b", b"99999999999999999999 a", b"5 "])
        lines.insert(rnd.randint(0, len(lines)), bad)
    eol = rnd.choice([b"\n", b"\n", b"\r\n"])
    return eol.join(lines) + (eol if rnd.random() < 0.8 else b"")


def gen_cases(seed, n):
    rnd = random.Random(seed * 7919 + 17)
    cases = []
    for i in range(n):
        bs = rnd.choice([4096, 4096, 8192])
        files = gen_files(rnd, bs)
        mode = "F" if rnd.random() < 0.35 else "D"
        c = dict(kind="order", id=i, mode=mode, bs=bs, files=[(hexs(p), hexs(d)) for p, d in files],
                 sortfile=hexs(gen_sortfile(rnd, files)), notail=rnd.random() < 0.3, jobs=rnd.choice([1, 1, 3]),
                 shuffle=rnd.randint(0, 1 << 30))
        cases.append(c)
    return cases


def directed_cases(bs=4096):
    rb = random.Random(4242)
    cnt = [0]

    def f(n):
        cnt[0] += 1
        return distinct_bytes(rb, cnt[0], bs, n)
    out = []

    def mk(mode, files, sortfile, notail=False):
        out.append(dict(kind="order", id=100000 + len(out), mode=mode, bs=bs, files=[(hexs(p), hexs(d)) for p, d in files],
                        sortfile=hexs(sortfile), notail=notail, jobs=1, shuffle=len(out)))
    five = [(b"a", f(bs + 9)), (b"bin/cp", f(bs + 14)), (b"bin/ls", f(2 * bs + 14)), (b"lib/x", f(3)), (b"z", f(bs + 9))]
    # the Coq example: glob line, negative priority, tie, unlisted file, a later exact line that loses
    for mode in ("D", "F"):
        mk(mode, five, b"5 [glob] bin/*\n-3 [dont_compress] z\n5 a\n1 bin/ls\n")
        mk(mode, five, b"")                                      # empty sort file: default order
        mk(mode, five, b"# only a comment\n\n")
        mk(mode, five, b"-1 \"bin/ls\"\n-1 bin/cp\n-1 [glob_no_path] *\n", notail=True)   # all tied: default order
        mk(mode, five, b"3 z\n2 lib/x\n1 bin/ls\n0 bin/cp\n-1 a\n")                      # reversed
        mk(mode, five, b"5 [foo] a\n")                           # malformed: refused
    return out


# ---------------------------------------------------------------------------------------------
# the two sides
# ---------------------------------------------------------------------------------------------

def unhex(s):
    return b"" if s == "-" else bytes.fromhex(s)


def model_text(c, dirpath, key):
    """the case as driver_order.ml reads it; key = the number the answer is filed under (position in the batch)"""
    files = [(unhex(p), unhex(d)) for p, d in c["files"]]
    rnd = random.Random(c["shuffle"])
    L = ["CASE %d" % key]
    if c["mode"] == "D":
        L.append("D")
        tree = {}
        for p, _ in files:
            node = tree
            comps = p.split(b"/")
            for comp in comps[:-1]:
                node = node.setdefault(comp, {})
            node[comps[-1]] = None
        ino = [10]

        def emit(node, depth):
            names = list(node)
            rnd.shuffle(names)               # readdir order: arbitrary (the repaired iterator sorts; so does the model)
            for nm in names:
                ino[0] += 1
                L.append("H %d %s %s %d" % (depth, hexs(nm), "f" if node[nm] is None else "d", ino[0]))
                if node[nm] is not None:
                    emit(node[nm], depth + 1)
        emit(tree, 0)
    else:
        L.append("F")
        for kind, p, loc in description_ops(c, dirpath):
            L.append("OP %s %s %s" % (kind, hexs(p), hexs(loc) if loc is not None else "~"))
    L.append("S " + hexs(unhex(c["sortfile"])))
    L.append("END")
    return "\n".join(L) + "\n"


def description_ops(c, dirpath):
    """the lines of the description file as (kind, path, location): the files and a random subset of their parent
    directories (each declared once; the others are created implicitly) in shuffled order - a `dir` line may come
    before or after the entries below it (then it fills in the implicitly created directory)"""
    files = [unhex(p) for p, _ in c["files"]]
    rnd = random.Random(c["shuffle"] + 1)
    ops = []
    parents = set()
    for i, p in enumerate(files):
        comps = p.split(b"/")
        for k in range(1, len(comps)):
            parents.add(b"/".join(comps[:k]))
        ops.append(("f", p, os.path.join(dirpath.encode(), b"f%d" % i)))
    for d in sorted(parents):
        if rnd.random() < 0.5:
            ops.append(("d", d, None))
    rnd.shuffle(ops)
    return ops


def needs_quote(s):
    return any(ch in s for ch in b' "\\\t')


def desc_quote(s):
    return quote(s) if needs_quote(s) else s


def run_real(info, c, work, with_sort=True):
    """returns dict(rc, packing, starts, frags, sizes) for the case (with_sort=False: the same tree without -S)"""
    G = info["tools"]["gensquashfs"]
    files = [(unhex(p), unhex(d)) for p, d in c["files"]]
    shutil.rmtree(work, ignore_errors=True)
    os.makedirs(work)
    sf = os.path.join(work, "sort.txt")
    open(sf, "wb").write(unhex(c["sortfile"]))
    img = os.path.join(work, "img.sqfs")
    cmd = [G, "-c", "gzip", "-b", str(c["bs"]), "-j", str(c["jobs"]), "-f"] + (["-S", sf] if with_sort else []) + \
          (["-T"] if c["notail"] else [])
    inputs = {}
    if c["mode"] == "D":
        ind = os.path.join(work, "in")
        for p, d in files:
            fp = os.path.join(ind.encode(), p)
            os.makedirs(os.path.dirname(fp), exist_ok=True)
            open(fp, "wb").write(d)
        cmd += ["-D", ind]
    else:
        src = os.path.join(work, "src")
        os.makedirs(src)
        for i, (p, d) in enumerate(files):
            open(os.path.join(src, "f%d" % i), "wb").write(d)
            inputs[os.path.join(src, "f%d" % i).encode()] = p
        lines = []
        for kind, p, loc in description_ops(c, src):
            if kind == "d":
                lines.append(b"dir " + desc_quote(b"/" + p) + b" 0755 0 0")
            else:
                lines.append(b"file " + desc_quote(b"/" + p) + b" 0644 0 0 " + desc_quote(loc))
        desc = os.path.join(work, "desc.txt")
        open(desc, "wb").write(b"\n".join(lines) + b"\n")
        cmd += ["-F", desc]
    r = subprocess.run(cmd + [img], stdout=subprocess.PIPE, stderr=subprocess.PIPE, env=ENV)
    res = dict(rc=r.returncode, stderr=r.stderr.decode("utf-8", "replace")[-300:])
    if r.returncode != 0:
        return res
    res["packing"] = [l[len(b"packing "):] for l in r.stdout.split(b"\n") if l.startswith(b"packing ")]
    if c["mode"] == "F":      # pack_files prints the input file it opens: back to the node it stands for
        res["packing"] = [inputs.get(l, l) for l in res["packing"]]
    im = sqimg.Image(img)
    starts, frags, sizes = {}, {}, {}
    for path, ino in im.files.items():
        p = path.encode("utf-8", "surrogateescape")
        sizes[p] = ino["file_size"]
        rng = im.data_range(ino)
        if rng is not None:
            starts[p] = rng[0]
        if ino["frag_idx"] != sqimg.NOFRAG:
            frags[p] = (ino["frag_idx"], ino["frag_off"])
    res.update(starts=starts, frags=frags, sizes=sizes)
    return res


def run_model(drv, cases, workroot):
    text = "".join(model_text(c, os.path.join(workroot, "src"), k) for k, c in enumerate(cases))
    r = subprocess.run([drv], input=text.encode(), stdout=subprocess.PIPE, stderr=subprocess.PIPE)
    out = {}
    cur = None
    for line in r.stdout.decode().split("\n"):
        w = line.split(" ")
        if w[0] == "CASE":
            cur = int(w[1])
        elif w[0] == "ORDER" and cur is not None:
            out[cur] = [(unhex(t.split(":")[0]), int(t.split(":")[1]), int(t.split(":")[2]), int(t.split(":")[3]))
                        for t in w[1:] if t]
        elif w[0] == "ERR" and cur is not None:
            out[cur] = w[1]
    return out, (r.returncode, r.stderr.decode("utf-8", "replace")[-300:])


def compare(c, pred, real):
    """list of (what) disagreements between the model's prediction and the real image"""
    files = dict((unhex(p), unhex(d)) for p, d in c["files"])
    if isinstance(pred, str):
        if pred == "sort":
            return [] if real["rc"] != 0 else ["model: fstree_sort_files refuses the sort file; gensquashfs accepted it"]
        return ["model could not build the tree (%s)" % pred]
    if real["rc"] != 0:
        return ["model: sort file accepted, order %r; gensquashfs failed: %s" % ([p for p, _, _, _ in pred], real["stderr"])]
    order = [p for p, _, _, _ in pred]
    probs = []
    if sorted(order) != sorted(files) or sorted(real["sizes"]) != sorted(files):
        return ["file sets differ: model %r, image %r, input %r" % (sorted(order), sorted(real["sizes"]), sorted(files))]
    by_start = sorted(real["starts"], key=lambda p: real["starts"][p])
    want = [p for p in order if p in real["starts"]]
    if by_start != want:
        probs.append("files by data start offset %r, model's packing order (files that store a block) %r"
                     % ([(p, real["starts"][p]) for p in by_start], want))
    if len(set(real["starts"].values())) != len(real["starts"]):
        probs.append("two files start at the same offset although all contents differ: %r" % (real["starts"],))
    by_frag = sorted(real["frags"], key=lambda p: real["frags"][p])
    wantf = [p for p in order if p in real["frags"]]
    if by_frag != wantf:
        probs.append("files by fragment reference %r, model's packing order (files with a tail end) %r"
                     % ([(p, real["frags"][p]) for p in by_frag], wantf))
    if real["packing"] != order:
        probs.append("pack_file calls in order %r, model %r" % (real["packing"], order))
    return probs


def run_leg(ctx, info, cases):
    drv = model_driver()
    workroot = os.path.join(ctx.scratch, "order")
    os.makedirs(workroot, exist_ok=True)
    work = os.path.join(workroot, "w")
    # the description files name their inputs with the path they will have in `work`
    preds, drv_status = run_model(drv, cases, work)
    res = dict(bad=[], stats=dict(cases=0, refused=0, reordered=0, with_flags=0, mode_F=0), samples=[], drv=drv_status)
    for k, c in enumerate(cases):
        pred = preds.get(k, "no-output")
        real = run_real(info, c, work)
        res["stats"]["cases"] += 1
        res["stats"]["mode_F"] += int(c["mode"] == "F")
        if isinstance(pred, str):
            res["stats"]["refused"] += int(pred == "sort")
        else:
            res["stats"]["reordered"] += int([i for _, i, _, _ in pred] != sorted(i for _, i, _, _ in pred))
            res["stats"]["with_flags"] += int(any(fl for _, _, _, fl in pred))
        probs = compare(c, pred, real)
        if probs:
            res["bad"].append((c, probs, pred if isinstance(pred, str) else [(p.decode("latin-1"), i, z, fl) for p, i, z, fl in pred]))
        elif len(res["samples"]) < 3 and not isinstance(pred, str):
            res["samples"].append(dict(kind="order", sortfile=unhex(c["sortfile"]).decode("latin-1"),
                                       order=[p.decode("latin-1") for p, _, _, _ in pred],
                                       data_starts=sorted((v, p.decode("latin-1")) for p, v in real["starts"].items())))
    return res
