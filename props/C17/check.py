"""C17 -- packing directives (sort file, -T, -e) are honoured exactly in the on-disk layout.

Theorems: coq/Properties_C17.v about coq/C17/SortModel.v (sort_by_file.c completely, the flag
computation of pack_file / write_file).
Tie 1 (exact): extracted sort_files vs fstree_sort_files of the working tree (h_sort.c) on generated
  (file list, sort file) pairs; fnmatch on the model side is libc's, bound through stubs.c.
Tie 2 (exact): extracted pack_flags vs pack_file (mkfs.c) and write_file (process_tarball.c) with the
  call into the block processor redirected to a recorder (h_pack.c).
Search oracle: (a) an independent Python statement of "stable sort by first matching line" evaluated on
  the C harness output; (b) tool level: gensquashfs with a sort file x -T -e -b -j, image decoded by the
  independent reader sqimg.py: pack order, data start offsets, per-block compressed bits / sparse words,
  fragment references, fragment-block compression, sharing with earlier files, export table; contents
  and tree read back with rdsquashfs and compared with the input and with an image packed without
  directives.
Tie 3 (exact) + component oracle: flagleg.py -- extracted FlagModel.tool_pack (pack_flags + C08's block
  processor / block writer model, the function the "directive effects" theorems are about) vs the working
  tree's block processor + block writer driven by props/C08/h_dedup.c on generated (flag word, content)
  lists: per file block start, size words, fragment reference; fragment table; output bytes.  The
  statements of the theorems are also evaluated directly on the harness output.
Tie 4 (exact): orderleg.py -- extracted OrderModel.order_dir / order_ops (directory scan resp. add operations ->
  fstree_post_process -> fstree_sort_files on that list -> the list pack_files iterates: the function
  layout_follows_sort_file is about) vs the real gensquashfs -D/-F -S image of trees with incompressible, pairwise
  different contents: files by data start offset, files by fragment reference, `packing` lines, acceptance.
Tie 5 (exact) + line oracle: lineleg.py -- extracted SortFileModel.parse_sort_line / print_sort_line vs ONE iteration of
  the line loop of fstree_sort_files (istream_get_line, '#', decode_priority, decode_flags, decode_filename; h_line.c) on
  lines printed by the extracted printer from generated entries (the round-trip theorem evaluated on the real decoders),
  the same entries in the other documented spellings, and one-defect malformed lines by class."""
import ctypes
import glob as globmod
import json
import os
import random
import re
import shutil
import subprocess
import sys
import zlib

from vlib import build as B
from vlib import core

HERE = os.path.dirname(os.path.abspath(__file__))
sys.path.insert(0, HERE)
import sqimg  # noqa: E402
import flagleg  # noqa: E402
import orderleg  # noqa: E402
import lineleg  # noqa: E402
import threshleg  # noqa: E402

LEVEL = "proof"
ENV = dict(os.environ, ASAN_OPTIONS="detect_leaks=0", LC_ALL="C")

F_DONT_COMPRESS, F_DONT_FRAGMENT, F_DONT_DEDUP, F_NOSPARSE = 1, 4, 8, 16
KW = {b"dont_compress": F_DONT_COMPRESS, b"dont_fragment": F_DONT_FRAGMENT,
      b"dont_deduplicate": F_DONT_DEDUP, b"nosparse": F_NOSPARSE}
KWS = [b"glob", b"glob_no_path"] + list(KW)

_libc = ctypes.CDLL(None)
_libc.fnmatch.argtypes = [ctypes.c_char_p, ctypes.c_char_p, ctypes.c_int]
FNM_PATHNAME = 1


def c_fnmatch(pat, path, pathname):
    return _libc.fnmatch(pat, path, FNM_PATHNAME if pathname else 0) == 0


def hexs(b):
    return b.hex() if b else "-"


def unhex(s):
    return b"" if s == "-" else bytes.fromhex(s)


# ---------------------------------------------------------------------------------------------
# constants of the headers the proofs depend on
# ---------------------------------------------------------------------------------------------

def regen_gen_c17(ctx):
    d = os.path.join(ctx.scratch, "gen")
    os.makedirs(d, exist_ok=True)
    exe = os.path.join(d, "gc")
    shutil.copy(B.config_h_path(), os.path.join(d, "config.h"))     # the fallback is not called config.h
    rc, out = core.sh(["gcc", "-w", "-I" + os.path.join(B.REPO, "include"), "-I" + d,
                       os.path.join(HERE, "gen_c17.c"), "-o", exe])
    if rc != 0:
        ctx.proof_broken.append("props/C17/gen_c17.c does not compile against the current headers: " + out[-800:])
        return
    rc, txt = core.sh([exe])
    dst = os.path.join(core.COQ, "C17", "GenC17.v")
    with core.Lock("coq"):
        old = open(dst).read() if os.path.exists(dst) else None
        if rc == 0 and old != txt:
            open(dst, "w").write(txt)
            changed = True
        else:
            changed = False
    if changed:
        ctx.log("C17/GenC17.v changed -> re-checking the proofs against the new header values")
        ctx.proof_broken[:] = []
        core.prepare_proofs(ctx)


# ---------------------------------------------------------------------------------------------
# independent statement of the sort-file semantics for "simple" lines (third opinion)
# ---------------------------------------------------------------------------------------------

WS = b" \t\r\v\f"
SIMPLE = re.compile(rb"^(-?[0-9]{1,18})[ \t]+(?:\[([a-z_, ]*)\][ \t]+)?([^\s\"\[][^\n]*)$", re.S)


def py_canon(p):
    comps = [c for c in p.split(b"/") if c]
    if b".." in comps:
        return None
    return b"/".join(c for c in comps if c != b".")


def py_parse_simple(text):
    """list of (prio, glob, pathglob, flags, name) or None if some line is outside the simple grammar"""
    if b"\0" in text:
        return None
    out = []
    for raw in text.split(b"\n"):
        line = raw.strip(WS)
        if not line or line[:1] == b"#":
            continue
        m = SIMPLE.match(line)
        if not m:
            return None
        prio = int(m.group(1))
        glob = pathglob = False
        flags = 0
        if m.group(2):
            for tok in m.group(2).split(b","):
                tok = tok.strip(WS)
                if tok == b"glob":
                    glob, pathglob = True, True
                elif tok == b"glob_no_path":
                    glob, pathglob = True, False
                elif tok in KW:
                    flags |= KW[tok]
                else:
                    return None          # unknown / empty token: outside the simple grammar
        name = py_canon(m.group(3))
        if name is None:
            return None
        out.append((prio, glob, pathglob, flags, name))
    return out


def py_assign(dirs, cpath):
    for prio, glob, pathglob, flags, name in dirs:
        if (c_fnmatch(name, cpath, pathglob) if glob else name == cpath):
            return prio, flags
    return 0, 0


def py_expected(dirs, cpaths):
    """[(id, prio, flags)] in the order the property demands"""
    ann = []
    for i, p in enumerate(cpaths):
        pr, fl = py_assign(dirs, p)
        ann.append((i, pr, fl))
    return sorted(ann, key=lambda t: t[1])     # Python's sort is stable


def parse_out(s):
    if s == "-":
        return []
    return [tuple(int(x) for x in e.split(":")) for e in s.split(",")]


def sort_oracle(text, raw_paths, rc, out):
    """property evaluated directly on the harness output; returns a description of a violation or None"""
    if rc != 0:
        dirs = py_parse_simple(text)
        if dirs is not None:
            return "a sort file made of well-formed simple lines was refused (rc=%d)" % rc
        return None
    n = len(raw_paths)
    ids = [t[0] for t in out]
    if sorted(ids) != list(range(n)):
        return "output list is not a permutation of the input list: %r" % (ids,)
    for a, b in zip(out, out[1:]):
        if a[1] > b[1]:
            return "output not sorted by priority: %r before %r" % (a, b)
        if a[1] == b[1] and a[0] > b[0]:
            return "not stable: files #%d and #%d have equal priority %d but swapped order" % (b[0], a[0], a[1])
    dirs = py_parse_simple(text)
    if dirs is None:
        return None
    cpaths = [py_canon(p) for p in raw_paths]
    if any(c is None for c in cpaths) or len(set(cpaths)) != len(cpaths):
        return None
    exp = py_expected(dirs, cpaths)
    if exp != out:
        for e, o in zip(exp, out):
            if e != o:
                return ("first-match/flags: expected (file#,prio,flags)=%r from the first matching line, "
                        "implementation has %r (file %r)" % (e, o, cpaths[e[0]]))
    return None


# ---------------------------------------------------------------------------------------------
# generators
# ---------------------------------------------------------------------------------------------

COMPS = [b"a", b"b", b"bin", b"lib", b"c", b"x y", b"q\"t", b"b\\s", b"st*r", b"[k]", b"w?", b"c#d", b" lead",
         b"trail ", b"\xc3\xbc", b"...", b"a.b", b"-n", b"b c", b"mk", b"mkdir", b"ch", b"chmod", b"0", b"#h", b"]"]
PRIOS = ["0", "1", "-1", "2", "-2", "5", "-5", "7", "10", "-10000", "007", "-0", "00",
         "9223372036854775806", "-9223372036854775806", "9223372036854775805", "1844674407370955160"]
BAD_PRIOS = ["9223372036854775807", "-9223372036854775807", "9223372036854775808", "18446744073709551615",
             "18446744073709551616", "18446744073709551609", "1844674407370955161", "99999999999999999999999",
             "+5", "- 5", "", "x", "0x10", "-", "--1", "1e3", "5.0"]


def gen_paths(rnd):
    n = rnd.choice([0, 1, 2, 3, 4, 5, 6, 8, 12])
    out = []
    for _ in range(n):
        depth = rnd.choice([1, 1, 2, 2, 3])
        out.append(b"/".join(rnd.choice(COMPS) for _ in range(depth)))
    return out


def quote(name):
    return b'"' + name.replace(b"\\", b"\\\\").replace(b'"', b'\\"') + b'"'


def needs_quote(name):
    return (name[:1] in (b'"', b"[", b"") or name != name.strip(WS) or b"\n" in name)


def decorate(rnd, name):
    """spell a path differently without changing its canonical form"""
    r = rnd.random()
    if r < 0.15:
        return b"/" + name
    if r < 0.25:
        return b"./" + name
    if r < 0.30:
        return name.replace(b"/", b"//", 1) + b"/"
    if r < 0.33:
        return name.replace(b"/", b"/./", 1)
    return name


def globify(rnd, name):
    comps = name.split(b"/")
    r = rnd.random()
    if r < 0.2:
        return b"*"
    if r < 0.3:
        return b"*/*"
    i = rnd.randrange(len(comps))
    c = comps[i]
    k = rnd.random()
    if k < 0.35:
        comps[i] = c[:rnd.randint(0, len(c))] + b"*"
    elif k < 0.5:
        comps[i] = b"*" + c[rnd.randint(0, len(c)):]
    elif k < 0.65 and c:
        j = rnd.randrange(len(c))
        comps[i] = c[:j] + b"?" + c[j + 1:]
    elif k < 0.8 and c:
        j = rnd.randrange(len(c))
        comps[i] = c[:j] + b"[" + c[j:j + 1].replace(b"]", b"x").replace(b"\\", b"x") + b"a-c]" + c[j + 1:]
    elif k < 0.9:
        return comps[0] + b"*"           # crosses '/' only without FNM_PATHNAME
    else:
        comps[i] = b"*"
    return b"/".join(comps)


def gen_flags(rnd, want_glob):
    toks = []
    for k in KW:
        if rnd.random() < 0.3:
            toks.append(k)
    if want_glob:
        toks.append(want_glob)
        if rnd.random() < 0.1:
            toks.append(rnd.choice([b"glob", b"glob_no_path"]))
    if rnd.random() < 0.1 and toks:
        toks.append(rnd.choice(toks))
    rnd.shuffle(toks)
    if not toks and rnd.random() < 0.7:
        return b""
    pad = lambda t: (b" " * rnd.randint(0, 2) if rnd.random() < 0.2 else b"") + t + (b"\t" if rnd.random() < 0.1 else b"")
    sep = b",," if rnd.random() < 0.05 else b","
    body = sep.join(pad(t) for t in toks)
    if rnd.random() < 0.05:
        body = b"," + body
    if rnd.random() < 0.05 and toks:
        body = body.replace(toks[0], b'"' + toks[0] + b'"', 1)
    return b"[" + body + b"]"


MALFORMED = [
    b"x a", b"5a", b"5", b"5 [foo] a", b"5 [glob a", b"5 [glob]a", b"5 [glob]", b'5 "a', b'5 "a\\n"', b'5 "a"x',
    b'5 "a" x', b"5 a/../b", b"5 ..", b"5 [ ] a", b'5 ["glob] a', b'5 ["gl\\x"] a', b"5 [glob nosparse] a",
    b'5 [glob,"] a', b"5 [align] a", b'5 "a\\', b"5 [GLOB] a", b'5 [gl"ob"] a', b"5 [glob;nosparse] a",
    b"5\xa0a", b"5 [glob]\xa0a", b"5\x85 a", b"\xa05 a", b"5 [glob\xa0] a", b"5 [\"glob\"\"nosparse\"] a",
]


def gen_sortfile(rnd, paths):
    lines = []
    nl = rnd.choice([0, 1, 2, 3, 4, 6, 9])
    bad = rnd.random() < 0.12
    for _ in range(nl):
        r = rnd.random()
        prio = rnd.choice(PRIOS) if rnd.random() < 0.8 else str(rnd.randint(-3, 3))
        sp = rnd.choice([b" ", b"  ", b"\t", b" \t ", b"\x0b", b"\x0c", b" \r "])
        if r < 0.07:
            lines.append(rnd.choice([b"", b"   ", b"# comment", b"  # 5 a", b"\t", b"#"]))
            continue
        if paths and r < 0.45:
            name = rnd.choice(paths)
            fl = gen_flags(rnd, None)
            spelled = decorate(rnd, name)
            if needs_quote(spelled) or rnd.random() < 0.3:
                spelled = quote(spelled)
        elif paths and r < 0.85:
            name = globify(rnd, rnd.choice(paths))
            fl = gen_flags(rnd, rnd.choice([b"glob", b"glob_no_path"]))
            spelled = quote(name) if (needs_quote(name) or rnd.random() < 0.2) else name
        else:
            name = rnd.choice(COMPS) + b"/" + rnd.choice(COMPS)
            fl = gen_flags(rnd, rnd.choice([None, b"glob"]))
            spelled = quote(name) if (needs_quote(name) or rnd.random() < 0.2) else name
        line = prio.encode() + sp + (fl + rnd.choice([b" ", b"\t", b"  "]) if fl else b"") + spelled
        lines.append(rnd.choice([b"", b"  ", b"\t"]) + line + rnd.choice([b"", b"", b" ", b"\t "]))
    if bad and nl:
        k = rnd.randrange(len(lines))
        if rnd.random() < 0.5:
            lines[k] = rnd.choice(MALFORMED)
        else:
            lines[k] = rnd.choice(BAD_PRIOS).encode() + b" a"
    eol = rnd.choice([b"\n", b"\n", b"\r\n"])
    text = eol.join(lines)
    if lines and rnd.random() < 0.6:
        text += eol
    return text


def gen_sort_cases(ctx, n):
    rnd = random.Random(ctx.seed * 7919 + 17)
    cases = []
    # fixed corner cases first (corpus)
    fixed = [
        ([b"a", b"b c", b"d"], b'-5 "b c"\n'),
        ([b"a", b"b"], b"1 a\n1 b\n"),
        ([b"a", b"b", b"c"], b"3 [glob] *\n1 b\n"),
        ([b"x/a", b"x/b", b"y"], b"-1 [glob_no_path] x*\n-2 [glob] x*\n"),
        ([b"a", b"b"], b"0 a\n-1 [dont_compress,dont_fragment,nosparse,dont_deduplicate] b"),
        ([b"a"], b"9223372036854775806 a\n"),
        ([b"a"], b"9223372036854775807 a\n"),
        ([b"a", b"b"], b"-9223372036854775806 b\r\n"),
        ([b'q"t', b"b\\s"], b'2 "q\\"t"\n1 "b\\\\s"\n'),
        ([], b"5 a\n"),
        ([b"a"], b""),
        ([b"a", b"b"], b"5 [glob] [ab]\n"),
        ([b"a", b"b", b"c", b"d"], b"7 a\n7 c\n0 b\n-1 d\n"),
    ]
    for paths, text in fixed:
        cases.append((7, text, paths))
    for m in MALFORMED:
        cases.append((64, b"1 a\n" + m + b"\n", [b"a", b"b"]))
    for p in BAD_PRIOS + PRIOS:
        cases.append((3, p.encode() + b" a\n", [b"a", b"b"]))
    while len(cases) < n:
        paths = gen_paths(rnd)
        text = gen_sortfile(rnd, paths)
        cases.append((rnd.choice([1, 2, 7, 64, 1024]), text, paths))
    return cases


# ---------------------------------------------------------------------------------------------
# tie 1: fstree_sort_files
# ---------------------------------------------------------------------------------------------

def run_sort_harness(h, cases):
    data = "".join("%d %s %s\n" % (bufsz, hexs(text), ",".join(p.hex() for p in paths) if paths else "-")
                   for bufsz, text, paths in cases)
    r = subprocess.run([h], input=data.encode(), stdout=subprocess.PIPE, stderr=subprocess.PIPE, env=ENV)
    lines = r.stdout.decode().split("\n")
    res = []
    for i in range(len(cases)):
        l = lines[i].split(" ") if i < len(lines) else []
        if len(l) in (4, 5) and l[0] == "R":
            init = [] if l[1] == "-" else [unhex(x) for x in l[1].split(",")]
            # 5th field (session 3c): F1 = fstree_sort_files left everything but fs->files / next_by_type / priority /
            # flags / FLAG_FILE_ALREADY_MATCHED byte-identical (h_sort.c digest_fs)
            res.append(dict(init=init, rc=int(l[2]), out=parse_out(l[3]), line=lines[i],
                            frame=(l[4] == "F1") if len(l) == 5 else None))
        else:
            res.append(None)
    return r.returncode, res, r.stderr.decode("utf-8", "replace")


def run_model_sort(drv, items):
    """items: (terminated, text, raw_paths) -> list of (rc, out)"""
    data = "".join("S %d %s %s\n" % (t, hexs(text), ",".join(hexs(p) for p in raw) if raw else "-")
                   for t, text, raw in items)
    r = subprocess.run([drv], input=data.encode(), stdout=subprocess.PIPE, stderr=subprocess.PIPE)
    out = []
    for l in r.stdout.decode().split("\n")[:len(items)]:
        f = l.split(" ")
        if len(f) == 2 and f[0] in ("0", "-1"):
            out.append((int(f[0]), parse_out(f[1]) if f[0] == "0" else []))
        else:
            out.append(("?" + l, []))
    while len(out) < len(items):
        out.append(("?missing", []))
    return out


def tie_sort(ctx, h, drv, cases):
    rc, res, err = run_sort_harness(h, cases)
    if rc != 0 or any(r is None for r in res):
        idx = next((i for i, r in enumerate(res) if r is None), len(res) - 1)
        bufsz, text, paths = cases[idx]
        ctx.violation("harness-crash:sort", "fstree_sort_files harness died or printed garbage (rc=%d) at case %d: %s"
                      % (rc, idx, err[-600:]),
                      dict(kind="sort", bufsz=bufsz, text=hexs(text), paths=[hexs(p) for p in paths], stderr=err[-3000:]))
        res = [r for r in res]
    items1, items0, idxs = [], [], []
    for i, r in enumerate(res):
        if r is None:
            continue
        idxs.append(i)
        items1.append((1, cases[i][1], r["init"]))
        items0.append((0, cases[i][1], r["init"]))
    m1 = run_model_sort(drv, items1)
    m0 = run_model_sort(drv, items0)
    f08, broken, prop_bad = [], [], []
    nontriv = 0
    stats = dict(cases=len(cases), refused=0, accepted=0, some_file_matched=0, quoted=0, glob=0, ties=0, frame_checked=0)
    seen = set()
    for k, i in enumerate(idxs):
        r = res[i]
        bufsz, text, paths = cases[i]
        impl = (r["rc"], r["out"] if r["rc"] == 0 else [])
        if r["rc"] == 0:
            stats["accepted"] += 1
            if any(t[1] != 0 or t[2] != 0 for t in r["out"]):
                stats["some_file_matched"] += 1
                key = (text, tuple(r["init"]))
                if key not in seen:
                    seen.add(key)
                    nontriv += 1
            pr = [t[1] for t in r["out"]]
            if len(set(pr)) < len(pr):
                stats["ties"] += 1
        else:
            stats["refused"] += 1
        if b'"' in text:
            stats["quoted"] += 1
        if b"glob" in text:
            stats["glob"] += 1
        why = sort_oracle(text, r["init"], r["rc"], r["out"])
        if not why and r.get("frame") is not None:
            stats["frame_checked"] += 1
            if not r["frame"]:
                why = ("tree touched: fstree_sort_files changed a byte of the fstree_t or of a tree node outside fs->files, "
                       "next_by_type, data.file.priority / .flags and FLAG_FILE_ALREADY_MATCHED (rc=%d) - 'none of these "
                       "changes the tree'" % r["rc"])
        if why:
            prop_bad.append((i, why))
        if impl != m1[k]:
            if impl == m0[k]:
                f08.append(i)
            else:
                broken.append((i, impl, m1[k]))
    ctx.coverage["evaluations"] += len(cases)
    ctx.coverage["distinct_nontrivial"] += nontriv
    ctx.coverage["traces_validated_against_impl"] += len(idxs)
    ctx.coverage.setdefault("distribution", {})["sort_tie"] = stats
    ctx.add_samples([dict(kind="sort", sort_file=cases[i][1].decode("latin-1"), impl=res[i]["line"][:300],
                          model="%s %s" % m1[idxs.index(i)] if i in idxs else None)
                     for i in (0, len(cases) // 2)], limit=3)

    def rep(i):
        bufsz, text, paths = cases[i]
        return dict(kind="sort", bufsz=bufsz, text=hexs(text), paths=[hexs(p) for p in paths],
                    text_readable=text.decode("latin-1"))

    return dict(f08=f08, broken=broken, prop_bad=prop_bad, rep=rep, res=res)


# ---------------------------------------------------------------------------------------------
# tie 2: pack_file / write_file flag computation
# ---------------------------------------------------------------------------------------------

def gen_pack_cases(ctx, n):
    rnd = random.Random(ctx.seed * 104729 + 5)
    cases = []
    for bs in (4096, 8192, 131072, 1048576):
        for fsz in (0, 1, bs - 1, bs, bs + 1, 2 * bs - 1, 2 * bs, 2 * bs + 1, 10 * bs + 7):
            for nt in (0, 1):
                for fl in (0, 1, 4, 5, 8, 16, 27, 31):
                    cases.append((nt, fsz, bs, fl))
    cases.append((1, (1 << 32) + 1, 1048576, 0))
    cases.append((1, 1 << 32, 4096, 8))
    cases.append((1, (1 << 36) + 5, 131072, 16))
    while len(cases) < n:
        bs = 1 << rnd.randint(12, 20)
        fsz = max(0, rnd.choice([bs, 2 * bs, rnd.randint(0, 4 * bs)]) + rnd.randint(-2, 2))
        cases.append((rnd.randint(0, 1), fsz, bs, rnd.randint(0, 31)))
    return cases


def tie_pack(ctx, hgen, htar, drv, cases):
    d = os.path.join(ctx.scratch, "pack")
    os.makedirs(d, exist_ok=True)
    data = "".join("%d %d %d %d\n" % c for c in cases).encode()
    outs = {}
    for name, h in (("pack_file", hgen), ("write_file", htar)):
        r = subprocess.run([h, d], input=data, stdout=subprocess.PIPE, stderr=subprocess.PIPE, env=ENV)
        outs[name] = (r.returncode, r.stdout.decode().split("\n"), r.stderr.decode("utf-8", "replace"))
    mdata = "".join("P %d %d %d %d\n" % c for c in cases) + "".join("P %d %d %d 0\n" % c[:3] for c in cases)
    r = subprocess.run([drv], input=mdata.encode(), stdout=subprocess.PIPE)
    ml = r.stdout.decode().split("\n")
    bad = []
    for name in ("pack_file", "write_file"):
        rc, lines, err = outs[name]
        if rc != 0:
            ctx.violation("harness-crash:" + name, "%s harness died (rc=%d): %s" % (name, rc, err[-500:]),
                          dict(kind="pack", stderr=err[-2000:]), no_input=True)
            continue
        for i, c in enumerate(cases):
            want = ml[i] if name == "pack_file" else ml[len(cases) + i]
            got = lines[i] if i < len(lines) else "?"
            if want != got:
                bad.append((name, c, got, want))
    ctx.coverage["evaluations"] += 2 * len(cases)
    ctx.coverage["traces_validated_against_impl"] += 2 * len(cases)
    ctx.coverage["distinct_nontrivial"] += len(set(c for c in cases if c[0] == 1 and c[1] > c[2]))
    ctx.coverage.setdefault("distribution", {})["pack_tie"] = dict(cases=len(cases), functions=["pack_file", "write_file"])
    return bad


# ---------------------------------------------------------------------------------------------
# tool-level oracle
# ---------------------------------------------------------------------------------------------

WORDS = [b"alpha", b"beta", b"gamma", b"delta", b"squash", b"inode", b"fragment", b"block", b"sort", b"file"]


def text_bytes(rnd, n, tag):
    line = tag + b" " + b" ".join(rnd.choice(WORDS) for _ in range(6)) + b"\n"
    return (line * (n // len(line) + 1))[:n]


def gen_tree(rnd, bs):
    """list of (path, content)"""
    names = [b"a", b"b", b"c", b"d/e", b"d/f", b"d/g/h", b"k", b"m n", b"bin/ls", b"bin/cp", b"lib/x.so", b"z", b"d/q",
             b"bin/mk*", b"y?", b"w/v"]
    rnd.shuffle(names)
    n = rnd.randint(4, 9)
    files = []
    sizes = [0, 1, 100, bs - 1, bs, bs + 1, 2 * bs, 2 * bs + 300, 3 * bs + 1, bs + bs // 2, 4 * bs, 3 * bs - 1]
    used = set()
    for i in range(n):
        name = names[i]
        # no file may be a directory of another one
        if any(name.startswith(u + b"/") or u.startswith(name + b"/") for u in used):
            continue
        used.add(name)
        kind = rnd.choice(["text", "text", "rand", "holes", "zeros", "dup", "dup", "sametail", "zerotail", "dupblocks"])
        size = rnd.choice(sizes)
        tag = b"F%d" % i
        if kind in ("dup", "sametail", "dupblocks") and not files:
            kind = "text"
        if kind == "text":
            c = text_bytes(rnd, size, tag)
        elif kind == "rand":
            c = rnd.randbytes(size)
        elif kind == "zeros":
            c = b"\0" * size
        elif kind == "holes":
            nb = size // bs
            parts = []
            for b in range(nb):
                parts.append(b"\0" * bs if rnd.random() < 0.5 else text_bytes(rnd, bs, tag + b"b%d" % b))
            parts.append(text_bytes(rnd, size - nb * bs, tag + b"t"))
            c = b"".join(parts)
        elif kind == "zerotail":
            nb = max(1, size // bs)
            c = text_bytes(rnd, nb * bs, tag) + b"\0" * rnd.choice([1, 77, bs - 1])
        elif kind == "dup":
            c = rnd.choice(files)[1]
        elif kind == "dupblocks":
            o = rnd.choice(files)[1]
            nb = len(o) // bs
            c = o[:nb * bs] + text_bytes(rnd, rnd.choice([0, 5, 200]), tag)
        else:  # sametail
            o = rnd.choice(files)[1]
            tail = o[(len(o) // bs) * bs:]
            c = text_bytes(rnd, rnd.choice([0, bs, 2 * bs]), tag) + tail
        files.append((name, c))
    return files


def gen_tool_sortfile(rnd, files):
    lines = []
    paths = [p for p, _ in files]
    for _ in range(rnd.randint(1, 6)):
        prio = rnd.choice([-10, -3, -1, 0, 1, 1, 2, 5, 5, 100])
        toks = [k for k in KW if rnd.random() < 0.35]
        r = rnd.random()
        if r < 0.55:
            name = rnd.choice(paths)
            if rnd.random() < 0.2:
                name = b"/" + name
        elif r < 0.9:
            p = rnd.choice(paths)
            k = rnd.random()
            if k < 0.3:
                name = b"*"
            elif k < 0.6 and b"/" in p:
                name = p.rsplit(b"/", 1)[0] + b"/*"
            elif k < 0.8:
                name = p[:1] + b"*"
            else:
                name = p[:-1] + b"?"
            toks.append(rnd.choice([b"glob", b"glob_no_path"]))
        else:
            name = b"nothing/here"
        rnd.shuffle(toks)
        lines.append(b"%d " % prio + (b"[" + b",".join(toks) + b"] " if toks else b"") + name)
    return b"\n".join(lines) + b"\n"


def write_tree(d, files):
    shutil.rmtree(d, ignore_errors=True)
    os.makedirs(d)
    for p, c in files:
        fp = os.path.join(d.encode(), p)
        os.makedirs(os.path.dirname(fp), exist_ok=True)
        with open(fp, "wb") as f:
            f.write(c)


def packing_order(stdout):
    return [l[len(b"packing "):] for l in stdout.split(b"\n") if l.startswith(b"packing ")]


def compressible(chunk):
    return len(zlib.compress(chunk, 9)) * 10 < len(chunk) * 8


def meta_view(im):
    """everything the image says about the tree except where the file data lies: per inode number (type without the
    basic/extended distinction, mode, uid/gid index, mtime, link count, xattr index, parent, directory listing size,
    file size) and the inode number behind every file path"""
    view = {}
    for num, ino in im.inode_by_num.items():
        t = ino["type"] if ino["type"] < 8 else ino["type"] - 7
        view[num] = (t, ino["mode"], ino["uid"], ino["gid"], ino["mtime"], ino.get("nlink", 1),
                     ino.get("xattr", 0xFFFFFFFF), ino.get("parent"), ino.get("size") if t == 1 else None,
                     ino.get("file_size"))
    return view, {p: i["num"] for p, i in im.files.items()}, list(im.dirs_seen)


def tool_case(ctx, info, case, workdir):
    """Runs one tool-level case. Returns list of (signature, description)."""
    G, R = info["tools"]["gensquashfs"], info["tools"]["rdsquashfs"]
    bs, files, sortfile = case["bs"], [(unhex(p), unhex(c)) for p, c in case["files"]], unhex(case["sortfile"])
    notail, export, jobs = case["notail"], case["export"], case["jobs"]
    ind = os.path.join(workdir, "in")
    write_tree(ind, files)
    sf = os.path.join(workdir, "sort.txt")
    open(sf, "wb").write(sortfile)
    base_img = os.path.join(workdir, "base.sqfs")
    img = os.path.join(workdir, "img.sqfs")
    probs = []
    common = [G, "-D", ind, "-c", "gzip", "-b", str(bs), "-j", str(jobs), "-f"]
    if case.get("devblk"):
        common += ["-B", str(case["devblk"])]
    r0 = subprocess.run(common + [base_img], stdout=subprocess.PIPE, stderr=subprocess.PIPE, env=ENV)
    if r0.returncode != 0:
        return [("tool:baseline-pack-failed", "gensquashfs without directives failed: " + r0.stderr.decode("utf-8", "replace")[-300:])]
    default_order = packing_order(r0.stdout)
    opts = ["-S", sf] + (["-T"] if notail else []) + (["-e"] if export else [])
    r1 = subprocess.run(common + opts + [img], stdout=subprocess.PIPE, stderr=subprocess.PIPE, env=ENV)
    dirs = py_parse_simple(sortfile)
    if r1.returncode != 0:
        if dirs is not None:
            return [("tool:pack-failed", "gensquashfs %s failed: %s" % (" ".join(opts[2:]), r1.stderr.decode("utf-8", "replace")[-300:]))]
        return []
    if dirs is None:
        return [("tool:malformed-accepted", "gensquashfs accepted a sort file that is outside the grammar")] if case.get("must_reject") else []
    content = dict(files)
    if sorted(default_order) != sorted(content):
        return [("tool:baseline-order-unreadable", "could not read the default pack order from gensquashfs output")]
    # ---- expected assignment and order (independent statement) ----
    ann = {}
    for p in default_order:
        ann[p] = py_assign(dirs, py_canon(p))
    exp_order = sorted(default_order, key=lambda p: ann[p][0])
    got_order = packing_order(r1.stdout)
    if got_order != exp_order:
        probs.append(("order:pack-order", "files packed in order %r, directives demand %r (priorities %r)"
                      % (got_order, exp_order, [ann[p][0] for p in exp_order])))
    # ---- decode the image ----
    try:
        im = sqimg.Image(img)
        bim = sqimg.Image(base_img)
    except Exception as e:  # noqa: BLE001
        return probs + [("tool:image-unreadable", "independent reader cannot decode the image: %r" % (e,))]
    content = dict(files)
    # the sort stage changes nothing but the packing order: every inode (number, type, mode, owner, mtime, link count,
    # xattr index, parent, sizes), every path -> inode number and the directory walk equal those of the image packed
    # without directives (the tie behind the remark at Properties_C17.tree_unchanged_by_sort_file)
    mv, bmv = meta_view(im), meta_view(bim)
    if mv != bmv:
        which = sorted(n for n in set(mv[0]) | set(bmv[0]) if mv[0].get(n) != bmv[0].get(n))[:4]
        probs.append(("tree:metadata-differs", "inodes / paths of the image packed with -S differ from the image packed "
                      "without directives: inode numbers %r: %r vs %r" % (which, [mv[0].get(n) for n in which],
                                                                          [bmv[0].get(n) for n in which])))
    dropped = [k for k, f in enumerate(im.frags) if (f[1] & 0xFFFFFF) == 0]
    if dropped:
        users = sorted(p for p, i in im.files.items() if i["frag_idx"] in dropped)
        rb = ""
        for u in users[:1]:
            rr = subprocess.run([R, "-c", u, img], stdout=subprocess.PIPE, stderr=subprocess.PIPE, env=ENV)
            same = rr.returncode == 0 and rr.stdout == content.get(u.encode("utf-8", "surrogateescape"))
            rb = "; rdsquashfs -c %s: rc=%d, contents %s%s" % (u, rr.returncode, "unchanged" if same else "DIFFER from the input",
                                                               (" (" + rr.stderr.decode("utf-8", "replace").strip()[-80:] + ")") if rr.stderr else "")
        return probs + [("F22:zero-fragment-block-dropped",
                         "fragment table entry %d is empty (start %d, size 0) although %r keep their tails there: an all-zero "
                         "fragment block (all-zero tails of nosparse files) was treated as a sparse block, never written, and "
                         "block word #%d of the first contributing file was overwritten with 0" % (
                             dropped[0], im.frags[dropped[0]][0], users, dropped[0]) + rb)]
    if set(im.files) != set(p.decode("utf-8", "surrogateescape") for p in content):
        probs.append(("tree:file-set", "files in the image %r differ from the input %r" % (sorted(im.files), sorted(content))))
        return probs
    if sorted(im.dirs_seen) != sorted(bim.dirs_seen):
        probs.append(("tree:dir-set", "directories differ from the image packed without directives"))
    if im.block_size != bs:
        probs.append(("tool:block-size", "super block says block size %d, -b %d" % (im.block_size, bs)))
    # export table
    if bool(im.flags & sqimg.FLAG_EXPORTABLE) != bool(export):
        probs.append(("export:flag", "-e %s but super block exportable flag is %s" % (export, bool(im.flags & sqimg.FLAG_EXPORTABLE))))
    for pr in im.export_problems():
        probs.append(("export:table", pr))
    if bim.flags & sqimg.FLAG_EXPORTABLE or bim.export_problems():
        probs.append(("export:unrequested", "image packed without -e has an export table / flag"))
    # ---- per file ----
    # the block writer deduplicates against everything it has written, fragment blocks included
    earlier_ranges = [(f[0], f[0] + (f[1] & 0xFFFFFF)) for f in im.frags if f[1] & 0xFFFFFF]
    earlier_frags = {}
    cur_end = 0
    max_frag = (-1, -1)
    frag_users = {}
    frag_all_users = {}
    for p in exp_order if got_order == exp_order else got_order:
        ino = im.files[p.decode("utf-8", "surrogateescape")]
        c = content[p]
        prio, fl = ann[p]
        eff = fl | (F_DONT_FRAGMENT if (notail and len(c) > bs) else 0)
        tag = "%r(prio %d, flags 0x%x%s)" % (p, prio, fl, ", -T" if notail else "")
        if ino["file_size"] != len(c):
            probs.append(("content:size", "%s: size %d in the image, %d on input" % (tag, ino["file_size"], len(c))))
            continue
        try:
            data = im.read_file(ino)
        except Exception as e:  # noqa: BLE001
            probs.append(("content:unreadable", "%s: %r" % (tag, e)))
            continue
        if data != c:
            probs.append(("content:differs", "%s: contents decoded from the image differ from the input" % tag))
        full, rem = len(c) // bs, len(c) % bs
        blocks = ino["blocks"]
        tail = c[full * bs:]
        tail_sparse = rem > 0 and tail.count(0) == len(tail) and not (eff & F_NOSPARSE)
        want_frag = rem > 0 and not tail_sparse and not (eff & F_DONT_FRAGMENT)
        has_frag = ino["frag_idx"] != sqimg.NOFRAG
        if has_frag:
            frag_all_users.setdefault(ino["frag_idx"], []).append(eff)
        if has_frag != want_frag:
            zero_tail = rem > 0 and tail.count(0) == len(tail)
            if has_frag:
                if eff & F_DONT_FRAGMENT:
                    why = "dont_fragment" if fl & F_DONT_FRAGMENT else "no-tail-packing"
                    probs.append(("%s:has-tail-fragment" % why, "%s: tail stored in fragment %d although %s applies"
                                  % (tag, ino["frag_idx"], why)))
                elif tail_sparse:
                    probs.append(("sparse:zero-tail-in-fragment", "%s: all-zero tail stored in a fragment without nosparse" % tag))
                else:
                    probs.append(("fragment:unexpected", "%s: has a fragment but no tail bytes" % tag))
            else:
                if notail and len(c) <= bs and not (fl & F_DONT_FRAGMENT):
                    probs.append(("no-tail-packing:small-file-affected", "%s: %d-byte file (block size %d) lost its tail "
                                  "fragment under -T" % (tag, len(c), bs)))
                elif zero_tail and eff & F_NOSPARSE and len(blocks) == full + 1 and blocks[-1][0] == 0:
                    probs.append(("nosparse:zero-tail-not-materialised", "%s: all-zero tail is a hole although nosparse applies" % tag))
                else:
                    probs.append(("fragment:missing", "%s: tail of %d bytes not in a fragment although neither dont_fragment "
                                  "nor -T applies to this file" % (tag, rem)))
            continue
        nwant = full + (1 if (rem and not want_frag) else 0)
        if len(blocks) != nwant:
            probs.append(("blocks:count", "%s: %d block words, expected %d" % (tag, len(blocks), nwant)))
            continue
        sparse_bytes = 0
        for bi, (size, comp) in enumerate(blocks):
            chunk = c[bi * bs:(bi + 1) * bs]
            zero = chunk.count(0) == len(chunk)
            if zero and not (eff & F_NOSPARSE):
                sparse_bytes += len(chunk)
                if size != 0:
                    probs.append(("sparse:zero-block-stored", "%s: zero block #%d stored (%d bytes) without nosparse" % (tag, bi, size)))
                continue
            if size == 0:
                if zero:
                    probs.append(("nosparse:zero-block-not-materialised", "%s: zero block #%d is a hole although nosparse applies" % (tag, bi)))
                else:
                    probs.append(("blocks:data-block-missing", "%s: non-zero block #%d has size word 0" % (tag, bi)))
                continue
            if eff & F_DONT_COMPRESS:
                if comp or size != len(chunk):
                    probs.append(("dont_compress:block-compressed", "%s: block #%d stored as %d bytes compressed=%s"
                                  % (tag, bi, size, comp)))
            else:
                if not comp and size != len(chunk):
                    probs.append(("blocks:size", "%s: uncompressed block #%d has %d bytes, expected %d" % (tag, bi, size, len(chunk))))
                if not comp and compressible(chunk):
                    probs.append(("compress:block-left-uncompressed", "%s: compressible block #%d stored uncompressed "
                                  "although dont_compress does not apply" % (tag, bi)))
        if ino["type"] == 9 and ino["sparse"] != sparse_bytes:
            probs.append(("sparse:count", "%s: inode sparse count %d, expected %d" % (tag, ino["sparse"], sparse_bytes)))
        if ino["type"] == 2 and sparse_bytes:
            probs.append(("sparse:count", "%s: basic inode for a file with %d sparse bytes" % (tag, sparse_bytes)))
        # ---- placement ----
        rng = im.data_range(ino)
        if rng is not None:
            shared = rng[0] < cur_end
            if shared:
                inside = any(s <= rng[0] < e for s, e in earlier_ranges)
                if eff & F_DONT_DEDUP:
                    probs.append(("dont_deduplicate:blocks-shared", "%s: data blocks at %d..%d share storage with a "
                                  "previously packed file" % (tag, rng[0], rng[1])))
                elif not inside:
                    probs.append(("order:data-offset", "%s: data at %d..%d lies before data of files packed earlier "
                                  "(end %d) without being a duplicate of them" % (tag, rng[0], rng[1], cur_end)))
            cur_end = max(cur_end, rng[1])
            earlier_ranges.append(rng)
        if has_frag:
            ref = (ino["frag_idx"], ino["frag_off"])
            frag_users.setdefault(ino["frag_idx"], []).append((p, eff, ref in earlier_frags))
            if ref in earlier_frags:
                if eff & F_DONT_DEDUP:
                    probs.append(("dont_deduplicate:tail-shared", "%s: tail shares fragment %r with previously packed %r"
                                  % (tag, ref, earlier_frags[ref])))
            else:
                if ref < max_frag:
                    probs.append(("order:fragment-offset", "%s: fragment %r lies before fragment %r of a file packed "
                                  "earlier" % (tag, ref, max_frag)))
                max_frag = max(max_frag, ref)
                earlier_frags[ref] = p
            try:
                fe = im.frag_entry(ino["frag_idx"])
            except Exception as e:  # noqa: BLE001
                probs.append(("fragment:table", "%s: %r" % (tag, e)))
                continue
            if eff & F_DONT_COMPRESS and fe["compressed"]:
                if frag_users[ino["frag_idx"]][-1][2]:
                    probs.append(("dont_compress:dedup-tail-in-compressed-fragment-block",
                                  "%s: tail was deduplicated against the tail of a previously packed file and lives "
                                  "in fragment block %d, which is stored compressed" % (tag, ino["frag_idx"])))
                else:
                    probs.append(("dont_compress:fragment-block-compressed", "%s: tail lives in fragment block %d, which "
                                  "is stored compressed" % (tag, ino["frag_idx"])))
    # fragment blocks without any dont_compress user must be compressed when they compress well
    for idx, users in frag_users.items():
        try:
            fe = im.frag_entry(idx)
            if not fe["compressed"] and not any(e & F_DONT_COMPRESS for e in frag_all_users.get(idx, [])):
                if compressible(im.frag_block(idx)):
                    probs.append(("compress:fragment-block-left-uncompressed", "fragment block %d (users %r) stored "
                                  "uncompressed although no user has dont_compress" % (idx, [u[0] for u in users])))
        except Exception as e:  # noqa: BLE001
            probs.append(("fragment:table", "fragment block %d: %r" % (idx, e)))
    # ---- the real reader: tree and contents ----
    out = os.path.join(workdir, "out")
    shutil.rmtree(out, ignore_errors=True)
    r = subprocess.run([R, "-q", "-u", "/", "-p", out, img], stdout=subprocess.PIPE, stderr=subprocess.PIPE, env=ENV)
    if r.returncode != 0:
        probs.append(("readback:unpack-failed", "rdsquashfs -u / failed: " + r.stderr.decode("utf-8", "replace")[-300:]))
    else:
        got = {}
        for dp, dn, fn in os.walk(out.encode()):
            for f in fn:
                fp = os.path.join(dp, f)
                got[os.path.relpath(fp, out.encode())] = open(fp, "rb").read()
        if got != content:
            bad = sorted(set(got) ^ set(content)) or [p for p in content if got.get(p) != content[p]]
            probs.append(("readback:differs", "rdsquashfs unpacks something else than the input: %r" % (bad[:4],)))
    d1 = subprocess.run([R, "-d", img], stdout=subprocess.PIPE, stderr=subprocess.PIPE, env=ENV)
    d0 = subprocess.run([R, "-d", base_img], stdout=subprocess.PIPE, stderr=subprocess.PIPE, env=ENV)
    if d1.returncode != 0 or d1.stdout != d0.stdout:
        probs.append(("tree:describe-differs", "rdsquashfs -d differs from the image packed without directives"))
    # cross-check the independent reader against rdsquashfs -s on one file
    if content:
        p = sorted(content)[case.get("stat_pick", 0) % len(content)]
        s = subprocess.run([R, "-s", p, img], stdout=subprocess.PIPE, stderr=subprocess.PIPE, env=ENV)
        ino = im.files[p.decode("utf-8", "surrogateescape")]
        txt = s.stdout.decode("utf-8", "replace")
        m_start = re.search(r"Blocks start: (\d+)", txt)
        m_frag = re.search(r"Fragment index: 0x([0-9A-F]+)", txt)
        sizes = [(int(a), b == "compressed") for a, b in re.findall(r"Block #\d+ size: (\d+) \((\w+)\)", txt)]
        if (s.returncode != 0 or not m_start or int(m_start.group(1)) != ino["blocks_start"]
                or int(m_frag.group(1), 16) != ino["frag_idx"] or sizes != ino["blocks"]):
            probs.append(("tool:stat-disagrees", "rdsquashfs -s %r disagrees with the independent reader" % p))
    return probs


def gen_tool_cases(ctx, n):
    rnd = random.Random(ctx.seed * 31337 + 3)
    cases = []
    for i in range(n):
        bs = rnd.choice([4096, 4096, 4096, 8192, 16384] + ([131072] if ctx.tier == "thorough" else []))
        files = gen_tree(rnd, bs)
        cases.append(dict(kind="tool", bs=bs, files=[(hexs(p), hexs(c)) for p, c in files],
                          sortfile=hexs(gen_tool_sortfile(rnd, files)), notail=rnd.random() < 0.5,
                          export=rnd.random() < 0.5, jobs=rnd.choice([1, 1, 3]), stat_pick=rnd.randint(0, 20),
                          devblk=rnd.choice([0, 0, 1024, 8192])))
    return cases


def directed_tool_cases(bs=4096):
    """Fixed cases aimed at one directive each (run before the random ones)."""
    T = lambda n, tag: (tag + b" squash block fragment inode\n") * (n // 30 + 1)
    t = lambda n, tag: T(n, tag)[:n]
    A = t(2 * bs + 300, b"A")
    cases = []

    def mk(files, sortfile, notail=False, export=False, jobs=1):
        cases.append(dict(kind="tool", bs=bs, files=[(hexs(p), hexs(c)) for p, c in files], sortfile=hexs(sortfile),
                          notail=notail, export=export, jobs=jobs, stat_pick=0))
    # order + ties + negative
    mk([(b"a", t(5000, b"a")), (b"b", t(6000, b"b")), (b"c", t(7000, b"c")), (b"d", t(100, b"d"))],
       b"5 a\n-1 c\n5 b\n", export=True)
    # every flag on a file that has full blocks, a zero block and a tail; duplicate earlier
    body = t(bs, b"x") + b"\0" * bs + t(bs, b"y") + t(200, b"z")
    for kw in KW:
        mk([(b"a", body), (b"b", body), (b"c", t(50, b"c"))], b"1 [" + kw + b"] b\n")
        mk([(b"a", body), (b"b", body), (b"c", t(50, b"c"))], b"1 [" + kw + b"] b\n", notail=True, jobs=3)
    # dont_deduplicate on a duplicate with and without tail, packed after the original
    mk([(b"a", A), (b"b", A)], b"1 [dont_deduplicate] b\n")
    mk([(b"a", A[:2 * bs]), (b"b", A[:2 * bs])], b"1 [dont_deduplicate] b\n")
    mk([(b"a", A[:300]), (b"b", A[:300])], b"1 [dont_deduplicate] b\n")
    mk([(b"a", A), (b"b", A)], b"1 [dont_deduplicate,dont_fragment] b\n")
    # dont_compress tail: first fragment of its block / appended to a block begun by another file
    mk([(b"a", t(bs + 500, b"a")), (b"b", t(bs + 700, b"b")), (b"c", t(300, b"c"))], b"-1 [dont_compress] b\n")
    mk([(b"a", t(bs + 500, b"a")), (b"b", t(bs + 700, b"b")), (b"c", t(300, b"c"))], b"1 [dont_compress] b\n", jobs=3)
    mk([(b"a", t(bs + 500, b"a")), (b"b", t(700, b"b")), (b"c", t(300, b"c"))], b"1 [dont_compress] b\n", export=True)
    # -T boundary: bs-1, bs, bs+1
    mk([(b"s", t(bs - 1, b"s")), (b"e", t(bs, b"e")), (b"l", t(bs + 1, b"l")), (b"m", t(3 * bs + 9, b"m"))], b"# nothing\n",
       notail=True)
    # overlapping patterns: first line wins, flags from the first line only
    mk([(b"d/a", t(bs + 10, b"1")), (b"d/b", t(bs + 10, b"2")), (b"e", t(bs + 10, b"3"))],
       b"2 [glob,dont_compress] d/*\n1 [dont_fragment] d/a\n-1 [glob_no_path,nosparse] *\n")
    # glob vs glob_no_path
    mk([(b"d/a", t(900, b"1")), (b"d/b", t(800, b"2")), (b"da", t(700, b"3"))],
       b"-2 [glob] d*\n-1 [glob_no_path] d*\n")
    # nosparse zero tail / all-zero files
    mk([(b"z", b"\0" * (2 * bs + 50)), (b"y", b"\0" * (2 * bs + 50)), (b"x", b"\0" * 10)], b"1 [nosparse] z\n2 [nosparse] x\n")
    mk([(b"z", b"\0" * (2 * bs + 50)), (b"y", t(10, b"y"))], b"1 [nosparse,dont_fragment,dont_compress] z\n", export=True)
    return cases


def f22_witness_case(bs=4096):
    c = (b"first block " * 400)[:bs] + (b"second block" * 400)[:bs] + b"\0" * 50
    return dict(kind="tool", bs=bs, files=[(hexs(b"w"), hexs(c))], sortfile=hexs(b"1 [nosparse] w\n"), notail=False,
                export=False, jobs=1, stat_pick=0)


def known_finding_cases(bs=4096):
    t = lambda n, tag: ((tag + b" squash block fragment inode\n") * (n // 30 + 1))[:n]
    A = t(2 * bs + 300, b"A")
    return [dict(kind="tool", bs=bs, files=[(hexs(b"a"), hexs(A)), (hexs(b"c"), hexs(A))],
                 sortfile=hexs(b"5 [dont_compress] c\n"), notail=False, export=False, jobs=1, stat_pick=0)]


def tar_tool_check(ctx, info, work, bs=4096):
    """tar2sqfs --no-tail-packing / --exportable: same switches, other front end."""
    import io
    import tarfile
    t = lambda n, tag: ((tag + b" squash block fragment inode\n") * (n // 30 + 1))[:n]
    files = [(b"s", t(bs - 1, b"s")), (b"e", t(bs, b"e")), (b"l", t(bs + 1, b"l")), (b"m", t(3 * bs + 9, b"m")),
             (b"d/z", t(100, b"z"))]
    buf = io.BytesIO()
    with tarfile.open(fileobj=buf, mode="w", format=tarfile.USTAR_FORMAT) as tf:
        for p, c in files:
            ti = tarfile.TarInfo(p.decode())
            ti.size = len(c)
            tf.addfile(ti, io.BytesIO(c))
    probs = []
    for notail, export in ((False, False), (True, True), (True, False)):
        img = os.path.join(work, "tar.sqfs")
        cmd = [info["tools"]["tar2sqfs"], "-q", "-f", "-c", "gzip", "-b", str(bs)] + (["-T"] if notail else []) + \
              (["-e"] if export else []) + [img]
        r = subprocess.run(cmd, input=buf.getvalue(), stdout=subprocess.PIPE, stderr=subprocess.PIPE, env=ENV)
        if r.returncode != 0:
            probs.append(("tar2sqfs:failed", "tar2sqfs %s failed: %s" % (cmd[1:-1], r.stderr.decode("utf-8", "replace")[-200:])))
            continue
        try:
            im = sqimg.Image(img)
            for p, c in files:
                ino = im.files[p.decode()]
                want = len(c) % bs != 0 and not (notail and len(c) > bs)
                has = ino["frag_idx"] != sqimg.NOFRAG
                if im.read_file(ino) != c:
                    probs.append(("tar2sqfs:content", "tar2sqfs%s: %r reads back differently" % (" -T" if notail else "", p)))
                if has != want:
                    probs.append(("tar2sqfs:no-tail-packing", "tar2sqfs%s: %r (%d bytes, block size %d) fragment=%s, expected %s"
                                  % (" -T" if notail else "", p, len(c), bs, has, want)))
            if bool(im.flags & sqimg.FLAG_EXPORTABLE) != export:
                probs.append(("tar2sqfs:export-flag", "tar2sqfs -e=%s but exportable flag is %s" % (export, not export)))
            for pr in im.export_problems():
                probs.append(("tar2sqfs:export-table", pr))
        except Exception as e:  # noqa: BLE001
            probs.append(("tar2sqfs:image-unreadable", repr(e)))
    return probs


def f08_tool_witness(ctx, info):
    """F08 at tool level: the quoted name "b c" with priority -5 must be packed first."""
    G = info["tools"]["gensquashfs"]
    d = os.path.join(ctx.scratch, "f08")
    write_tree(os.path.join(d, "in"), [(b"a", b"aaaa"), (b"b c", b"bbbb"), (b"d", b"dddd")])
    open(os.path.join(d, "sort.txt"), "wb").write(b'-5 "b c"\n')
    r = subprocess.run([G, "-D", os.path.join(d, "in"), "-c", "gzip", "-S", os.path.join(d, "sort.txt"), "-f",
                        os.path.join(d, "o.sqfs")], stdout=subprocess.PIPE, stderr=subprocess.PIPE, env=ENV)
    order = packing_order(r.stdout)
    return r.returncode, order, r.stderr.decode("utf-8", "replace")


# ---------------------------------------------------------------------------------------------

def build_all(ctx):
    info = B.build("asan")
    R = B.REPO
    h_sort = B.compile_harness(info, [os.path.join(HERE, "h_sort.c")], "h_sort_c17",
                               extra=["-I" + R + "/bin/gensquashfs/src"])
    gen = [f for f in sorted(globmod.glob(R + "/bin/gensquashfs/src/*.c")) if not f.endswith("/mkfs.c")]
    h_pg = B.compile_harness(info, [os.path.join(HERE, "h_pack.c")] + gen, "h_pack_gen_c17",
                             extra=["-DH_PACK_GEN", "-I" + R + "/bin/gensquashfs/src"])
    h_pt = B.compile_harness(info, [os.path.join(HERE, "h_pack.c"), R + "/bin/tar2sqfs/src/options.c"], "h_pack_tar_c17",
                             extra=["-DH_PACK_TAR", "-I" + R + "/bin/tar2sqfs/src"])
    drv = core.build_model_driver("C17", "ExtractC17.v", os.path.join(HERE, "driver.ml"),
                                  stubs_c=os.path.join(HERE, "stubs.c"))
    return info, h_sort, h_pg, h_pt, drv


MAX_TOOL_SIGS = 6


def report_tool(ctx, case, probs, seen_sigs):
    for sig, what in probs:
        if sig in seen_sigs or len(seen_sigs) >= MAX_TOOL_SIGS:
            continue
        seen_sigs.add(sig)
        rep = dict(case)
        rep["files_readable"] = [(unhex(p).decode("latin-1"), len(unhex(c))) for p, c in case["files"]]
        rep["sortfile_readable"] = unhex(case["sortfile"]).decode("latin-1")
        rep["all_problems"] = [list(x) for x in probs[:10]]
        ctx.violation(sig, "gensquashfs -b %d%s%s%s -j %d with sort file %r: %s" % (
            case["bs"], " -T" if case["notail"] else "", " -e" if case["export"] else "",
            " -B %d" % case["devblk"] if case.get("devblk") else "", case["jobs"],
            unhex(case["sortfile"]).decode("latin-1"), what), rep)


def run(ctx):
    regen_gen_c17(ctx)
    info, h_sort, h_pg, h_pt, drv = build_all(ctx)
    ctx.trusted += [
        "props/C17/h_sort.c, h_pack.c, driver.ml, stubs.c (I/O glue; h_pack.c redirects sqfs_block_processor_create_ostream to a recorder)",
        "libc fnmatch(3) is the function both sides call (the theorems hold for every matcher)",
        "props/C17/sqimg.py: independent Python reader of SquashFS images (gzip only) used as layout decoder; cross-checked "
        "against rdsquashfs -s on one file per image",
        "props/C17/gen_c17.c: translator /repo headers -> coq/C17/GenC17.v (SQFS_BLK_* bits)",
        "props/C17/flagleg.py + driver_flags.ml (case generation, parsing, the Python restatement of the directive theorems); "
        "props/C08/h_dedup.c + weakhash.c (in-memory sqfs_file_t, toy compressor / checksum, implemented twice: Gallina and C); "
        "the one-line Python statement of pack_file used to apply -T on the C side of the component leg",
        "the independent Python statement of the sort-file semantics (py_parse_simple/py_expected) covers only lines of "
        "the simple grammar (decimal priority, optional flag list without quotes, unquoted name)",
        "props/C17/orderleg.py + driver_order.ml (order leg: case generation, the host tree / add operations handed to the "
        "extracted order_dir / order_ops - for -F the translation of `dir` / `file` lines into fstree_add_generic calls is "
        "restated in Python (C16 owns the parser) - and the decoding of data start offsets / fragment references with sqimg.py)",
        "props/C17/threshleg.py (size-class leg: the (-b, -B) pairs, the file sizes around both values, the contents, the "
        "property's rule 'tail fragment iff size % b != 0 and neither listed with dont_fragment nor (-T and size > b)' restated "
        "in Python next to the flag word of the extracted pack_flags; decoding with sqimg.py)",
        "props/C17/lineleg.py + h_line.c + driver_line.ml (line leg: h_line.c repeats the five statements of the loop body of "
        "fstree_sort_files in front of the matching loop around the included decoders; the expectations of the written / "
        "malformed streams are the generator's reading of gensquashfs(1) SORT FILE FORMAT, py_canon restates canonicalize_name)",
    ]
    ctx.assumptions += [
        "first_match_wins assumes distinct canonical paths in the file list (true for the nodes of one fstree) and that "
        "fstree_get_path output canonicalises (no '..' component; names are checked by fstree_add_generic)",
        "ctype classification is that of the C locale (no tool calls setlocale); sort files contain no NUL byte",
        "directive theorems: compressor contract of sqfs/compressor.h (C03/F07 check the real back ends), the pool hands "
        "work back in submission order (C09), no I/O or allocation failure, no 32/64-bit wrap (offsets are unbounded nat); "
        "dont_compress fragment clause: the tail end's fragment reference is not that of an earlier file (else F23)",
        "layout_follows_sort_file: the paths handed to fstree_add_generic consist of clean components (not empty, no '/', "
        "not '.' or '..'; for a scanned directory: the host's names); the bytes pack_file reads are a function of the file "
        "name it opens; fstree_sort_files touches only next_by_type / priority / flags / FLAG_FILE_ALREADY_MATCHED",
    ]
    work = os.path.join(ctx.scratch, "tool")
    os.makedirs(work, exist_ok=True)
    seen = set()

    if ctx.replay:
        rp = json.load(open(ctx.replay))
        kind = rp.get("kind")
        if kind == "tool":
            case = {k: rp[k] for k in ("kind", "bs", "files", "sortfile", "notail", "export", "jobs", "stat_pick", "devblk") if k in rp}
            report_tool(ctx, case, tool_case(ctx, info, case, work), seen)
            ctx.coverage["evaluations"] = 1
        elif kind == "sort":
            cases = [(rp["bufsz"], unhex(rp["text"]), [unhex(p) for p in rp["paths"]])]
            t = tie_sort(ctx, h_sort, drv, cases)
            finish_sort(ctx, info, t, work, seen, search=True)
        elif kind == "tar":
            for sig, what in tar_tool_check(ctx, info, work):
                ctx.violation(sig, what, dict(kind="tar"))
        elif kind == "flags":
            fres = flagleg.run_leg(ctx, [flagleg.case_of_replay(rp)])
            flagleg.report(ctx, fres, seen)
            ctx.coverage["evaluations"] = 1
        elif kind == "order":
            case = {k: rp[k] for k in ("kind", "id", "mode", "bs", "files", "sortfile", "notail", "jobs", "shuffle", "share")
                    if k in rp}
            ores = orderleg.run_leg(ctx, info, [case])
            finish_order(ctx, info, ores, work, seen)
            report_share(ctx, ores, seen)
            ctx.coverage["evaluations"] = 1
        elif kind == "line":
            lres = lineleg.run_leg(ctx, info, [lineleg.case_of_replay(rp)])
            lineleg.report(ctx, lres, seen)
            ctx.coverage["evaluations"] = 1
        elif kind == "thresh":
            thst, thbad = threshleg.run_leg(ctx, info, drv, work, [threshleg.case_of_replay(rp)])
            threshleg.report(ctx, info, thbad, seen)
            ctx.coverage["evaluations"] = 1
        elif kind == "pack":
            cases = [tuple(rp["case"])]
            bad = tie_pack(ctx, h_pg, h_pt, drv, cases)
            finish_pack(ctx, bad)
        else:
            ctx.violation("replay:not-replayable", "replay file names no input (kind=%r): re-run ./check C17" % kind,
                          dict(kind="none"), no_input=True)
        return

    quick = ctx.tier == "quick"
    core_chk = ctx.coverage.get("coqchk") if isinstance(ctx.coverage.get("coqchk"), dict) else None
    if not quick and not ctx.proof_broken and not (core_chk and core_chk.get("rc") == 0):
        # (vlib.core.prepare_proofs already runs coqchk in the thorough tier; with the Image closure one run
        # takes ~8 min, so it is not repeated here unless core skipped it)
        with core.Lock("coq"):
            rc, out = core.sh(["timeout", "1800", "coqchk", "-silent", "-o", "-Q", ".", "SqfsV", "SqfsV.Properties_C17"], cwd=core.COQ)
        ok = rc == 0 and "Axioms: <none>" in out
        ctx.coverage["coqchk"] = dict(rc=rc, axioms_none=("Axioms: <none>" in out))
        if not ok:
            ctx.proof_broken.append("coqchk on Properties_C17.vo: rc=%d %s" % (rc, out[-600:]))
    # ---- tie 1 ----
    cases = gen_sort_cases(ctx, 4000 if quick else 120000)
    t = tie_sort(ctx, h_sort, drv, cases)
    ctx.log("sort tie: %d cases, F08-explained mismatches %d, other mismatches %d, property failures %d"
            % (len(cases), len(t["f08"]), len(t["broken"]), len(t["prop_bad"])))
    tie_broken = finish_sort(ctx, info, t, work, seen, search=False)
    # ---- tie 5: the line parser / printer (SortFileModel) vs the decoders of sort_by_file.c ----
    n_line = 1500 if quick else 60000
    if tie_broken or ctx.proof_broken:
        n_line *= 3
    lcases = lineleg.gen_cases(ctx.seed, n_line)
    lres = lineleg.run_leg(ctx, info, lcases)
    lst = lres["stats"]
    ctx.log("line leg: %d lines (%d printed by the extracted printer), accepted %d, refused %d, skipped %d; expectation "
            "failures %d, tie mismatches %d" % (lst["cases"], lst["printed"], lst["accepted"], lst["refused"], lst["skipped"],
                                               len(lres["bad"]), len(lres["tie_bad"])))
    tie_broken |= lineleg.report(ctx, lres, seen)
    ctx.coverage["evaluations"] += lst["cases"]
    ctx.coverage["traces_validated_against_impl"] += lst["tied"]
    ctx.coverage["distinct_nontrivial"] += lst["accepted"] + lst["refused"]
    ctx.coverage.setdefault("distribution", {})["line_leg"] = dict(lst)
    ctx.add_samples(lres["samples"])
    # ---- tie 2 ----
    pcases = gen_pack_cases(ctx, 700 if quick else 5000)
    bad = tie_pack(ctx, h_pg, h_pt, drv, pcases)
    ctx.log("pack_flags tie: %d cases x 2 functions, mismatches %d" % (len(pcases), len(bad)))
    tie_broken |= bool(bad)
    # ---- tie 3 + component oracle: directive effects on the real block processor / block writer ----
    n_flag = 1500 if quick else 40000
    if tie_broken or ctx.proof_broken:
        n_flag *= 3
    fcases = flagleg.gen_cases(ctx.seed, n_flag)
    fres = flagleg.run_leg(ctx, fcases)
    fst = fres["stats"]
    ctx.log("flags leg: %d cases, tie mismatches %d, directive violations %d (F23 instances seen: %d)"
            % (fst["cases"], len(fres["tie_bad"]), len(fres["prop_bad"]), fst["f23_instances"]))
    flagleg.report(ctx, fres, seen)
    tie_broken |= bool(fres["tie_bad"] or fres["crash"] or fres["prop_bad"])
    ctx.coverage["evaluations"] += fst["cases"]
    ctx.coverage["traces_validated_against_impl"] += fst["tied"]
    ctx.coverage["distinct_nontrivial"] += fst["with_directive"]
    ctx.coverage.setdefault("distribution", {})["flags_leg"] = dict(fst)
    ctx.add_samples(fres["samples"])
    # ---- tie 4: the model's packing order vs the data offsets of real images ----
    n_order = 100 if quick else 3000
    if tie_broken or ctx.proof_broken:
        n_order *= 3
    n_share = 25 if quick else 600
    ocases = orderleg.directed_cases() + orderleg.gen_cases(ctx.seed, n_order) + \
        orderleg.directed_share_cases() + orderleg.gen_share_cases(ctx.seed, n_share)
    ores = orderleg.run_leg(ctx, info, ocases)
    ost = ores["stats"]
    ctx.log("order leg: %d images (%d from a description file), sort file refused %d, reordered %d, mismatches %d; "
            "%d with coinciding contents: %d shared runs, strong layout statement violated on %d"
            % (ost["cases"], ost["mode_F"], ost["refused"], ost["reordered"], len(ores["bad"]), ost["share_cases"],
               ost["files_shared"], len(ores["share_bad"])))
    tie_broken |= finish_order(ctx, info, ores, work, seen)
    report_share(ctx, ores, seen)
    ctx.coverage["evaluations"] += ost["cases"]
    ctx.coverage["traces_validated_against_impl"] += ost["cases"] - len(ores["bad"])
    ctx.coverage["distinct_nontrivial"] += ost["reordered"] + ost["refused"]
    ctx.coverage.setdefault("distribution", {})["order_leg"] = dict(ost)
    ctx.add_samples(ores["samples"])
    # ---- tool-level oracle (always; more when something broke) ----
    n_tool = 60 if quick else 1500
    if tie_broken or ctx.proof_broken:
        ctx.log("tie or proof broken (%r, %r) -> widening the search" % (tie_broken, ctx.proof_broken[:1]))
        n_tool *= 3
    tcases = [f22_witness_case()] + directed_tool_cases(4096) + (directed_tool_cases(8192) if not quick else []) + gen_tool_cases(ctx, n_tool)
    ntool_bad = 0
    stats = dict(images=0, with_T=0, with_e=0, files=0, sort_lines_with_flags=0)
    for case in tcases:
        probs = tool_case(ctx, info, case, work)
        stats["images"] += 1
        stats["with_T"] += int(case["notail"])
        stats["with_e"] += int(case["export"])
        stats["files"] += len(case["files"])
        stats["sort_lines_with_flags"] += unhex(case["sortfile"]).count(b"[")
        if probs:
            ntool_bad += 1
            report_tool(ctx, case, probs, seen)
    for case in known_finding_cases():
        report_tool(ctx, case, tool_case(ctx, info, case, work), seen)
    for sig, what in tar_tool_check(ctx, info, work):
        if sig not in seen:
            seen.add(sig)
            ctx.violation(sig, what, dict(kind="tar", note="fixed archive built by tar_tool_check(); re-run ./check C17"))
    # ---- size-class leg: -T / dont_fragment under -b != -B, both front ends, sizes around both values ----
    import time as _time
    _t0 = _time.time()
    thcases = threshleg.cases(quick)
    thst, thbad = threshleg.run_leg(ctx, info, drv, work, thcases)
    threshleg.report(ctx, info, thbad, seen)
    thst["seconds"] = round(_time.time() - _t0, 1)
    ctx.log("size-class leg: %d images (%d tar2sqfs, %d gensquashfs), %d files, %d of them between -b and -B, failing images %d "
            "(%.1f s)" % (thst["images"], thst["tar2sqfs"], thst["gensquashfs"], thst["files"], thst["in_between_sizes"],
                          thst["failing"], thst["seconds"]))
    ctx.coverage["evaluations"] += len(tcases) + 1 + thst["images"]
    ctx.coverage["distinct_nontrivial"] += len(tcases) + thst["images"]
    ctx.coverage["distribution"]["tool_oracle"] = stats
    ctx.coverage["distribution"]["size_class_leg"] = thst
    ctx.log("tool oracle: %d images, %d with problems" % (len(tcases), ntool_bad))
    # pack tie verdict after the search
    finish_pack(ctx, bad, concrete=any(not v["no_input"] for v in ctx.violations))
    ctx.coverage["rule"] = (
        "sort tie: fixed corner cases (every malformed-line class, every priority edge) + seeded random (file list <=12 paths "
        "over 26 components incl. quotes/backslash/glob characters, sort files of <=9 lines: exact/glob/glob_no_path lines "
        "derived from the paths, quoted names, flag subsets with padding/repeats, int64 edges, 12%% with one malformed line, "
        "LF/CRLF, stream buffer 1..1024); pack tie: all of {0,1,bs-1,bs,bs+1,2bs-1,2bs,2bs+1,10bs+7} x 4 block sizes x -T x 8 flag "
        "words + random; tool oracle: directed images per directive + seeded random trees (text/random/zero/holes/duplicate/"
        "same-tail contents, sizes around multiples of the block size) x sort file x -T x -e x -b x -j; seed %d; "
        "non-trivial = accepted sort file that changed some file's priority or flags / -T case with size > block size / "
        "every image; flags leg: one directed family per case split of the directive proofs (dont_compress tail opening / "
        "joining / after flush of a fragment block, F23, dont_fragment at sizes around k*block, all-zero blocks / tails / "
        "fragment block, duplicates with dont_deduplicate, self-overlapping runs, -T around one block) x -T x 2 checksum "
        "moduli + seeded random lists (block size 8..64, pool of zero / run-length / random blocks and tails, duplicates, "
        "flag subsets); order leg: the Coq example tree x {glob+negative+tie+unlisted, empty, comments, all tied, reversed, "
        "malformed} x -D/-F + seeded random trees (4..8 files over 23 names incl. blanks, quotes, backslash, glob characters; "
        "random bytes made pairwise different per block and tail; sizes k*bs + {0,1,17,300,bs-1}, tail-only and empty "
        "files) x sort files of 1..7 lines (exact / glob / glob_no_path lines, quoted names with escapes, leading '/', './', "
        "'//', comments, blank lines, CRLF, padded flag lists, int64 edge priorities, ties, 8%% with a malformed line) x -T x -j "
        "x readdir order / line order of the description file shuffled; line leg: 32 fixed lines (manual's example, empty flag "
        "list, both glob keywords, int64 edges, one per malformed class) + seeded random entries (priority small / int64 edges / "
        "uniform, glob mode, flag subsets, names over 26 pieces incl. blanks, quotes, backslash, brackets, '#', ',', '.', '..', "
        "control and high bytes, '//' and leading './') as 30%% printed by the extracted printer (+ LF / CRLF), 30%% written by "
        "hand (unquoted / quoted name, tabs, padded / repeated / both glob keywords, '[]', indentation, blank lines in front), "
        "32%% one-defect malformed lines of 16 classes, 8%% random byte edits; size-class leg: tar2sqfs and gensquashfs x 7 (-b, -B) "
        "pairs (b > B, b < B, b == B, explicit and default -B, the default 128K block) x files of {1, B-1, B, B+1, b-1, b, b+1, "
        "b+B, 2b, 2b+1} bytes x -T on/off x (gensquashfs) no sort file / dont_fragment on the even / on the odd files" % ctx.seed)


def finish_sort(ctx, info, t, work, seen, search):
    """turn the outcome of the sort tie into violations; returns True if the tie is broken"""
    rep = t["rep"]
    for i, why in t["prop_bad"][:3]:
        sig = "sort-property:" + re.sub(r"[^a-z-]+", "", why.split(":")[0].lower().replace(" ", "-"))[:40]
        if sig not in seen:
            seen.add(sig)
            ctx.violation(sig, "fstree_sort_files violates C17: " + why, dict(rep(i), impl=t["res"][i]["line"]))
    if t["f08"]:
        i = min(t["f08"], key=lambda k: len(rep(k)["text"]))
        rc, order, err = f08_tool_witness(ctx, info)
        if order[:1] == [b"b c"]:
            # the tool honours the quoted name: these mismatches only look like F08, treat them as any other
            t["broken"] += [(k, (t["res"][k]["rc"], t["res"][k]["out"]), "model of the repaired code differs") for k in t["f08"]]
            t["f08"] = []
    if t["f08"]:
        r = dict(rep(i), impl=t["res"][i]["line"], tool_witness=dict(sort_file='-5 "b c"', files=["a", "b c", "d"],
                                                                      packing_order=[o.decode() for o in order], stderr=err[-300:]))
        concrete = order[:1] != [b"b c"]
        ctx.violation("F08:sort-file-quoted-name-not-terminated",
                      "decode_filename does not terminate the unquoted name: a quoted sort-file name is matched with "
                      "trailing garbage (%d of the generated cases behave like the model of the unrepaired code); "
                      "gensquashfs -S with the line  -5 \"b c\"  packs in order %r, so the directive is %s"
                      % (len(t["f08"]), [o.decode() for o in order], "ignored" if concrete else "honoured at tool level"),
                      r, no_input=not concrete)
    if t["broken"] and not t["prop_bad"]:
        i, impl, model = t["broken"][0]
        ctx.tie_broken.append("sort_files = fstree_sort_files")
        ctx.violation("tie-sort", "correspondence sort_files (model) vs fstree_sort_files broken on %d cases, first: impl=%r "
                      "model=%r; the independent statement of the property holds on the implementation output for all "
                      "cases it covers" % (len(t["broken"]), impl, model),
                      dict(rep(i), impl=repr(impl), model=repr(model), more=[rep(k[0]) for k in t["broken"][1:4]],
                           correspondence="props/C17: sort_files = fstree_sort_files (exact: rc, order, priority, flags)"),
                      no_input=True)
    return bool(t["broken"]) or bool(t["prop_bad"])


def order_oracle(info, c, work):
    """C17's order clause stated without the model, on one case of the order leg: the tool's own default order (the
    `packing` lines of a run without -S), stably sorted by the priority of the first matching line (Python statement,
    simple grammar only), must be the order of the pack_file calls with -S and the order of the data start offsets.
    Returns a description of the violation or None."""
    dirs = py_parse_simple(unhex(c["sortfile"]))
    if dirs is None:
        return None
    base = orderleg.run_real(info, c, work, with_sort=False)
    real = orderleg.run_real(info, c, work, with_sort=True)
    if base["rc"] != 0 or real["rc"] != 0:
        return None
    default = base["packing"]
    if sorted(default) != sorted(unhex(p) for p, _ in c["files"]):
        return None
    prio = {p: py_assign(dirs, py_canon(p))[0] for p in default}
    want = sorted(default, key=lambda p: prio[p])
    if real["packing"] != want:
        return ("files packed in order %r, the directives demand %r (priorities %r; default order %r)"
                % (real["packing"], want, [prio[p] for p in want], default))
    by_start = sorted(real["starts"], key=lambda p: real["starts"][p])
    if not c.get("share") and by_start != [p for p in want if p in real["starts"]]:
        return ("data start offsets %r do not follow the order the directives demand %r (contents are pairwise different, "
                "nothing can be shared)" % ([(p, real["starts"][p]) for p in by_start], want))
    return None


def report_share(ctx, ores, seen):
    """the strong layout statement (layout_follows_order_strong / distinct_data_laid_out_in_order) evaluated by
    orderleg.share_statement on real images whose files coincide on purpose: a violation is a concrete input"""
    for c, probs in ores["share_bad"][:1]:
        if "order:layout-share" in seen:
            break
        seen.add("order:layout-share")
        rep = dict(c)
        rep["files_readable"] = [(unhex(p).decode("latin-1"), len(unhex(d))) for p, d in c["files"]]
        rep["sortfile_readable"] = unhex(c["sortfile"]).decode("latin-1")
        rep["problems"] = probs[:4]
        ctx.violation("order:layout-share", "gensquashfs %s -b %d%s -j %d with sort file %r on files with coinciding "
                      "contents: %s (on %d images)"
                      % ("-D" if c["mode"] == "D" else "-F", c["bs"], " -T" if c["notail"] else "", c["jobs"],
                         unhex(c["sortfile"]).decode("latin-1"), probs[0][:500], len(ores["share_bad"])), rep)


def finish_order(ctx, info, ores, work, seen):
    """order leg verdict: a disagreement between the model's packing order and the real image is first handed to the
    independent tool-level oracle (same tree and sort file through gensquashfs -D; Python statement of the sort-file
    semantics); returns True if the tie is broken"""
    if ores["drv"][0] != 0:
        ctx.tie_broken.append("order_dir/order_ops driver failed")
        ctx.violation("tie-order:driver", "model driver of the order leg failed: rc=%r %s" % ores["drv"], dict(kind="none"),
                      no_input=True)
        return True
    if not ores["bad"]:
        return False
    concrete = False
    for c, probs, pred in ores["bad"][:6]:
        # (a) the independent statement on the very run that disagrees (same mode, same options)
        why = order_oracle(info, c, os.path.join(work, "order-search"))
        if why:
            concrete = True
            if "order:layout-order" not in seen:
                seen.add("order:layout-order")
                rep = dict(c)
                rep["files_readable"] = [(unhex(p).decode("latin-1"), len(unhex(d))) for p, d in c["files"]]
                rep["sortfile_readable"] = unhex(c["sortfile"]).decode("latin-1")
                rep["model"] = pred
                ctx.violation("order:layout-order", "gensquashfs %s -b %d%s -j %d with sort file %r: %s"
                              % ("-D" if c["mode"] == "D" else "-F", c["bs"], " -T" if c["notail"] else "", c["jobs"],
                                 unhex(c["sortfile"]).decode("latin-1"), why), rep)
            continue
        # (b) the full tool-level oracle on the same tree and sort file (through -D)
        tc = dict(kind="tool", bs=c["bs"], files=c["files"], sortfile=c["sortfile"], notail=c["notail"], export=False,
                  jobs=c["jobs"], stat_pick=0)
        tp = tool_case(ctx, info, tc, work)
        if tp:
            concrete = True
            report_tool(ctx, tc, tp, seen)
    c, probs, pred = ores["bad"][0]
    if not concrete and "tie-order" not in seen:
        seen.add("tie-order")
        ctx.tie_broken.append("order_dir/order_ops = order of the pack_file calls / data offsets of gensquashfs -S")
        rep = dict(c)
        rep["files_readable"] = [(unhex(p).decode("latin-1"), len(unhex(d))) for p, d in c["files"]]
        rep["sortfile_readable"] = unhex(c["sortfile"]).decode("latin-1")
        rep["model"] = pred
        rep["problems"] = probs[:4]
        rep["correspondence"] = ("props/C17 order leg: OrderModel.order_dir / order_ops (scan or adds, post processing, "
                                 "fstree_sort_files, list handed to pack_files) = files of the real image by data start offset")
        ctx.violation("tie-order", "gensquashfs %s -b %d%s -j %d with sort file %r lays the files out differently from the "
                      "model's packing order on %d of %d images, first: %s; the independent Python statement found no violation "
                      "it can express (it covers sort files of the simple grammar only)"
                      % ("-D" if c["mode"] == "D" else "-F", c["bs"], " -T" if c["notail"] else "", c["jobs"],
                         unhex(c["sortfile"]).decode("latin-1"), len(ores["bad"]), ores["stats"]["cases"], probs[0][:600]),
                      rep, no_input=True)
    return True


def finish_pack(ctx, bad, concrete=False):
    if not bad:
        return
    name, c, got, want = bad[0]
    ctx.tie_broken.append("pack_flags = pack_file/write_file flag computation")
    ctx.violation("tie-pack:" + name, "correspondence pack_flags (model) vs %s broken on %d cases, first: no_tail=%d filesize=%d "
                  "block_size=%d node_flags=%d -> implementation hands flags %s to the block processor, model %s"
                  % (name, len(bad), c[0], c[1], c[2], c[3], got, want),
                  dict(kind="pack", case=list(c), function=name, impl=got, model=want,
                       correspondence="props/C17: pack_flags = flags passed to sqfs_block_processor_create_ostream"),
                  no_input=True)


def setup():
    core.build_model_driver("C17", "ExtractC17.v", os.path.join(HERE, "driver.ml"), stubs_c=os.path.join(HERE, "stubs.c"))
    flagleg.model_driver()
    orderleg.model_driver()
    lineleg.model_driver()
