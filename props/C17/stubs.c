/* C17 model driver: binds the model's fnmatch oracle to libc fnmatch(3), the function
 * sort_by_file.c calls. */
#include <fnmatch.h>
#include <caml/mlvalues.h>

value c17_fnmatch(value pattern, value path, value pathname)
{
	int r = fnmatch(String_val(pattern), String_val(path), Bool_val(pathname) ? FNM_PATHNAME : 0);
	return Val_bool(r == 0);
}
