"""Independent (Python) reader for SquashFS 4.0 images with the gzip compressor: just enough
to decode, for every regular file, the block list (size words, compressed bit), fragment
reference, data start offset and contents, plus the fragment table and the export table.
Shares no code with /repo.  Used by props/C17/check.py as the layout decoder of the
tool-level oracle."""
import struct
import zlib

SUPER = struct.Struct("<IIIIIHHHHHHQQQQQQQQ")
FLAG_EXPORTABLE = 0x0080
NOFRAG = 0xFFFFFFFF
NOTABLE = 0xFFFFFFFFFFFFFFFF


class ImgError(Exception):
    pass


class Meta:
    """metadata stream starting at absolute offset `base`"""

    def __init__(self, img, base, limit):
        self.img, self.base, self.limit = img, base, limit
        self.cache = {}

    def block(self, pos):
        if pos in self.cache:
            return self.cache[pos]
        if pos + 2 > len(self.img):
            raise ImgError("metadata block header outside the image at %d" % pos)
        hdr, = struct.unpack_from("<H", self.img, pos)
        size = hdr & 0x7FFF
        raw = self.img[pos + 2: pos + 2 + size]
        if len(raw) != size:
            raise ImgError("metadata block truncated at %d" % pos)
        data = raw if hdr & 0x8000 else zlib.decompress(raw)
        if len(data) > 8192:
            raise ImgError("metadata block too large at %d" % pos)
        self.cache[pos] = (data, pos + 2 + size)
        return self.cache[pos]

    def read(self, blk, off, n):
        """n bytes from (block start relative to base, offset) -> (bytes, (blk, off) after)"""
        out = b""
        pos = self.base + blk
        while n > 0:
            data, nxt = self.block(pos)
            if off > len(data):
                raise ImgError("offset beyond metadata block")
            take = data[off: off + n]
            out += take
            n -= len(take)
            off += len(take)
            if n > 0:
                if off < len(data):
                    raise ImgError("short metadata read")
                pos, off = nxt, 0
            elif off == len(data) and len(data) == 8192:
                pos, off = nxt, 0
        return out, (pos - self.base, off)


class Image:
    def __init__(self, path):
        self.img = open(path, "rb").read()
        if len(self.img) < SUPER.size:
            raise ImgError("image shorter than a super block")
        (self.magic, self.inode_count, self.mtime, self.block_size, self.frag_count, self.comp, self.block_log,
         self.flags, self.id_count, self.vmaj, self.vmin, self.root_ref, self.bytes_used, self.id_start,
         self.xattr_start, self.inode_start, self.dir_start, self.frag_start, self.export_start) = SUPER.unpack_from(self.img, 0)
        if self.magic != 0x73717368:
            raise ImgError("bad magic")
        if self.comp != 1:
            raise ImgError("sqimg only reads gzip images")
        self.inodes = Meta(self.img, self.inode_start, self.dir_start)
        self.dirs = Meta(self.img, self.dir_start, self.frag_start)
        self.files = {}        # path -> dict
        self.dirs_seen = []    # paths of directories
        self.inode_by_num = {}
        self.frags = self._table(self.frag_start, self.frag_count, 16, "<QII") if self.frag_count else []
        self._walk(self.root_ref, "")

    def _table(self, start, count, esz, fmt):
        if start == NOTABLE:
            return None
        per = 8192 // esz
        nblk = (count + per - 1) // per
        out = []
        for i in range(nblk):
            loc, = struct.unpack_from("<Q", self.img, start + 8 * i)
            m = Meta(self.img, loc, len(self.img))
            data, _ = m.block(loc)
            for j in range(0, len(data), esz):
                if len(out) < count:
                    out.append(struct.unpack_from(fmt, data, j))
        if len(out) != count:
            raise ImgError("table shorter than its entry count")
        return out

    def inode(self, ref):
        blk, off = ref >> 16, ref & 0xFFFF
        hdr, pos = self.inodes.read(blk, off, 16)
        typ, mode, uid, gid, mtime, num = struct.unpack("<HHHHII", hdr)
        ino = dict(type=typ, mode=mode, uid=uid, gid=gid, mtime=mtime, num=num, ref=ref)
        if typ == 1:
            b, pos = self.inodes.read(pos[0], pos[1], 16)
            ino["start_block"], ino["nlink"], ino["size"], ino["offset"], ino["parent"] = struct.unpack("<IIHHI", b)
        elif typ == 8:
            b, pos = self.inodes.read(pos[0], pos[1], 24)
            (ino["nlink"], ino["size"], ino["start_block"], ino["parent"], ino["icount"], ino["offset"],
             ino["xattr"]) = struct.unpack("<IIIIHHI", b)
        elif typ in (2, 9):
            if typ == 2:
                b, pos = self.inodes.read(pos[0], pos[1], 16)
                ino["blocks_start"], ino["frag_idx"], ino["frag_off"], ino["file_size"] = struct.unpack("<IIII", b)
                ino["sparse"] = 0
            else:
                b, pos = self.inodes.read(pos[0], pos[1], 40)
                (ino["blocks_start"], ino["file_size"], ino["sparse"], ino["nlink"], ino["frag_idx"], ino["frag_off"],
                 ino["xattr"]) = struct.unpack("<QQQIIII", b)
            bs = self.block_size
            n = ino["file_size"] // bs
            if ino["frag_idx"] == NOFRAG and ino["file_size"] % bs:
                n += 1
            b, pos = self.inodes.read(pos[0], pos[1], 4 * n)
            words = struct.unpack("<%dI" % n, b)
            ino["words"] = words
            ino["blocks"] = [(w & 0xFFFFFF, not (w & (1 << 24))) for w in words]   # (on-disk size, compressed?)
        self.inode_by_num[num] = ino
        return ino

    def _walk(self, ref, path):
        ino = self.inode(ref)
        if ino["type"] in (1, 8):
            self.dirs_seen.append(path or "/")
            size = ino["size"] - 3
            blk, off = ino["start_block"], ino["offset"]
            pos = (blk, off)
            while size > 0:
                b, pos = self.dirs.read(pos[0], pos[1], 12)
                count, start, inum = struct.unpack("<III", b)
                size -= 12
                for _ in range(count + 1):
                    b, pos = self.dirs.read(pos[0], pos[1], 8)
                    eoff, diff, typ, nlen = struct.unpack("<HhHH", b)
                    name, pos = self.dirs.read(pos[0], pos[1], nlen + 1)
                    size -= 8 + nlen + 1
                    child = (start << 16) | eoff
                    self._walk(child, (path + "/" if path else "") + name.decode("utf-8", "surrogateescape"))
        elif ino["type"] in (2, 9):
            self.files[path] = ino
        else:
            pass

    # ---- data ----
    def frag_entry(self, idx):
        start, word, _ = self.frags[idx]
        return dict(start=start, size=word & 0xFFFFFF, compressed=not (word & (1 << 24)))

    def frag_block(self, idx):
        e = self.frag_entry(idx)
        if e["size"] == 0 or e["start"] < SUPER.size:
            raise ImgError("fragment table entry %d does not describe a stored block (start %d, size %d)"
                           % (idx, e["start"], e["size"]))
        raw = self.img[e["start"]: e["start"] + e["size"]]
        return zlib.decompress(raw) if e["compressed"] else raw

    def read_file(self, ino):
        bs = self.block_size
        out = []
        pos = ino["blocks_start"]
        left = ino["file_size"]
        for size, comp in ino["blocks"]:
            want = min(bs, left)
            if size == 0:
                out.append(b"\0" * want)
            else:
                raw = self.img[pos: pos + size]
                data = zlib.decompress(raw) if comp else raw
                if len(data) != want:
                    raise ImgError("block decodes to %d bytes, expected %d" % (len(data), want))
                out.append(data)
                pos += size
            left -= want
        if ino["frag_idx"] != NOFRAG:
            fb = self.frag_block(ino["frag_idx"])
            tail = fb[ino["frag_off"]: ino["frag_off"] + left]
            if len(tail) != left:
                raise ImgError("fragment slice outside its block")
            out.append(tail)
            left = 0
        if left:
            raise ImgError("file data shorter than file size")
        return b"".join(out)

    def data_range(self, ino):
        """[start, end) of the stored (non-sparse) blocks, None if there are none"""
        tot = sum(s for s, _ in ino["blocks"])
        if tot == 0:
            return None
        return (ino["blocks_start"], ino["blocks_start"] + tot)

    # ---- export table ----
    def export_problems(self):
        probs = []
        exportable = bool(self.flags & FLAG_EXPORTABLE)
        if not exportable:
            if self.export_start != NOTABLE:
                probs.append("export table present (start=%d) but super block flag not set" % self.export_start)
            return probs
        if self.export_start == NOTABLE:
            return ["super block says exportable but there is no export table"]
        if not (self.dir_start <= self.export_start < self.id_start <= len(self.img)):
            probs.append("export table start %d not between directory table %d and id table %d" %
                         (self.export_start, self.dir_start, self.id_start))
            return probs
        walked = dict(self.inode_by_num)
        try:
            tbl = self._table(self.export_start, self.inode_count, 8, "<Q")
        except (ImgError, struct.error, zlib.error) as e:
            return ["export table unreadable: %r" % (e,)]
        for i, (ref,) in enumerate(tbl):
            try:
                ino = self.inode(ref)
            except (ImgError, struct.error, zlib.error) as e:
                probs.append("export entry %d -> unreadable inode ref 0x%x (%r)" % (i + 1, ref, e))
                continue
            if ino["num"] != i + 1:
                probs.append("export entry %d -> inode number %d" % (i + 1, ino["num"]))
        for num, ino in walked.items():
            if num < 1 or num > len(tbl) or tbl[num - 1][0] != ino["ref"]:
                probs.append("inode %d (ref 0x%x) not what the export table says" % (num, ino["ref"]))
        return probs
