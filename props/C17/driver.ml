(* C17 model driver.
   "S <t> <hex sort file|-> <hexrawpath,...|->"  ->  "<rc> <id:prio:flags,...|->"   (t: 1 = repaired decode_filename, 0 = as found)
   "P <no_tail 0|1> <filesize> <block_size> <flags>" -> "<flags>"
   "L <t> <hex line>" -> parse_line result *)
open C17_model

external c_fnmatch : string -> string -> bool -> bool = "c17_fnmatch"

let rec pos_of_int i = if i = 1 then XH else if i land 1 = 1 then XI (pos_of_int (i lsr 1)) else XO (pos_of_int (i lsr 1))
let n_of_int i = if i = 0 then N0 else Npos (pos_of_int i)
let rec int_of_pos = function XH -> 1 | XO p -> 2 * int_of_pos p | XI p -> 2 * int_of_pos p + 1
let int_of_n = function N0 -> 0 | Npos p -> int_of_pos p
let rec i64_of_pos = function
  | XH -> 1L
  | XO p -> Int64.mul 2L (i64_of_pos p)
  | XI p -> Int64.add (Int64.mul 2L (i64_of_pos p)) 1L
let i64_of_z = function Z0 -> 0L | Zpos p -> i64_of_pos p | Zneg p -> Int64.neg (i64_of_pos p)
let rec pos_of_i64 i =
  if i = 1L then XH
  else if Int64.logand i 1L = 1L then XI (pos_of_i64 (Int64.shift_right_logical i 1))
  else XO (pos_of_i64 (Int64.shift_right_logical i 1))
let n_of_i64 i = if i = 0L then N0 else Npos (pos_of_i64 i)

let unhex s =
  if s = "-" then [] else
  let n = String.length s / 2 in
  List.init n (fun i -> n_of_int (int_of_string ("0x" ^ String.sub s (2*i) 2)))
let hex l =
  let b = Buffer.create 64 in
  List.iter (fun c -> Buffer.add_string b (Printf.sprintf "%02x" (int_of_n c))) l;
  if Buffer.length b = 0 then "-" else Buffer.contents b
let str_of l =
  let b = Buffer.create 64 in
  List.iter (fun c -> Buffer.add_char b (Char.chr (int_of_n c))) l;
  Buffer.contents b

let fnm pat path flag = c_fnmatch (str_of pat) (str_of path) flag

let show_nodes ns =
  if ns = [] then "-" else
  String.concat "," (List.map (fun n ->
    Printf.sprintf "%d:%Ld:%d" (int_of_n n.n_id) (i64_of_z n.n_prio) (int_of_n n.n_flags)) ns)

let () =
  try
    while true do
      let line = input_line stdin in
      match String.split_on_char ' ' line with
      | ["S"; t; sf; paths] ->
        let ps = if paths = "-" then [] else List.map unhex (String.split_on_char ',' paths) in
        (match sort_files fnm (t = "1") ps (unhex sf) with
         | ROk out -> Printf.printf "0 %s\n" (show_nodes out)
         | RErr -> print_string "-1 -\n"
         | RFuel -> print_string "FUEL -\n")
      | ["P"; nt; fsz; bs; fl] ->
        let r = pack_flags (nt = "1") (n_of_i64 (Int64.of_string fsz)) (n_of_i64 (Int64.of_string bs))
                  (n_of_i64 (Int64.of_string fl)) in
        Printf.printf "%d\n" (int_of_n r)
      | ["L"; t; l] ->
        (match parse_line (t = "1") (unhex l) with
         | LnSkip -> print_string "skip\n"
         | LnErr -> print_string "err\n"
         | LnFuel -> print_string "FUEL\n"
         | LnDir d -> Printf.printf "dir %Ld %b %b %d %s\n" (i64_of_z d.d_prio) d.d_glob d.d_path
                       (int_of_n d.d_flags) (hex d.d_name))
      | _ -> print_string "BAD-INPUT\n"
    done
  with End_of_file -> ()
