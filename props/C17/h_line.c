/* C17 harness for the sort file's LINE PARSER: includes the working tree's sort_by_file.c and runs the
 * statements of ONE iteration of the loop of fstree_sort_files() up to (not including) the matching loop:
 * istream_get_line(LTRIM|RTRIM|SKIP_EMPTY), the '#' test, decode_priority, decode_flags, decode_filename.
 *
 * stdin, one case per line:   <hex raw bytes | ->
 * stdout, one line per case:  skip | err | dir <prio> <do_glob> <path_glob> <flags> <hex name | ->
 * (same format as the model driver driver_line.ml).  Diagnostics of the decoders go to stderr (discarded). */
#include "config.h"
#include "mkfs.h"
#include "bin/gensquashfs/src/sort_by_file.c"

#include <stdio.h>
#include <string.h>
#include <stdlib.h>
#include <inttypes.h>

static int hv(int c) { return c <= '9' ? c - '0' : c - 'a' + 10; }

int main(void)
{
	static char in[1 << 16], raw[1 << 15];
	(void)sort_file_list;

	while (fgets(in, sizeof(in), stdin) != NULL) {
		size_t n = strlen(in), len = 0, i, line_num = 1;
		bool do_glob = false, path_glob = false;
		sqfs_istream_t *mem;
		sqfs_s64 priority = 0;
		char *line = NULL;
		int ret, flags = 0;

		while (n > 0 && (in[n - 1] == '\n' || in[n - 1] == '\r')) in[--n] = 0;
		if (strcmp(in, "-"))
			for (i = 0; i + 1 < n; i += 2)
				raw[len++] = (char)(hv(in[i]) * 16 + hv(in[i + 1]));

		mem = istream_memory_create("sortfile", 7, raw, len);
		if (mem == NULL) { puts("HARNESS-ERROR memstream"); continue; }

		ret = istream_get_line(mem, &line, &line_num,
				       ISTREAM_LINE_LTRIM | ISTREAM_LINE_RTRIM | ISTREAM_LINE_SKIP_EMPTY);
		if (ret != 0) {
			free(line);
			puts(ret < 0 ? "err" : "skip");
		} else if (line[0] == '#') {
			free(line);
			puts("skip");
		} else if (decode_priority("sortfile", line_num, line, &priority) ||
			   decode_flags("sortfile", line_num, &do_glob, &path_glob, &flags, line) ||
			   decode_filename("sortfile", line_num, line)) {
			free(line);
			puts("err");
		} else {
			const char *s;
			printf("dir %" PRId64 " %d %d %d ", (int64_t)priority, (int)do_glob, (int)path_glob, flags);
			if (*line == 0) fputs("-", stdout);
			for (s = line; *s; ++s) printf("%02x", (unsigned char)*s);
			putchar('\n');
			free(line);
		}
		sqfs_drop(mem);
		fflush(stdout);
	}
	return 0;
}
