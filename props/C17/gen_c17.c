/* C17: prints coq/C17/GenC17.v from /repo's current headers (compiled and run by props/C17/check.py). */
#include "config.h"
#include <stdio.h>
#include "sqfs/block.h"
#include "sqfs/super.h"
#include "fstree.h"

#define C(name) printf("Definition c_%s : N := %llu.\n", #name, (unsigned long long)(name))

int main(void)
{
	printf("(* GENERATED from /repo headers by props/C17/gen_c17.c -- do not edit *)\n");
	printf("From Coq Require Import NArith.\nLocal Open Scope N_scope.\n");
	C(SQFS_BLK_DONT_COMPRESS); C(SQFS_BLK_DONT_HASH); C(SQFS_BLK_DONT_FRAGMENT); C(SQFS_BLK_DONT_DEDUPLICATE);
	C(SQFS_BLK_IGNORE_SPARSE); C(SQFS_BLK_USER_SETTABLE_FLAGS);
	C(FLAG_FILE_ALREADY_MATCHED);
	return 0;
}
