(* C17 component leg, model side: the packer of the tools (FlagModel.tool_pack = pack_flags of
   pack_file + C08's block processor / block writer model) on a list of (node flag word, content).
   stdin, one case per line:
     <no_tail> <bs> <hashmod> <initlen> <nfiles> {<node flag word> <hex|->}*
   stdout, one line per case (the F= T= X= R= fields of props/C08/h_dedup.c):
     ok F=<start/nwords/w.w.w/fidx.foff;...> T=<loc.sw,...> X=<filehex> R=<hex|ERR;...>
   The model is run under three schedules of "fragment block comes back from the pool"; the output
   must not depend on it. *)
open C17_flags_model

let rec pos_of_int i = if i = 1 then XH else if i land 1 = 1 then XI (pos_of_int (i lsr 1)) else XO (pos_of_int (i lsr 1))
let n_of_int i = if i = 0 then N0 else Npos (pos_of_int i)
let rec int_of_pos = function XH -> 1 | XO p -> 2 * int_of_pos p | XI p -> 2 * int_of_pos p + 1
let int_of_n = function N0 -> 0 | Npos p -> int_of_pos p
let rec nat_of_int i = if i <= 0 then O else S (nat_of_int (i - 1))
let int_of_nat n = let rec go acc = function O -> acc | S m -> go (acc + 1) m in go 0 n

let unhex s =
  if s = "-" then [] else
  let n = String.length s / 2 in
  List.init n (fun i -> n_of_int (int_of_string ("0x" ^ String.sub s (2*i) 2)))
let hex l =
  let b = Buffer.create 64 in
  List.iter (fun c -> Buffer.add_string b (Printf.sprintf "%02x" (int_of_n c))) l;
  if Buffer.length b = 0 then "-" else Buffer.contents b

let run_one nt bs hm init files sched =
  let hashf = toy_hash (n_of_int hm) in
  match tool_pack hashf toy_compress toy_uncompress (nat_of_int bs) half_scratch nt init files sched with
  | Err -> "err"
  | Fuel -> "FUEL"
  | Ok st ->
    let b = Buffer.create 1024 in
    Buffer.add_string b "ok F=";
    if files = [] then Buffer.add_string b "-";
    List.iteri (fun i _ ->
      if i > 0 then Buffer.add_char b ';';
      let fid = nat_of_int i in
      let nw = int_of_nat (p_nwords st fid) in
      Buffer.add_string b (Printf.sprintf "%d/%d/" (int_of_nat (p_start st fid)) nw);
      if nw = 0 then Buffer.add_char b '-';
      for k = 0 to nw - 1 do
        if k > 0 then Buffer.add_char b '.';
        (match p_size st fid (nat_of_int k) with
         | Some w -> Buffer.add_string b (string_of_int (int_of_n w))
         | None -> Buffer.add_char b '?')
      done;
      Buffer.add_char b '/';
      (match p_frag st fid with
       | Some (fi, fo) -> Buffer.add_string b (Printf.sprintf "%d.%d" (int_of_nat fi) (int_of_nat fo))
       | None -> Buffer.add_char b '-')) files;
    Buffer.add_string b " T=";
    let nf = int_of_nat (p_nfrag st) in
    if nf = 0 then Buffer.add_char b '-';
    for i = 0 to nf - 1 do
      if i > 0 then Buffer.add_char b ',';
      let (loc, w) = p_ftab st (nat_of_int i) in
      Buffer.add_string b (Printf.sprintf "%d.%d" (int_of_nat loc) (int_of_n w))
    done;
    Buffer.add_string b " X=";
    Buffer.add_string b (hex (w_file (p_wr st)));
    Buffer.add_string b " R=";
    if files = [] then Buffer.add_char b '-';
    List.iteri (fun i (_, d) ->
      if i > 0 then Buffer.add_char b ';';
      match read_back toy_uncompress (nat_of_int bs) st (nat_of_int i) (nat_of_int (List.length d)) with
      | Some x -> Buffer.add_string b (hex x)
      | None -> Buffer.add_string b "ERR") files;
    Buffer.contents b

let () =
  try
    while true do
      let line = input_line stdin in
      let toks = Array.of_list (List.filter (fun s -> s <> "") (String.split_on_char ' ' line)) in
      if Array.length toks >= 5 then begin
        let iv k = int_of_string toks.(k) in
        let nt = iv 0 <> 0 and bs = iv 1 and hm = iv 2 and initlen = iv 3 and nfiles = iv 4 in
        let init = List.init initlen (fun i -> n_of_int (0xA0 + (i mod 7))) in
        let files = List.init nfiles (fun i -> (n_of_int (int_of_string toks.(5 + 2*i)), unhex toks.(6 + 2*i))) in
        let lazy_s = [] in
        let eager_s = List.init nfiles (fun _ -> nat_of_int 3) in
        let seed = ref (bs * 7919 + nfiles * 104729 + hm) in
        let rnd_s = List.init nfiles (fun _ -> seed := (!seed * 1103515245 + 12345) land 0x3fffffff; nat_of_int ((!seed lsr 16) mod 3)) in
        let a = run_one nt bs hm init files lazy_s in
        let b = run_one nt bs hm init files eager_s in
        let c = run_one nt bs hm init files rnd_s in
        if a = b && b = c then print_endline a
        else print_endline ("SCHED-MISMATCH lazy=[" ^ a ^ "] eager=[" ^ b ^ "] rnd=[" ^ c ^ "]")
      end
    done
  with End_of_file -> ()
