/* C17 harness: links the working tree's sort_by_file.c (included, to stay independent of the
 * tool's main) against the libraries of the working tree.
 *
 * stdin, one case per line:   <bufsz> <hex sort file | -> <hexpath,hexpath,... | ->
 * stdout, one line per case:  R <hex raw path of initial file #0,#1,... | -> <rc> <id:prio:flags,... | -> F<0|1>
 *   raw path = what fstree_get_path() returns for the node; id = position of the node in
 *   fs->files before fstree_sort_files() ran; the fourth field is fs->files afterwards.
 *   F1: fstree_sort_files left every byte of the fstree_t and of every tree node as it was, except the four things
 *   the model of the sort stage says it touches (fs->files, next_by_type, data.file.priority / .flags of regular
 *   files, FLAG_FILE_ALREADY_MATCHED) - the frame of the modelling decision "the sort stage cannot change the tree"
 *   (Properties_C17.v, remark at tree_unchanged_by_sort_file), checked on the real function.
 * fnmatch() calls of the included code go to libc (same function the model driver binds). */
#include "config.h"
#include "mkfs.h"
#include "bin/gensquashfs/src/sort_by_file.c"

#include <stdio.h>
#include <string.h>
#include <stdlib.h>
#include <inttypes.h>

static int hv(int c) { return c <= '9' ? c - '0' : c - 'a' + 10; }

static size_t unhex(const char *s, size_t n, char *out)
{
	size_t i, len = 0;
	for (i = 0; i + 1 < n; i += 2)
		out[len++] = (char)(hv(s[i]) * 16 + hv(s[i + 1]));
	out[len] = 0;
	return len;
}

static void puthex(const char *s)
{
	if (*s == 0) { fputs("-", stdout); return; }
	for (; *s; ++s) printf("%02x", (unsigned char)*s);
}

#define MAXN 4096
static tree_node_t *initial[MAXN];

/* ---- frame check: a digest of everything fstree_sort_files must not touch ---- */
static uint64_t fnv(uint64_t h, const void *p, size_t n)
{
	const unsigned char *c = p;
	while (n--) { h ^= *c++; h *= 1099511628211ULL; }
	return h;
}

static uint64_t digest_node(uint64_t h, const tree_node_t *n)
{
	tree_node_t copy;
	const tree_node_t *c;

	memcpy(&copy, n, sizeof(copy));
	copy.next_by_type = NULL;
	copy.flags &= (sqfs_u16)~FLAG_FILE_ALREADY_MATCHED;
	if (S_ISREG(n->mode)) {
		copy.data.file.priority = 0;
		copy.data.file.flags = 0;
	}
	h = fnv(h, &n, sizeof(n));		/* the node is where it was */
	h = fnv(h, &copy, sizeof(copy));
	h = fnv(h, n->name, strlen(n->name) + 1);
	if (S_ISREG(n->mode) && n->data.file.input_file != NULL)
		h = fnv(h, n->data.file.input_file, strlen(n->data.file.input_file) + 1);
	if (S_ISLNK(n->mode) && n->data.target != NULL)
		h = fnv(h, n->data.target, strlen(n->data.target) + 1);
	if (S_ISDIR(n->mode)) {
		for (c = n->data.children; c != NULL; c = c->next)
			h = digest_node(h, c);
	}
	return h;
}

static uint64_t digest_fs(const fstree_t *fs)
{
	uint64_t h = 14695981039346656037ULL;
	fstree_t copy;
	size_t i;

	memcpy(&copy, fs, sizeof(copy));
	copy.files = NULL;
	h = fnv(h, &copy, sizeof(copy));
	for (i = 0; i < fs->unique_inode_count && fs->inodes != NULL; ++i)
		h = fnv(h, &fs->inodes[i], sizeof(fs->inodes[i]));
	return digest_node(h, fs->root);
}

int main(void)
{
	static char line[1 << 20], sortbuf[1 << 19], pathbuf[1 << 16];

	while (fgets(line, sizeof(line), stdin)) {
		char *f1, *f2, *f3, *p;
		size_t n = strlen(line), sortlen, count = 0, i;
		sqfs_istream_t *mem;
		uint64_t before, after;
		fstree_defaults_t fsd;
		tree_node_t *it;
		fstree_t fs;
		int rc;

		while (n > 0 && (line[n - 1] == '\n' || line[n - 1] == '\r')) line[--n] = 0;
		f1 = line;
		f2 = strchr(f1, ' '); if (!f2) continue; *f2++ = 0;
		f3 = strchr(f2, ' '); if (!f3) continue; *f3++ = 0;

		sortlen = strcmp(f2, "-") ? unhex(f2, strlen(f2), sortbuf) : 0;

		if (parse_fstree_defaults(&fsd, NULL) || fstree_init(&fs, &fsd)) {
			puts("HARNESS-ERROR init");
			continue;
		}

		if (strcmp(f3, "-")) {
			for (p = strtok(f3, ","); p != NULL; p = strtok(NULL, ",")) {
				sqfs_dir_entry_t *ent;
				unhex(p, strlen(p), pathbuf);
				ent = sqfs_dir_entry_create(pathbuf, S_IFREG | 0644, 0);
				if (ent == NULL) continue;
				(void)fstree_add_generic(&fs, ent, NULL); /* refusals are simply skipped */
				free(ent);
			}
		}

		if (fstree_post_process(&fs)) {
			puts("HARNESS-ERROR post_process");
			fstree_cleanup(&fs);
			continue;
		}

		for (it = fs.files; it != NULL && count < MAXN; it = it->next_by_type) {
			/* make sure fstree_sort_files resets what it has to reset */
			it->data.file.priority = 77;
			it->data.file.flags = 0x1f;
			it->flags |= FLAG_FILE_ALREADY_MATCHED;
			initial[count++] = it;
		}

		mem = istream_memory_create("sortfile", (size_t)strtoul(f1, NULL, 10), sortbuf, sortlen);
		if (mem == NULL) {
			puts("HARNESS-ERROR memstream");
			fstree_cleanup(&fs);
			continue;
		}

		printf("R ");
		if (count == 0) fputs("-", stdout);
		for (i = 0; i < count; ++i) {
			char *path = fstree_get_path(initial[i]);
			if (i) putchar(',');
			puthex(path ? path : "");
			free(path);
		}

		before = digest_fs(&fs);
		rc = fstree_sort_files(&fs, mem);
		after = digest_fs(&fs);
		sqfs_drop(mem);

		printf(" %d ", rc);
		if (fs.files == NULL) fputs("-", stdout);
		for (it = fs.files; it != NULL; it = it->next_by_type) {
			for (i = 0; i < count && initial[i] != it; ++i)
				;
			printf("%s%zu:%" PRId64 ":%d", it == fs.files ? "" : ",", i,
			       (int64_t)it->data.file.priority, it->data.file.flags);
		}
		printf(" F%d\n", before == after);
		fflush(stdout);
		fstree_cleanup(&fs);
	}
	return 0;
}
