(* C07 model driver.  argv[1] selects the model; cases on stdin, one canonical result line per case
   on stdout, in exactly the format of the corresponding C harness (props/C07/h_*.c). *)
open C07_model

let rec pos_of_int i = if i = 1 then XH else if i land 1 = 1 then XI (pos_of_int (i lsr 1)) else XO (pos_of_int (i lsr 1))
let n_of_int i = if i = 0 then N0 else Npos (pos_of_int i)
let rec int_of_pos = function XH -> 1 | XO p -> 2 * int_of_pos p | XI p -> 2 * int_of_pos p + 1
let int_of_n = function N0 -> 0 | Npos p -> int_of_pos p
let rec nat_of_int i = if i <= 0 then O else S (nat_of_int (i - 1))
let rec int_of_nat = function O -> 0 | S n -> 1 + int_of_nat n

let unhex s =
  if s = "-" then [] else
  let n = String.length s / 2 in
  List.init n (fun i -> n_of_int (int_of_string ("0x" ^ String.sub s (2*i) 2)))
let hex l =
  let b = Buffer.create 64 in
  List.iter (fun c -> Buffer.add_string b (Printf.sprintf "%02x" (int_of_n c))) l;
  if Buffer.length b = 0 then "-" else Buffer.contents b

let split_on c s = String.split_on_char c s

(* ------------------------------------------------------------------ hard links *)
let hl_case line =
  let ents = List.filter (fun s -> s <> "") (split_on ';' line) in
  let parse e =
    match split_on ':' e with
    | [k; a; b] ->
      let kind = match k with
        | "d" -> EDir | "l" -> EHard (unhex b) | _ -> EOther in
      { e_name = unhex a; e_kind = kind }
    | _ -> failwith ("bad entry " ^ e) in
  let ents = List.map parse ents in
  (* build, remembering the index of a refused entry *)
  let rec build fs i = function
    | [] -> `Built fs
    | e :: r ->
      (match add_generic fs e with
       | Ok fs' -> build fs' (i + 1) r
       | Err e -> `Refused (i, int_of_n e)
       | Crash -> `Bad "CRASH-build"
       | OutOfFuel -> `Bad "FUEL-build") in
  match build fs_init 0 ents with
  | `Refused (i, e) -> Printf.printf "B %d %d\n" i e
  | `Bad s -> print_endline s
  | `Built fs ->
    let verdict = resolve_all fs in
    (* replay the loop step by step to have the heap the C code leaves behind on failure *)
    let m = max_hops_of fs in
    let fuel = S (nat_of_int (int_of_n m)) in
    let rec loop h = function
      | [] -> (h, None)
      | p :: r ->
        (match resolve_link fuel h p (Some m) with
         | Ok h' -> loop h' r
         | other -> (h, Some other)) in
    let (h, stop) = loop fs.heap fs.unresolved in
    let harr = Array.of_list h in
    let path_of = Array.make (Array.length harr) "" in
    let buf = Buffer.create 256 in
    let first = ref true in
    (* compute full paths by DFS *)
    let rec paths p prefix =
      let nd = harr.(p) in
      let nm = String.concat "" (List.map (fun c -> Printf.sprintf "%02x" (int_of_n c)) nd.n_name) in
      let full = if p = 0 then "" else if prefix = "" then nm else prefix ^ "2f" ^ nm in
      path_of.(p) <- full;
      (match nd.n_kind with
       | KDir ch -> List.iter (fun c -> paths (int_of_nat c) full) ch
       | _ -> ()) in
    paths 0 "";
    let show s = if s = "" then "-" else s in
    let rec dump p =
      let nd = harr.(p) in
      if not !first then Buffer.add_char buf ',';
      first := false;
      Buffer.add_string buf (show path_of.(p));
      (match nd.n_kind with
       | KDir ch ->
         Buffer.add_string buf (Printf.sprintf "=D%d" (int_of_n nd.n_links));
         List.iter (fun c -> dump (int_of_nat c)) ch
       | KLinkU t -> Buffer.add_string buf (Printf.sprintf "=U%d:%s" (int_of_n nd.n_links) (hex t))
       | KLinkR t -> Buffer.add_string buf (Printf.sprintf "=R%d:%s" (int_of_n nd.n_links) (show path_of.(int_of_nat t)))
       | KOther -> Buffer.add_string buf (Printf.sprintf "=O%d" (int_of_n nd.n_links))) in
    dump 0;
    let consistent = match verdict, stop with
      | Ok _, None -> true
      | Err a, Some (Err b) -> a = b
      | Crash, Some Crash -> true
      | OutOfFuel, Some OutOfFuel -> true
      | _ -> false in
    if not consistent then print_endline "MODEL-INCONSISTENT"
    else match verdict with
      | Ok _ -> Printf.printf "R 0 0 | %s\n" (Buffer.contents buf)
      | Err e -> Printf.printf "R -1 %d | %s\n" (int_of_n e) (Buffer.contents buf)
      | Crash -> print_endline "CRASH"
      | OutOfFuel -> print_endline "FUEL"

(* ------------------------------------------------------------------ tar *)
let rec int_of_z = function Z0 -> 0 | Zpos p -> int_of_pos p | Zneg p -> - (int_of_pos p)
(* decimal printing of arbitrary N / Z without overflow: go through strings *)
let rec pos_to_digits p : int list =   (* little-endian decimal digits *)
  let double_add ds carry =
    let rec go ds c = match ds with
      | [] -> if c = 0 then [] else [c]
      | d :: r -> let v = 2 * d + c in (v mod 10) :: go r (v / 10) in
    go ds carry in
  match p with
  | XH -> [1]
  | XO q -> double_add (pos_to_digits q) 0
  | XI q -> double_add (pos_to_digits q) 1
let string_of_pos p = String.concat "" (List.rev_map string_of_int (pos_to_digits p))
let string_of_n = function N0 -> "0" | Npos p -> string_of_pos p
let string_of_z = function Z0 -> "0" | Zpos p -> string_of_pos p | Zneg p -> "-" ^ string_of_pos p
let n_of_string s =
  (* decimal string -> N *)
  let n = ref N0 in
  String.iter (fun ch ->
    let d = Char.code ch - 48 in
    n := N.add (N.mul !n (n_of_int 10)) (n_of_int d)) s;
  !n

let bytes_of_hexline s = unhex s

let show_hdr h =
  let opt = function None -> "NULL" | Some l -> hex l in
  let sparse = match h.h_sparse with
    | [] -> "-"
    | l -> String.concat "" (List.map (fun (o, c) -> string_of_n o ^ ":" ^ string_of_n c ^ ";") l) in
  let xattr = match h.h_xattr with
    | [] -> "-"
    | l -> String.concat "" (List.map (fun (k, v) -> hex k ^ ":" ^ hex v ^ ";") l) in
  Printf.sprintf "H name=%s link=%s rec=%s act=%s unk=%d hard=%d mode=%s uid=%s gid=%s mtime=%s sparse=%s xattr=%s | "
    (opt h.h_name) (opt h.h_link) (string_of_n h.h_record) (string_of_n h.h_actual)
    (if h.h_unknown then 1 else 0) (if h.h_hard then 1 else 0) (string_of_n h.h_mode)
    (string_of_n h.h_uid) (string_of_n h.h_gid) (string_of_z h.h_mtime) sparse xattr

let rec drop n l = if n <= 0 then l else match l with [] -> [] | _ :: r -> drop (n - 1) r

let tar_case line =
  let s = bytes_of_hexline line in
  let buf = Buffer.create 256 in
  let rec loop s =
    match read_header s with
    | Ok RH_eof -> Buffer.add_string buf "EOF"
    | Ok (RH_hdr (h, s1)) ->
      Buffer.add_string buf (show_hdr h);
      let rest = List.length s1 in
      let recsz = h.h_record in
      (* skip record + padding; sizes beyond the stream just empty it *)
      let skip n s = if N.leb (n_of_int (List.length s)) n then [] else drop (int_of_n n) s in
      let s2 = skip recsz s1 in
      let m = N.modulo recsz (n_of_int 512) in
      let s3 = if m = N0 then s2 else skip (N.sub (n_of_int 512) m) s2 in
      ignore rest;
      loop s3
    | Err _ -> Buffer.add_string buf "ERR"
    | Crash -> Buffer.add_string buf "CRASH"
    | OutOfFuel -> Buffer.add_string buf "FUEL" in
  loop s;
  print_endline (Buffer.contents buf)

let num_case line =
  match read_number (unhex line) with
  | Ok v -> Printf.printf "OK %s\n" (string_of_n v)
  | Err _ -> print_endline "ERR"
  | Crash -> print_endline "CRASH"
  | OutOfFuel -> print_endline "FUEL"

let size_max_n = n_of_string "18446744073709551615"

let pint_case line =
  match split_on ' ' line with
  | [kind; slen; whole; vmin; vmax; hexs] ->
    let s = unhex hexs @ [N0] in
    let len = if slen = "-1" then size_max_n else n_of_string slen in
    let whole = (whole = "1") in
    (match kind with
     | "i" ->
       (match parse_int s len whole with
        | Ok (v, d) -> Printf.printf "OK %s %s\n" (string_of_z v) (if whole then "0" else string_of_n d)
        | Err e -> Printf.printf "ERR %d\n" (100 - int_of_n e)
        | Crash -> print_endline "CRASH"
        | OutOfFuel -> print_endline "FUEL")
     | _ ->
       let base = n_of_int (if kind = "o" then 8 else 10) in
       (match parse s len whole base (n_of_string vmin) (n_of_string vmax) with
        | Ok (v, d) -> Printf.printf "OK %s %s\n" (string_of_n v) (if whole then "0" else string_of_n d)
        | Err e -> Printf.printf "ERR %d\n" (100 - int_of_n e)
        | Crash -> print_endline "CRASH"
        | OutOfFuel -> print_endline "FUEL"))
  | _ -> print_endline "BAD"

let rec take n l = if n <= 0 then [] else match l with [] -> [] | x :: r -> x :: take (n - 1) r

let b64_case inplace line =
  let cap, hexs =
    if inplace then (0, line)
    else match split_on ' ' line with
      | [c; h] -> (int_of_string c, h)
      | _ -> failwith "bad b64 case" in
  let inp = unhex hexs in
  let len = List.length inp in
  let m, ip, op, cap =
    if inplace then (inp, 0, 0, len)
    else (inp @ List.init cap (fun _ -> N0), 0, len, cap) in
  match base64_decode m (n_of_int ip) (n_of_int len) (n_of_int op) (n_of_int cap) with
  | Ok (m', Some cnt) -> Printf.printf "OK %s\n" (hex (take (int_of_n cnt) (drop op m')))
  | Ok (_, None) -> print_endline "ERR"
  | Err _ -> print_endline "ERR"
  | Crash -> print_endline "CRASH"
  | OutOfFuel -> print_endline "FUEL"

let hex_case line =
  match split_on ' ' line with
  | [o; h] ->
    let outsz = int_of_string o in
    let inp = unhex h in
    (match hex_decode inp (n_of_int (List.length inp)) (n_of_int outsz) with
     | Ok (acc, ok) ->
       let out = acc @ List.init (outsz - List.length acc) (fun _ -> N0) in
       Printf.printf "%s %s\n" (if ok then "OK" else "ERR") (hex out)
     | Err _ -> print_endline "ERR"
     | Crash -> print_endline "CRASH"
     | OutOfFuel -> print_endline "FUEL")
  | _ -> print_endline "BAD"

(* ------------------------------------------------------------------ text *)
(* the C string inside a byte list: the bytes before the first NUL *)
let rec cstring = function [] -> [] | c :: r -> if c = N0 then [] else c :: cstring r
let mem_of l = cstring l @ [N0]          (* exactly strlen + 1 bytes, as the harness allocates *)

let res_tag = function Crash -> "CRASH" | OutOfFuel -> "FUEL" | _ -> "?"

let split_case line =
  match split_on ' ' line with
  | [seph; lh] ->
    let sep = cstring (unhex seph) in
    let m = mem_of (unhex lh) in
    let len = n_of_int (List.length m - 1) in
    (match split_line m sep N0 len with
     | Ok (m', args) ->
       let buf = Buffer.create 64 in
       Buffer.add_string buf (Printf.sprintf "OK %d" (List.length args));
       let bad = ref None in
       List.iter (fun a ->
         match cstr_at m' a with
         | Ok s -> Buffer.add_char buf ' '; Buffer.add_string buf (hex s)
         | r -> bad := Some (res_tag r)) args;
       (match !bad with Some t -> print_endline t | None -> print_endline (Buffer.contents buf))
     | Err e ->
       let code = if e = e_quote then int_of_z z_SPLIT_LINE_UNMATCHED_QUOTE
         else if e = e_escape then int_of_z z_SPLIT_LINE_ESCAPE else 0 in
       Printf.printf "ERR %d\n" code
     | r -> print_endline (res_tag r))
  | _ -> print_endline "BAD"

let sort_case line =
  let m0 = mem_of (unhex line) in
  match trim m0 N0 with
  | Ok m1 ->
    let m = mem_of m1 in
    (match m with
     | c :: _ when c = N0 || c = n_of_int 35 -> print_endline "SKIP"
     | _ ->
       (match sort_line m with
        | Ok ((prio, fl), name) ->
          let do_glob = ref false and path_glob = ref false and flags = ref 0 in
          List.iter (function
            | F_glob_no_path -> do_glob := true; path_glob := false
            | F_glob -> do_glob := true; path_glob := true
            | F_dont_fragment -> flags := !flags lor int_of_n c_SQFS_BLK_DONT_FRAGMENT
            | F_dont_compress -> flags := !flags lor int_of_n c_SQFS_BLK_DONT_COMPRESS
            | F_dont_deduplicate -> flags := !flags lor int_of_n c_SQFS_BLK_DONT_DEDUPLICATE
            | F_nosparse -> flags := !flags lor int_of_n c_SQFS_BLK_IGNORE_SPARSE) fl;
          Printf.printf "OK %s %d%d %d %s\n" (string_of_z prio) (if !do_glob then 1 else 0)
            (if !path_glob then 1 else 0) !flags (hex name)
        | Err _ -> print_endline "ERR"
        | r -> print_endline (res_tag r)))
  | Err _ -> print_endline "ERR"
  | r -> print_endline (res_tag r)

let xdec_case line =
  match xattr_decode (mem_of (unhex line)) with
  | Ok v -> Printf.printf "OK %s\n" (hex v)
  | Err _ -> print_endline "ERR"
  | r -> print_endline (res_tag r)

(* the xattr map file, first way (kept as a cross-check of the two models): OCaml glue for istream_get_line
   (LTRIM | RTRIM | SKIP_EMPTY) around the LINE model TextModel.xattr_line *)
exception Stop of Stdlib.String.t
let xfile_glue line =
  let data = unhex line in
  (* split at '\n'; a last line without '\n' counts when it is not empty; a '\r' before '\n' is dropped *)
  let nl = n_of_int 10 and cr = n_of_int 13 in
  let rec lines acc cur = function
    | [] -> List.rev (if cur = [] then acc else (List.rev cur, false) :: acc)
    | c :: r when c = nl -> lines ((List.rev cur, true) :: acc) [] r
    | c :: r -> lines acc (c :: cur) r in
  let strip_cr (l, term) =
    if term then (match List.rev l with c :: r when c = cr -> List.rev r | _ -> l) else l in
  let pats = ref [] in                (* newest first: (path, entries newest first) *)
  (try
    List.iter (fun lt ->
      let l = strip_cr lt in
      match trim (mem_of l) N0 with
      | Ok m1 ->
        let m = mem_of m1 in
        if List.length m > 1 then
          (match xattr_line m (!pats <> []) with
           | Ok (XL_file p) -> pats := (p, []) :: !pats
           | Ok (XL_attr (k, v)) ->
             (match !pats with
              | (p, es) :: r -> pats := (p, (k, v) :: es) :: r
              | [] -> raise (Stop "MODEL-INCONSISTENT"))
           | Ok XL_comment -> ()
           | Err _ -> raise (Stop "ERR")
           | r -> raise (Stop (res_tag r)))
      | Err _ -> raise (Stop "ERR")
      | r -> raise (Stop (res_tag r))) (lines [] [] data);
    let buf = Buffer.create 128 in
    Buffer.add_string buf "OK ";
    List.iter (fun (p, es) ->
      Buffer.add_string buf (hex p); Buffer.add_char buf '{';
      List.iter (fun (k, v) -> Buffer.add_string buf (hex k); Buffer.add_char buf '=';
                  Buffer.add_string buf (hex v); Buffer.add_char buf ',') es;
      Buffer.add_string buf "};") !pats;
    Buffer.contents buf
  with Stop s -> s)


(* the xattr map file, second way: the extracted WHOLE-FILE model XattrFileModel.xattr_open_map_file (the line loop
   of istream_get_line, the allocations and frees, the list linking are all inside the model).  The model runs with
   three window oracles (the stream hands out everything it has, as the real 128 KiB buffer does for these files /
   7 bytes / 1 byte at a time); the payload must not depend on the oracle, a map must own exactly what is alive,
   closing it must release everything, a refusal must have released everything. *)
let xfile_model win data =
  match xattr_open_gen false win data with
  | Ok (X_map (t, map)) ->
    let buf = Buffer.create 128 in
    Buffer.add_string buf "OK ";
    let bad = ref None in
    List.iter (fun p ->
      (match pat_path p with
       | Ok path -> Buffer.add_string buf (hex path)
       | r -> bad := Some (res_tag r));
      Buffer.add_char buf '{';
      List.iter (fun e -> Buffer.add_string buf (hex e.e_key); Buffer.add_char buf '=';
                  Buffer.add_string buf (hex e.e_val); Buffer.add_char buf ',') p.p_ents;
      Buffer.add_string buf "};") map.m_pats;
    (match !bad with
     | Some tg -> tg
     | None ->
       (match xattr_close_map_file t map with
        | Ok t' -> if t'.r_live = [] then Buffer.contents buf else "MODEL-INCONSISTENT leak-after-close"
        | r -> res_tag r ^ "-close"))
  | Ok (X_refused (t, _, _)) -> if t.r_live = [] then "ERR" else "MODEL-INCONSISTENT leak-on-refusal"
  | Err _ -> "MODEL-INCONSISTENT err"
  | r -> res_tag r

let xfile_case line =
  let data = unhex line in
  let n = List.length data in
  let whole = nat_of_int (min 131072 (max n 1)) in
  let r1 = xfile_model (fun _ -> whole) data in
  let r2 = if n <= 6000 then xfile_model (fun _ -> nat_of_int 7) data else r1 in
  let r3 = if n <= 1500 then xfile_model (fun _ -> nat_of_int 1) data else r1 in
  let r4 = if n <= 20000 then xfile_glue line else r1 in
  if r1 <> r2 || r1 <> r3 then print_endline "MODEL-INCONSISTENT window"
  else if r1 <> r4 then print_endline "MODEL-INCONSISTENT line-model"
  else print_endline r1

let () =
  let mode = if Array.length Sys.argv > 1 then Sys.argv.(1) else "hl" in
  let f = match mode with
    | "hl" -> hl_case
    | "tar" -> tar_case
    | "num" -> num_case
    | "pint" -> pint_case
    | "b64" -> b64_case false
    | "b64i" -> b64_case true
    | "hex" -> hex_case
    | "split" -> split_case
    | "sort" -> sort_case
    | "xdec" -> xdec_case
    | "xfile" -> xfile_case
    | _ -> failwith "unknown mode" in
  try
    while true do
      let line = input_line stdin in
      (try f line with e -> Printf.printf "DRIVER-EXN %s\n" (Printexc.to_string e))
    done
  with End_of_file -> ()
