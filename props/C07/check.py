"""C07 — untrusted tar streams / pack, sort and xattr-map files never crash or hang the packers.

Theorems: coq/Properties_C07.v (Crash- and OutOfFuel-freedom of bounds-accounted models of the hard-link
resolver, the tar reader and the text parsers; what the resolver answers on cycles / dangling links /
directories).
Tie (verdict+payload): extracted models vs. ASan+UBSan harnesses built from the working tree
(h_hardlink.c, h_tar.c, h_text.c) on generated cases (gen.py).  The xattr map file leg (xfile) compares the
extracted WHOLE-FILE model (coq/C07/XattrFileModel.v: istream_get_line, parse_file_name, parse_xattr, the lists, every
allocation in a resource list) with xattr_open_map_file: verdict, decoded patterns (path, keys, value bytes, list
order), and -- with LeakSanitizer asked after every case -- that a refusal / a close leaves nothing allocated.
Search oracle: the ASan-built tar2sqfs / gensquashfs on hostile inputs: no signal, no sanitizer report,
no time-out; exit 0 => image validates (vlib.sqfsimg); exit != 0 => diagnostic on stderr and no output file.
"""
import base64
import importlib.util
import json
import os
import random
import re
import shutil
import subprocess
import sys
import tempfile
import threading
import time
from concurrent.futures import ThreadPoolExecutor

from vlib import build as B
from vlib import core
from vlib import sqfsimg

HERE = os.path.dirname(os.path.abspath(__file__))
LEVEL = "proof"
CASE_TIMEOUT = 5          # seconds, per case (harness alarm / tool run)
MAX_LOGICAL = 8 << 20     # announced logical size above which an archive is not given to the tools


def hx(b):
    return b.hex() or "-"


def _load_gen():
    spec = importlib.util.spec_from_file_location("c07_gen", os.path.join(HERE, "gen.py"))
    m = importlib.util.module_from_spec(spec)
    spec.loader.exec_module(m)
    return m


gen = _load_gen()


def _load_wrap():
    spec = importlib.util.spec_from_file_location("c07_wrap", os.path.join(HERE, "wrap.py"))
    m = importlib.util.module_from_spec(spec)
    spec.loader.exec_module(m)
    return m


wrap = _load_wrap()
WRAP_BUDGETS = (5, 15)    # watchdog of the compressed-container leg: inputs are <= 150 kB, a run takes ~50 ms


# --------------------------------------------------------------------------- constants for the Coq side

def regen_gen_v():
    d = tempfile.mkdtemp(prefix="verif-c07gen.")
    try:
        exe = os.path.join(d, "gc")
        rc, out = core.sh(["gcc", "-w", "-D_GNU_SOURCE", "-I" + os.path.join(B.REPO, "include"),
                           "-I" + os.path.dirname(B.config_h_path()), os.path.join(HERE, "gen_c07.c"), "-o", exe])
        if rc != 0:
            return False, "props/C07/gen_c07.c does not compile against the current headers:\n" + out[-1500:]
        rc, txt = core.sh([exe])
        if rc != 0:
            return False, "gen_c07 failed"
        dst = os.path.join(core.COQ, "C07", "GenC07.v")
        with core.Lock("coq"):
            old = open(dst).read() if os.path.exists(dst) else None
            if old != txt:
                open(dst, "w").write(txt)
                return True, None
        return False, None
    finally:
        shutil.rmtree(d, ignore_errors=True)


# --------------------------------------------------------------------------- running harness / driver

ASAN_ENV = dict(os.environ, ASAN_OPTIONS="detect_leaks=0:allocator_may_return_null=1:hard_rss_limit_mb=3000",
                UBSAN_OPTIONS="print_stacktrace=1")


# the xfile harness asks LeakSanitizer after every case (C07_LEAKCHECK): theorem xattr_file_graceful / xattr_open_close_clean
# say that a refusal has released every allocation and that closing a map releases the rest
LEAK_ENV = dict(ASAN_ENV, ASAN_OPTIONS=ASAN_ENV["ASAN_OPTIONS"].replace("detect_leaks=0", "detect_leaks=1"), C07_LEAKCHECK="1")


def san_signature(err):
    """stable signature of a sanitizer report in a stderr text (only lines that carry a report are looked at:
    stderr can hold 70 kB diagnostics quoting the hostile input)"""
    if "AddressSanitizer" in err:
        for line in err.split("\n"):
            if line.startswith("SUMMARY: AddressSanitizer"):
                m = re.match(r"SUMMARY: AddressSanitizer: (\S+) (\S+) in (\w+)", line[:400])
                if m:
                    return "asan:%s:%s" % (m.group(1), m.group(3))
                m = re.match(r"SUMMARY: AddressSanitizer: (\S+)", line[:400])
                if m:
                    return "asan:%s" % m.group(1)
        return "asan:unknown"
    if "runtime error:" in err:
        for line in err.split("\n"):
            k = line.find(": runtime error: ")
            if 0 <= k < 300:
                loc = line[:k].split("/")[-1].split(":")[0]
                words = line[k + len(": runtime error: "):].split()[:2]
                return "ubsan:%s:%s" % (loc, "-".join(words))
        return "ubsan:unknown"
    return None


def run_batch(cmd, lines, env=None, timeout=600, max_restarts=6):
    """feed `lines` (list of str) to cmd; returns (outputs list aligned with lines (None = no answer), incidents)
    incident = (index, kind, stderr tail).  After a crash / time-out the batch is restarted behind the culprit."""
    outs = [None] * len(lines)
    incidents = []
    start = 0
    restarts = 0
    while start < len(lines) and restarts < max_restarts:
        data = ("\n".join(lines[start:]) + "\n").encode()
        try:
            r = subprocess.run(cmd, input=data, stdout=subprocess.PIPE, stderr=subprocess.PIPE, env=env, timeout=timeout)
            rc, so, se = r.returncode, r.stdout, r.stderr
            timed = False
        except subprocess.TimeoutExpired as e:
            rc, so, se, timed = -9, e.stdout or b"", e.stderr or b"", True
        got = so.decode("utf-8", "replace").split("\n")
        complete = got[:-1] if got else []
        for i, l in enumerate(complete):
            if start + i < len(lines):
                outs[start + i] = l
        if rc == 0 and len(complete) >= len(lines) - start:
            break
        bad = start + len(complete)
        if complete and complete[-1] == "TIMEOUT":
            bad = start + len(complete) - 1
            incidents.append((bad, "timeout", ""))
        elif bad < len(lines):
            kind = "timeout" if timed else ("signal %d" % -rc if rc < 0 else "exit %d" % rc)
            incidents.append((bad, kind, se.decode("utf-8", "replace")[-6000:]))
            outs[bad] = "DIED " + kind
        start = bad + 1
        restarts += 1
    return outs, incidents


def run_parallel(cmd, lines, env=None, chunks=8, timeout=600, max_restarts=6):
    n = len(lines)
    if n == 0:
        return [], []
    size = max(1, (n + chunks - 1) // chunks)
    parts = [(i, lines[i:i + size]) for i in range(0, n, size)]
    outs = [None] * n
    incidents = []
    with ThreadPoolExecutor(max_workers=chunks) as ex:
        for (off, part), (o, inc) in zip(parts, ex.map(lambda p: run_batch(cmd, p[1], env, timeout, max_restarts), parts)):
            outs[off:off + len(part)] = o
            incidents += [(off + i, k, e) for i, k, e in inc]
    return outs, incidents


# --------------------------------------------------------------------------- tool level oracle

class Tools:
    def __init__(self, ctx, info):
        self.ctx = ctx
        self.t2s = info["tools"]["tar2sqfs"]
        self.gsq = info["tools"]["gensquashfs"]
        self.dir = tempfile.mkdtemp(prefix="tools.", dir=ctx.scratch)
        self.pack = os.path.join(self.dir, "pack")
        os.makedirs(os.path.join(self.pack, "sub"))
        open(os.path.join(self.pack, "input.txt"), "w").write("hello world\n" * 20)
        open(os.path.join(self.pack, "sub", "in2"), "wb").write(b"\0" * 5000 + b"tail")
        open(os.path.join(self.pack, "a.txt"), "w").write("a")
        self.n = 0
        self.lock = threading.Lock()
        self.stalls = []
        self.confirmed = set()

    def _run(self, argv, stdin_bytes, out, budgets=None, full=False):
        t0 = time.time()
        rc = err = None
        timed = True
        partial = False
        budgets = budgets or (CASE_TIMEOUT * 2, CASE_TIMEOUT * 6)
        # a time-out must reproduce when the case is run again on its own with three times the budget
        # (this box is shared with other checks; a stall of a 30 ms process is not a hang)
        for attempt, budget in enumerate(budgets):
            if attempt and argv[0] in self.confirmed:
                break      # this tool already has a confirmed hang in this run; do not spend 30 s per further case
            try:
                if attempt:
                    with self.lock:
                        if argv[0] in self.confirmed:      # confirmed while this thread was waiting for its turn
                            break
                        r = subprocess.run(argv, input=stdin_bytes, stdout=subprocess.PIPE, stderr=subprocess.PIPE,
                                           env=ASAN_ENV, timeout=budget, cwd=self.dir)
                else:
                    r = subprocess.run(argv, input=stdin_bytes, stdout=subprocess.PIPE, stderr=subprocess.PIPE,
                                       env=ASAN_ENV, timeout=budget, cwd=self.dir)
                rc, err, timed = r.returncode, r.stderr.decode("utf-8", "replace"), False
                break
            except subprocess.TimeoutExpired as e:
                rc, err, timed = None, (e.stderr or b"").decode("utf-8", "replace"), True
                self.stalls.append((attempt, " ".join(os.path.basename(a) for a in argv[:1]), len(stdin_bytes or b"")))
                if attempt:
                    self.confirmed.add(argv[0])
                if os.path.exists(out):
                    partial = True
                    os.unlink(out)
        res = self.judge(rc, err, timed, out, time.time() - t0, budgets)
        if res and res[0] == "timeout" and partial:
            res = (res[0], res[1] + "; a partial output file was there when the watchdog fired")
        return (res, rc, err) if full else res

    def judge(self, rc, err, timed, out, dt, budgets=None):
        """the property, evaluated on one run: returns None or (signature suffix, text)"""
        exists = os.path.exists(out)
        budgets = budgets or (CASE_TIMEOUT * 2, CASE_TIMEOUT * 6)
        try:
            if timed:
                return ("timeout", "did not terminate within %d s (and again not within %d s when run alone)" % tuple(budgets[:2]))
            sig = san_signature(err)
            if sig:
                k = max(err.find("ERROR: AddressSanitizer"), err.find("runtime error:") - 120, 0)
                return (sig, "sanitizer report: " + err[k:k + 700])
            if rc < 0:
                return ("signal%d" % -rc, "killed by signal %d: %s" % (-rc, err[-300:]))
            if rc == 0:
                if not exists:
                    return ("no-image", "exit 0 but no output file")
                try:
                    bad = sqfsimg.Image(open(out, "rb").read()).validate()
                except Exception as e:  # parse failure of a produced image
                    bad = ["unreadable: %r" % (e,)]
                if bad:
                    slug = re.sub(r"[^a-z]+", "-", re.sub(r"\d+", "", bad[0].lower())).strip("-")[:40]
                    return ("invalid-image:" + slug, "exit 0 but the image violates: " + "; ".join(bad[:3]))
                return None
            if exists:
                return ("output-left", "exit %d but the output file was left behind; stderr: %s" % (rc, err[-300:]))
            if not err.strip():
                return ("no-diagnostic", "exit %d without any diagnostic on stderr" % rc)
            return None
        finally:
            if exists:
                try:
                    os.unlink(out)
                except OSError:
                    pass

    def tar2sqfs(self, data):
        self.n += 1
        out = os.path.join(self.dir, "o%d.sqfs" % self.n)
        return self._run([self.t2s, "-q", "-f", out], data, out)

    def tar2sqfs_full(self, data, name, budgets=None):
        """-> (judge result, exit status or None, stderr); `name` makes the output path unique among concurrent callers"""
        out = os.path.join(self.dir, "w-%s.sqfs" % name)
        return self._run([self.t2s, "-q", "-f", out], data, out, budgets=budgets, full=True)

    def gensquashfs(self, pack=None, sort=None, xattr=None):
        self.n += 1
        k = self.n
        out = os.path.join(self.dir, "o%d.sqfs" % k)
        argv = [self.gsq, "-q", "-f", "-D", self.pack]
        pf = os.path.join(self.dir, "p%d.txt" % k)
        open(pf, "wb").write(pack if pack is not None else gen.PACK_BASE)
        argv += ["-F", pf]
        files = [pf]
        if sort is not None:
            sf = os.path.join(self.dir, "s%d.txt" % k)
            open(sf, "wb").write(sort)
            argv += ["-S", sf]
            files.append(sf)
        if xattr is not None:
            xf = os.path.join(self.dir, "x%d.txt" % k)
            open(xf, "wb").write(xattr)
            argv += ["-A", xf]
            files.append(xf)
        try:
            return self._run(argv + [out], b"", out)
        finally:
            for f in files:
                try:
                    os.unlink(f)
                except OSError:
                    pass


def hl_to_tar(ents):
    out = b""
    for k, n, t in ents:
        if k == "f":
            out += gen.file_entry(n, b"abc")
        elif k == "d":
            out += gen.Hdr(n, b"5", 0, mode=0o755).bytes()
        elif k == "l":
            out += gen.Hdr(n, b"1", 0, link=t).bytes()
        else:
            out += gen.Hdr(n, b"2", 0, link=t or b"x").bytes()
    return out + gen.END


def hl_to_pack(ents):
    out = b""
    for k, n, t in ents:
        if not n:
            continue
        if k == "f":
            out += b"file /" + n + b" 0644 0 0 input.txt\n"
        elif k == "d":
            out += b"dir /" + n + b" 0755 0 0\n"
        elif k == "l":
            out += b"link /" + n + b" 0777 0 0 " + (t or b"\"\"") + b"\n"
        else:
            out += b"slink /" + n + b" 0777 0 0 " + (t or b"x") + b"\n"
    return out


# --------------------------------------------------------------------------- the parts

def report_incident(ctx, part, case_repr, kind, err, replay):
    sig = san_signature(err or "")
    if kind == "timeout":
        ctx.violation("hang:%s" % part, "%s harness: the code under test did not return within %d s on a %d-byte input"
                      % (part, CASE_TIMEOUT, len(case_repr)), replay)
    else:
        k = max((err or "").find("ERROR: AddressSanitizer"), (err or "").find("runtime error:") - 120, 0)
        ctx.violation("crash:%s:%s" % (part, sig or kind), "%s harness died (%s): %s" % (part, kind, (err or "")[k:k + 900]), replay)


def compare(ctx, part, lines, outs_c, outs_m, inc_c, replay_of, search=None, lenient=None, neighbours=None):
    """generic verdict+payload comparison.  Returns number of agreeing cases.
    neighbours(i) -> list of (signature, text, replay): concrete property failures found on the disagreeing input and
    its edits (harness under ASan with exactly sized blocks, and the ASan tool)"""
    died = {i for i, _, _ in inc_c}
    seen = set()
    for i, kind, err in inc_c:
        s = san_signature(err or "") or kind
        if s in seen:
            continue
        seen.add(s)
        report_incident(ctx, part, lines[i], kind, err, replay_of(i))
    agree = 0
    mism = []
    for i, (c, m) in enumerate(zip(outs_c, outs_m)):
        if i in died:
            continue
        if c is None and m is None:
            continue
        if c == m or (lenient and c is not None and m is not None and lenient(c, m)):
            agree += 1
        else:
            mism.append(i)
    for i in mism[:1]:
        m = outs_m[i] or ""
        if m.startswith(("CRASH", "FUEL", "MODEL-INCONSISTENT", "DRIVER-EXN")):
            # the model itself claims a crash / hang (contradicts the theorems) or the driver broke
            ctx.violation("model:%s:%s" % (part, m.split()[0]), "extracted %s model answered %s" % (part, m[:80]), replay_of(i), no_input=True)
            continue
        found = search(i) if search else None
        near = []
        if neighbours:
            for j in mism[:3]:
                if not (outs_m[j] or "").startswith(("CRASH", "FUEL", "MODEL-INCONSISTENT", "DRIVER-EXN")):
                    near += neighbours(j)
        seen_near = set()
        for sig, txt, rp in near:
            if sig in seen_near:
                continue
            seen_near.add(sig)
            ctx.violation(sig, "tie %s broke (impl=%r model=%r); searching the edits of that line at the quoting case splits: %s"
                          % (part, (outs_c[i] or "")[:120], m[:120], txt), rp)
        if found:
            ctx.violation("tool:%s:%s" % (part, found[0]), "tie %s broke (impl=%r model=%r) and the tool violates the property on that input: %s"
                          % (part, (outs_c[i] or "")[:120], m[:120], found[1]), replay_of(i))
        # the broken correspondence is always recorded: core.finish drops it in favour of a concrete NEW violation,
        # but a tool-level failure that is merely a known finding must not hide that model and code disagree
        r = replay_of(i)
        r.update(impl=outs_c[i], model=outs_m[i], correspondence="props/C07 %s: extracted model = C harness (verdict+payload)" % part,
                 other_mismatches=len(mism))
        ctx.violation("tie:%s" % part, "correspondence %s broken on %d of %d cases, first: impl=%r model=%r; %s"
                      % (part, len(mism), len(lines), (outs_c[i] or "")[:160], m[:160],
                         "tool level on that input: " + found[0] if found else
                         ("property failures on edits of that input: " + ", ".join(sorted(seen_near)) if near else "no property failure found at tool level")),
                      r, no_input=True)
    return agree


def part_hardlinks(ctx, info, drv, tools, stats):
    h = B.compile_harness(info, [os.path.join(HERE, "h_hardlink.c")], "c07_h_hardlink")
    rnd = random.Random(ctx.seed * 7919 + 1)
    cases = gen.hl_cases(rnd, ctx.tier)
    lines = [gen.hl_line(c) for c in cases]
    outs_m, inc_m = run_parallel([drv, "hl"], lines, chunks=4)
    outs_c, inc_c = run_parallel([h, str(CASE_TIMEOUT)], lines, env=ASAN_ENV, chunks=8, timeout=900, max_restarts=2)

    def replay_of(i):
        return dict(part="hl", case=lines[i], tar_b64=base64.b64encode(hl_to_tar(cases[i])).decode())

    def search(i):
        return tools.tar2sqfs(hl_to_tar(cases[i]))

    agree = compare(ctx, "hardlink", lines, outs_c, outs_m, inc_c, replay_of, search)
    # tool level on a sample: every verdict class of the model, cyclic ones first
    by_class = {}
    for i, m in enumerate(outs_m):
        by_class.setdefault((m or "").split("|")[0].strip(), []).append(i)
    sample = []
    per = 12 if ctx.tier == "quick" else 120
    for k in sorted(by_class):
        idx = by_class[k]
        rnd.shuffle(idx)
        sample += idx[:per]
    # the long rho-shaped chains are always in
    sample += [i for i in range(len(cases) - 16, len(cases))]
    sample = sorted(set(sample))
    fails = {}
    with ThreadPoolExecutor(max_workers=12) as ex:
        for i, res in zip(sample, ex.map(lambda i: tools.tar2sqfs(hl_to_tar(cases[i])), sample)):
            if res and res[0] not in fails:
                fails[res[0]] = (i, res[1], "tar2sqfs")
        for i, res in zip(sample, ex.map(lambda i: tools.gensquashfs(pack=hl_to_pack(cases[i])), sample)):
            if res and res[0] not in fails:
                fails[res[0]] = (i, res[1], "gensquashfs -F")
    for s, (i, txt, tool) in fails.items():
        r = replay_of(i)
        r.update(tool=tool, pack_b64=base64.b64encode(hl_to_pack(cases[i])).decode())
        ctx.violation("tool:hardlink:%s" % s, "%s on hard-link graph %s: %s" % (tool, lines[i], txt), r)
    stats["hl"] = dict(cases=len(cases), agree=agree, tool_runs=2 * len(sample),
                       verdict_classes={k: len(v) for k, v in by_class.items() if len(v) > 30})
    nontrivial = sum(len(v) for k, v in by_class.items() if k.startswith("R"))
    return len(cases), nontrivial, [dict(part="hl", case=lines[i], impl=outs_c[i], model=outs_m[i]) for i in (0, len(lines) // 2)]


def logical_size(model_line):
    tot = 0
    for m in re.finditer(r"rec=(\d+) act=(\d+)", model_line or ""):
        tot = max(tot, int(m.group(2)))
    return tot


MAX_SPARSE_TOOL = 4096    # sparse map entries above which an archive is not given to the tools (see assumptions)


def tool_eligible(model_line):
    """tar2sqfs needs time proportional to logical size x sparse map length (is_sparse_region walks the list on
    every read): both are bounded for the tool runs so that a time-out means a hang, not a slow input"""
    m = model_line or ""
    return logical_size(m) <= MAX_LOGICAL and m.count(";") <= 2 * MAX_SPARSE_TOOL


def part_tar(ctx, info, drv, tools, stats):
    h = B.compile_harness(info, [os.path.join(HERE, "h_tar.c")], "c07_h_tar")
    rnd = random.Random(ctx.seed * 7919 + 2)
    cases = gen.tar_cases(rnd, ctx.tier)
    # stored corpus first
    cdir = os.path.join(HERE, "corpus", "tar")
    corpus = []
    if os.path.isdir(cdir):
        for f in sorted(os.listdir(cdir)):
            corpus.append(("corpus:" + f, open(os.path.join(cdir, f), "rb").read()))
    cases = corpus + cases
    lines = [(d.hex() or "-") for _, d in cases]
    # the extracted list functions are not tail recursive: a 600 kB archive needs more than the default stack
    drv_cmd = ["sh", "-c", 'ulimit -s unlimited 2>/dev/null || ulimit -s 4000000 2>/dev/null; exec "$0" "$@"', drv, "tar"]
    outs_m, inc_m = run_parallel(drv_cmd, lines, chunks=12, timeout=1800)
    outs_c, inc_c = run_parallel([h, "tar"], lines, env=ASAN_ENV, chunks=8, timeout=900)

    def replay_of(i):
        return dict(part="tar", tag=cases[i][0], tar_b64=base64.b64encode(cases[i][1]).decode())

    def search(i):
        if not tool_eligible(outs_m[i]) or not tool_eligible(outs_c[i]):
            return None
        return tools.tar2sqfs(cases[i][1])

    agree = compare(ctx, "tar", lines, outs_c, outs_m, inc_c, replay_of, search)
    # tool level: a sample per generator class, bounded logical size
    by_tag = {}
    for i, (t, d) in enumerate(cases):
        if tool_eligible(outs_m[i]):
            by_tag.setdefault(t.split(":")[0], []).append(i)
    per = 45 if ctx.tier == "quick" else 1500
    sample = []
    for t in sorted(by_tag):
        idx = by_tag[t]
        rnd.shuffle(idx)
        sample += idx[:per]
    fails = {}
    with ThreadPoolExecutor(max_workers=12) as ex:
        for i, res in zip(sample, ex.map(lambda i: tools.tar2sqfs(cases[i][1]), sample)):
            if res:
                s = res[0] + (":" + cases[i][0].split(":")[0] if res[0] == "no-diagnostic" else "")
                if s not in fails:
                    fails[s] = (i, res[1])
    for s, (i, txt) in fails.items():
        ctx.violation("tool:tar2sqfs:%s" % s, "tar2sqfs on a %d-byte archive (%s): %s" % (len(cases[i][1]), cases[i][0], txt), replay_of(i))
    cls = {}
    for m in outs_m:
        m = m or ""
        cls[(m.rsplit("| ", 1)[-1] if "|" in m else m)[:8] + "/%dh" % min(m.count("H name="), 3)] = cls.get((m.rsplit("| ", 1)[-1] if "|" in m else m)[:8] + "/%dh" % min(m.count("H name="), 3), 0) + 1
    stats["tar"] = dict(cases=len(cases), agree=agree, tool_runs=len(sample), outcome_classes=cls,
                        generator_classes={k: len(v) for k, v in by_tag.items()})
    nontrivial = len({m for m in outs_m if m and "H name=" in m}) + len({l for l, m in zip(lines, outs_m) if m and m.endswith("ERR")})
    return len(cases), nontrivial, [dict(part="tar", tag=cases[i][0], bytes=len(cases[i][1]), impl=(outs_c[i] or "")[:300], model=(outs_m[i] or "")[:300])
                                    for i in (len(corpus) + 3, len(cases) // 2)]


def small_decoder_cases(rnd, tier):
    q = tier == "quick"
    num = []
    for v in gen.NUM_VALUES:
        for w in (8, 12):
            f = (v + b"\0" * w)[:w]
            num.append(f.hex())
    for _ in range(1500 if q else 60000):
        w = rnd.choice([8, 12])
        k = rnd.random()
        if k < 0.4:
            f = bytes(rnd.choice(b"01234567 \0\t89") for _ in range(w))
        elif k < 0.8:
            f = bytes([rnd.choice([0x80, 0xff, 0x81, 0xc0, 0xfe])]) + bytes(rnd.choice([0, 0xff, 0x80, 0x7f, 1]) for _ in range(w - 1))
        else:
            f = bytes(rnd.randrange(256) for _ in range(w))
        num.append(f.hex())
    pint = []
    txt = gen.NUM_TXT + [b"12abc", b"0", b"00000000000000000000001", b"1844674407370955161", b"18446744073709551609", b"777", b"778", b"-", b"--1", b"-0"]
    for t in txt:
        for kind in "uoi":
            for ln in (-1, 0, 1, 2, len(t)):
                for whole in (0, 1):
                    for vmin, vmax in ((0, 0), (0, 0o7777), (5, 100), (0, 0xFFFFFFFF)):
                        if kind == "i" and (vmin, vmax) != (0, 0):
                            continue
                        if ln > len(t):
                            continue
                        pint.append("%s %d %d %d %d %s" % (kind, ln, whole, vmin, vmax, t.hex() or "-"))
    b64 = []
    alpha = b"ABab01+/-_=\xff \0"
    for t in gen.B64_TXT:
        for cap in (0, 1, 2, 3, len(t) * 3 // 4, len(t)):
            b64.append("%d %s" % (cap, t.hex() or "-"))
    for _ in range(1200 if q else 40000):
        t = bytes(rnd.choice(alpha[:10] if rnd.random() < 0.7 else alpha) for _ in range(rnd.randrange(0, 14)))
        b64.append("%d %s" % (rnd.choice([0, 1, 2, 3, 8, 16]), t.hex() or "-"))
    b64i = [l.split(" ", 1)[1] for l in b64]
    hexc = []
    for t in [b"", b"0", b"00", b"0g", b"g0", b"abCDef", b"ABCDEF0123456789", b"12 34", b"\xff\xff", b"123", b"1\0"]:
        for o in (0, 1, 2, 3, 8):
            hexc.append("%d %s" % (o, t.hex() or "-"))
    for _ in range(500 if q else 10000):
        t = bytes(rnd.choice(b"0123456789abcdefABCDEFgG \0\xff") for _ in range(rnd.randrange(0, 9)))
        hexc.append("%d %s" % (rnd.randrange(0, 6), t.hex() or "-"))
    return dict(num=num, pint=pint, b64=b64, b64i=b64i, hex=hexc)


def part_decoders(ctx, info, drv, stats):
    h = B.compile_harness(info, [os.path.join(HERE, "h_tar.c")], "c07_h_tar")
    rnd = random.Random(ctx.seed * 7919 + 3)
    sets = small_decoder_cases(rnd, ctx.tier)
    total = 0
    nontriv = 0
    samples = []
    for mode, lines in sets.items():
        outs_m, _ = run_parallel([drv, mode], lines, chunks=2)
        outs_c, inc_c = run_parallel([h, mode], lines, env=ASAN_ENV, chunks=2)

        def replay_of(i, mode=mode, lines=lines):
            return dict(part="dec", mode=mode, case=lines[i])
        agree = compare(ctx, "dec-" + mode, lines, outs_c, outs_m, inc_c, replay_of)
        total += len(lines)
        nontriv += len({(l, o) for l, o in zip(lines, outs_c) if o and o.startswith("OK")})
        stats["dec-" + mode] = dict(cases=len(lines), agree=agree, ok=sum(1 for o in outs_c if o and o.startswith("OK")))
        samples.append(dict(part="dec", mode=mode, case=lines[len(lines) // 3], impl=outs_c[len(lines) // 3], model=outs_m[len(lines) // 3]))
    return total, nontriv, samples[:2]


def text_cases(rnd, tier):
    """cases for the text harness: split_line, one sort file line, one xattr value, a whole xattr map file"""
    q = tier == "quick"
    hx = lambda b: b.hex() or "-"
    split = []
    seps = [b" \t", b",", b"", b"\"", b" ,"]
    lines = list(gen.PACK_LINES) + [l for l in gen.PACK_BASE.split(b"\n")] + [
        b"", b" ", b"a", b"a ", b" a", b"\"", b"\"\"", b"\"a", b"a\"", b"\"a\"b", b"\"a\"\"b\"", b"\"\\", b"\"\\\"", b"\"\\\"\"",
        b"\"\\\\\"", b"\"\\x\"", b"a\\b", b"a,b,,c", b",,,", b"a,\"b,c\",d", b"  a   b  ", b"\t\ta\tb", b"a\0b c", b"\"a\0b\" c",
        b"glob,dont_fragment", b" glob , nosparse ", b"\"glob\"", b"\"a b\" \"c\\\"d\" e"]
    alpha = b"\"\\ ,\tab\0"
    lines += gen.PACK_QUOTE_LINES
    for l in lines:
        if len(l) > 4000:
            continue
        for sp in seps[:2] if len(l) > 40 else seps:
            split.append("%s %s" % (hx(sp), hx(l)))
    # every string of <= 5 (thorough: 7) symbols over {quote, backslash, letter, blank}: all paths through the unquoting loop
    qenum = gen.quote_enum(5 if q else 7)
    for l in qenum:
        split.append("%s %s" % (hx(b" \t"), hx(l)))
        split.append("%s %s" % (hx(b" \t"), hx(b"dir \"" + l)))
    for _ in range(2500 if q else 120000):
        l = bytes(rnd.choice(alpha[:-1] if rnd.random() < 0.85 else alpha) for _ in range(rnd.randrange(0, 12)))
        split.append("%s %s" % (hx(rnd.choice(seps)), hx(l)))
    maxl = 3000 if q else 20000
    sort = [hx(l) for l in gen.SORT_LINES + gen.SORT_QUOTE_LINES if len(l) < maxl] + [hx(l) for l in gen.SORT_BASE.split(b"\n")]
    sort += [hx(b"5 \"" + l) for l in qenum] + [hx(b"5 [glob] \"" + l) for l in gen.quote_enum(4 if q else 6)]
    # structured: priority, optional flag list, (quoted) name -- mostly valid, every part occasionally hostile
    prios = [b"0", b"5", b"-5", b"-0", b"007", b"9223372036854775806", b"-9223372036854775806", b"9223372036854775807", b"+1", b"", b"5x"]
    fl = [b"glob", b"glob_no_path", b"dont_fragment", b"dont_compress", b"dont_deduplicate", b"nosparse", b" glob", b"glob ", b"\tnosparse\t",
          b"\"glob\"", b"\"gl\\\\ob\"", b"bogus", b"", b"Glob", b"glob\0x", b"\"nosparse", b"dont_compress\""]
    names = [b"file", b"sub/dir/f", b"./a//b/", b"/abs", b"..", b"a/../b", b"\"name with space\"", b"\"q\\\"uote\"", b"\"back\\\\slash\"", b"\"bad\\escape\"",
             b"\"unterminated", b"\"trailing\"x", b"\"\"", b"*.txt", b"a b", b"\"a/./b//\"", b"\"..\"", b"[x]", b"\xff\xfe"] + gen.QUOTE_TAILS[:-1]
    for _ in range(1200 if q else 50000):
        l = rnd.choice(prios if rnd.random() < 0.2 else prios[:4]) + rnd.choice([b" ", b" ", b"  ", b"\t", b""])
        if rnd.random() < 0.6:
            k = rnd.choice([1, 1, 2, 3])
            l += b"[" + b",".join(rnd.choice(fl if rnd.random() < 0.3 else fl[:9]) for _ in range(k)) + rnd.choice([b"]", b"]", b"]", b"", b"]]"])
            l += rnd.choice([b" ", b" ", b"\t ", b""])
        l += rnd.choice(names)
        sort.append(hx(l))
    for m in gen.text_mutants(rnd, gen.SORT_BASE, [l for l in gen.SORT_LINES if len(l) < 200], 300 if q else 20000):
        for l in m.split(b"\n"):
            if len(l) < maxl:
                sort.append(hx(l))
    salpha = [b"5", b" ", b"[", b"]", b",", b"glob", b"nosparse", b"dont_compress", b"\"", b"\\", b"f", b"/", b"..", b"-", b"\t", b"x"]
    for _ in range(1500 if q else 60000):
        sort.append(hx(b"".join(rnd.choice(salpha) for _ in range(rnd.randrange(1, 9)))))
    sort = sorted(set(sort))
    xdec = []
    for l in gen.XATTR_LINES + gen.XATTR_QUOTE_LINES + gen.XATTR_BASE.split(b"\n"):
        if b"=" in l and len(l) < 30000:
            xdec.append(hx(l.split(b"=", 1)[1]))
    xdec += [hx(b"\"" + l) for l in gen.quote_enum(5 if q else 6, (b"\"", b"\\", b"a", b"1"))]
    xalpha = [b"0", b"x", b"X", b"s", b"S", b"\"", b"\\", b"1", b"7", b"8", b"a", b"Q", b"=", b"g", b" "]
    for _ in range(2000 if q else 80000):
        xdec.append(hx(b"".join(rnd.choice(xalpha) for _ in range(rnd.randrange(0, 9)))))
    xdec = sorted(set(xdec))
    xfile = [hx(m) for m in gen.text_mutants(rnd, gen.XATTR_BASE, [l for l in gen.XATTR_LINES if len(l) < 2000], 250 if q else 10000)]
    xfile += [hx(b"# file: file\n" + l + b"\n") for l in gen.XATTR_QUOTE_LINES if len(l) < 2000]
    xfile += [hx(l + b"\nuser.a=b\n") for l in gen.XATTR_QUOTE_LINES if l.startswith(b"#") and len(l) < 2000]
    # the whole-file model (session 3): line endings / blank lines / window edges of istream_get_line, accepted and refused
    # "# file:" lines behind earlier patterns, the three value syntaxes, refused values behind earlier entries
    xfile += [hx(f) for f in gen.xattr_struct_files(rnd, 250 if q else 8000)]
    xfile = sorted(set(xfile))
    big = [hx(f) for f in gen.xattr_big_files()]      # 134 kB each, ~1.4 s in the model: one per driver chunk
    for j, f in enumerate(big):
        xfile.insert((j * len(xfile)) // len(big), f)
    return dict(split=split, sort=sort, xdec=xdec, xfile=xfile)


def part_text(ctx, info, drv, tools, stats):
    h = B.compile_harness(info, [os.path.join(HERE, "h_text.c")], "c07_h_text",
                          extra=["-I" + os.path.join(B.REPO, "bin", "gensquashfs", "src")])
    rnd = random.Random(ctx.seed * 7919 + 4)
    sets = text_cases(rnd, ctx.tier)
    total = nontriv = 0
    samples = []
    for mode, lines in sets.items():
        outs_m, _ = run_parallel([drv, mode], lines, chunks=4)
        if mode == "xfile":
            parts = [lines[i::4] for i in range(4)]
            idx = [list(range(len(lines)))[i::4] for i in range(4)]
            outs_c = [None] * len(lines)
            inc_c = []
            with ThreadPoolExecutor(max_workers=4) as ex:
                res = list(ex.map(lambda k: run_batch([h, mode, os.path.join(ctx.scratch, "xfile%d.tmp" % k)], parts[k], LEAK_ENV), range(4)))
            for k, (o, inc) in enumerate(res):
                for j, v in enumerate(o):
                    outs_c[idx[k][j]] = v
                inc_c += [(idx[k][i], kind, e) for i, kind, e in inc]
        else:
            outs_c, inc_c = run_parallel([h, mode], lines, env=ASAN_ENV, chunks=4)

        def replay_of(i, mode=mode, lines=lines):
            return dict(part="text", mode=mode, case=lines[i])

        def search(i, mode=mode, lines=lines):
            raw = bytes.fromhex(lines[i].split(" ")[-1].replace("-", ""))
            if mode == "sort":
                return tools.gensquashfs(sort=raw + b"\n")
            if mode == "xdec":
                return tools.gensquashfs(xattr=b"# file: file\nuser.a=" + raw + b"\n")
            if mode == "xfile":
                return tools.gensquashfs(xattr=raw)
            return tools.gensquashfs(pack=raw + b"\n")
        def tool_kw(mode, raw):
            if mode == "sort":
                return "sort", dict(sort=raw + b"\n")
            if mode == "xdec":
                return "xattr", dict(xattr=b"# file: file\nuser.a=" + raw + b"\n")
            if mode == "xfile":
                return "xattr", dict(xattr=raw)
            return "pack", dict(pack=raw + b"\n")

        def neighbours(i, mode=mode, lines=lines):
            """the disagreeing line and its edits at the quoting case splits (gen.quote_mutants): each one in an exactly
            sized heap block on the ASan harness (same mode), and as a one-line file on the ASan tool"""
            parts = lines[i].split(" ")
            raw = bytes.fromhex(parts[-1].replace("-", ""))
            if mode == "xfile":       # edit every line of the file that has a quote or a backslash (else the last one)
                fl = raw.split(b"\n")
                cand = [k for k, l in enumerate(fl) if b"\"" in l or b"\\" in l][:3] or [max(0, len(fl) - 2)]
                muts = [raw]
                for k in cand:
                    muts += [b"\n".join(fl[:k] + [m] + fl[k + 1:]) for m in gen.quote_mutants(fl[k], 60)[1:]]
            else:
                muts = gen.quote_mutants(raw)
            cl = [" ".join(parts[:-1] + [hx(m)]) for m in muts]
            found = []
            o, inc = run_batch([h, mode, os.path.join(ctx.scratch, "xfile-near.tmp")], cl, ASAN_ENV, timeout=120, max_restarts=4)
            for j, kind, err in inc[:1]:
                sig = san_signature(err or "") or kind
                k = max((err or "").find("ERROR: AddressSanitizer"), (err or "").find("runtime error:") - 120, 0)
                what = ("hang" if kind == "timeout" else "crash")
                found.append(("%s:text-%s:%s" % (what, mode, sig) if what == "crash" else "hang:text-%s" % mode,
                              "the %s harness (line in an exactly sized heap block) %s on %r: %s"
                              % (mode, "does not return" if what == "hang" else "dies (%s)" % kind, muts[j][:200], (err or "")[k:k + 700]),
                              dict(part="text", mode=mode, case=cl[j], edit_of=lines[i], line=repr(muts[j][:400]))))
            for j, line_out in enumerate(o):
                if line_out and "STAGED-" in line_out:
                    found.append(("stale:text-%s" % mode, "the verdict on %r depends on what lies behind the terminating NUL of the string "
                                  "a stage is given: %s" % (muts[j][:200], line_out[:100]),
                                  dict(part="text", mode=mode, case=cl[j], edit_of=lines[i], line=repr(muts[j][:400]))))
                    break
            with ThreadPoolExecutor(max_workers=8) as ex:
                res = list(ex.map(lambda m: tools.gensquashfs(**tool_kw(mode, m)[1]), muts))
            for m, r in zip(muts, res):
                if r:
                    kind, kw = tool_kw(mode, m)
                    found.append(("tool:gensquashfs:%s:%s" % (kind, r[0]), "gensquashfs with the %s file %r: %s" % (kind, list(kw.values())[0][:200], r[1]),
                                  dict(part="text-tool", kind=kind, edit_of=lines[i], **{k + "_b64": base64.b64encode(v).decode() for k, v in kw.items()})))
                    break
            return found
        agree = compare(ctx, "text-" + mode, lines, outs_c, outs_m, inc_c, replay_of, search, neighbours=neighbours)
        total += len(lines)
        nontriv += len({(l, o) for l, o in zip(lines, outs_c) if o and o.startswith("OK")})
        stats["text-" + mode] = dict(cases=len(lines), agree=agree, ok=sum(1 for o in outs_c if o and o.startswith("OK")),
                                     err=sum(1 for o in outs_c if o and o.startswith("ERR")))
        k = len(lines) // 3
        samples.append(dict(part="text", mode=mode, case=lines[k][:200], impl=(outs_c[k] or "")[:200], model=(outs_m[k] or "")[:200]))
    return total, nontriv, samples[:2]


def part_text_tools(ctx, tools, stats):
    rnd = random.Random(ctx.seed * 7919 + 5)
    q = ctx.tier == "quick"
    jobs = []
    for p in gen.text_mutants(rnd, gen.PACK_BASE, gen.PACK_LINES, 80 if q else 3000):
        jobs.append(("pack", dict(pack=p)))
    for s in gen.text_mutants(rnd, gen.SORT_BASE, gen.SORT_LINES, 60 if q else 3000):
        jobs.append(("sort", dict(sort=s)))
    for x in gen.text_mutants(rnd, gen.XATTR_BASE, gen.XATTR_LINES, 60 if q else 3000):
        jobs.append(("xattr", dict(xattr=x)))
    # quoting case splits: the valid file followed by one line whose quoted token ends in each case of the unquoting loop
    for p in gen.quote_files(gen.PACK_BASE, gen.PACK_QUOTE_LINES, [b"dir ", b"file "] if q else [b"dir ", b"file ", b"slink ", b"glob ", b"\""]):
        jobs.append(("pack", dict(pack=p)))
    for s in gen.quote_files(gen.SORT_BASE, gen.SORT_QUOTE_LINES, [b"10 ", b"5 [glob] "] if q else [b"10 ", b"5 [", b"\""]):
        jobs.append(("sort", dict(sort=s)))
    for x in gen.quote_files(gen.XATTR_BASE, gen.XATTR_QUOTE_LINES, [b"user.q=", b"# file: "]):
        jobs.append(("xattr", dict(xattr=x)))
    # structured xattr map files (the cases of the whole-file tie) on the tool
    xs = gen.xattr_struct_files(rnd, 40 if q else 2000)
    rnd.shuffle(xs)
    for x in xs[:70 if q else 3000] + gen.xattr_big_files()[1:]:
        jobs.append(("xattr", dict(xattr=x)))
    fails = {}
    counts = {}
    with ThreadPoolExecutor(max_workers=12) as ex:
        for (kind, kw), res in zip(jobs, ex.map(lambda j: tools.gensquashfs(**j[1]), jobs)):
            counts[kind] = counts.get(kind, 0) + 1
            if res and (kind, res[0]) not in fails:
                fails[(kind, res[0])] = (kw, res[1])
    for (kind, s), (kw, txt) in fails.items():
        ctx.violation("tool:gensquashfs:%s:%s" % (kind, s), "gensquashfs with a hostile %s file: %s" % (kind, txt),
                      dict(part="text-tool", kind=kind, **{k + "_b64": base64.b64encode(v).decode() for k, v in kw.items()}))
    stats["text-tools"] = counts
    return len(jobs)



# --------------------------------------------------------------------------- malformed compressed containers (session 3, seed C07-9)

def tar_model_says_err(drv):
    """C07's tar-level expectation: True when the extracted model of the tar reader answers ERR on the byte stream"""
    cache = {}
    lock = threading.Lock()
    cmd = ["sh", "-c", 'ulimit -s unlimited 2>/dev/null || ulimit -s 4000000 2>/dev/null; exec "$0" "$@"', drv, "tar"]

    def f(data):
        with lock:
            if data in cache:
                return cache[data]
        o, _ = run_batch(cmd, [data.hex() or "-"], timeout=120)
        v = (o[0] or "").rstrip().endswith("ERR")
        with lock:
            cache[data] = v
        return v
    return f


def wrapped_verdict(tools, case, name):
    """the property on one container: (signature suffix, text) or None"""
    res, rc, err = tools.tar2sqfs_full(case["data"], name, budgets=WRAP_BUDGETS)
    if res:
        return res, rc
    if rc == 0 and case["must_reject"]:
        return ("malformed-accepted", "exit 0 (valid image written) although the input is malformed: %s" % case["why"]), rc
    return None, rc


def part_wrapped(ctx, info, drv, tools, stats):
    """tar archives inside gzip / xz / bzip2 / zstd containers that are themselves malformed (props/C07/wrap.py)"""
    rnd = random.Random(ctx.seed * 7919 + 6)
    refzstd = wrap.build_refzstd(core.CACHE, os.path.join(core.VERIF, "props", "C15", "refzstd.c"))
    if not refzstd:
        ctx.notes.append("wrapped leg: no reference zstd (props/C15/refzstd.c does not build against the system libzstd): zstd containers skipped")
    cases = wrap.cases(gen, rnd, ctx.tier, refzstd)
    model = tar_model_says_err(drv)
    with ThreadPoolExecutor(max_workers=8) as ex:
        list(ex.map(lambda c: wrap.classify(c, refzstd, model), cases))
    with ThreadPoolExecutor(max_workers=12) as ex:
        results = list(ex.map(lambda ic: wrapped_verdict(tools, ic[1], "%d" % ic[0]), enumerate(cases)))
    # a codec whose intact containers are refused cleanly is not compiled in (or broken in a way that is C15's matter):
    # the must_reject expectation is vacuous for it, only the unconditional part is evaluated
    skipped = {}
    for c, (res, rc) in zip(cases, results):
        if c["variant"].startswith("control") and res is None and rc != 0:
            skipped.setdefault(c["codec"], c["variant"])
    for k, v in skipped.items():
        ctx.notes.append("wrapped leg: tar2sqfs refuses the intact %s container (%s): codec not compiled in? -- not a C07 matter, see C15" % (k, v))
    fails = {}
    dist = {}
    for c, (res, rc) in zip(cases, results):
        d = dist.setdefault(c["codec"], dict(cases=0, must_reject=0, rejected=0, accepted=0, ref={}))
        d["cases"] += 1
        d["must_reject"] += int(c["must_reject"])
        d["rejected" if rc not in (0, None) else "accepted"] += 1 if rc is not None else 0
        d["ref"][c["ref"]] = d["ref"].get(c["ref"], 0) + 1
        if res and not (res[0] == "malformed-accepted" and c["codec"] in skipped):
            s = "%s:wrapped-%s" % (res[0], c["codec"])
            if s not in fails:
                fails[s] = (c, res[1])
    for s, (c, txt) in fails.items():
        ctx.violation("tool:tar2sqfs:%s" % s, "tar2sqfs on a malformed %s container (%s, %d bytes; %s): %s"
                      % (c["codec"], c["variant"], len(c["data"]), c["why"], txt),
                      dict(part="wrapped", codec=c["codec"], variant=c["variant"], ref=c["ref"], must_reject=c["must_reject"], why=c["why"],
                           damage_offset=c["damage"], stdin_b64=base64.b64encode(c["data"]).decode()))
    stats["wrapped"] = dict(cases=len(cases), per_codec=dist, skipped=skipped, refzstd=bool(refzstd))
    nontrivial = sum(1 for c, (res, rc) in zip(cases, results) if c["must_reject"] and rc not in (0, None))
    k = next((i for i, c in enumerate(cases) if c["must_reject"]), 0)
    return len(cases), nontrivial, [dict(part="wrapped", codec=cases[k]["codec"], variant=cases[k]["variant"], bytes=len(cases[k]["data"]),
                                         expectation=cases[k]["why"], exit_status=results[k][1])]


# --------------------------------------------------------------------------- replay

def do_replay(ctx, info, drv, tools):
    r = json.load(open(ctx.replay))
    part = r.get("part")
    ctx.coverage["rule"] = "replay of %s" % ctx.replay
    if "tar_b64" in r:
        data = base64.b64decode(r["tar_b64"])
        h = B.compile_harness(info, [os.path.join(HERE, "h_tar.c")], "c07_h_tar")
        line = data.hex() or "-"
        oc, ic = run_batch([h, "tar"], [line], env=ASAN_ENV, timeout=60)
        om, _ = run_batch(["sh", "-c", 'ulimit -s unlimited 2>/dev/null || ulimit -s 4000000 2>/dev/null; exec "$0" "$@"', drv, "tar"], [line])
        for i, kind, err in ic:
            report_incident(ctx, "tar", line, kind, err, r)
        if not ic and oc != om and part == "tar":
            ctx.violation("tie:tar", "replay: impl=%r model=%r" % (oc[0], om[0]), r, no_input=True)
        res = tools.tar2sqfs(data)
        if res:
            ctx.violation("tool:tar2sqfs:%s" % res[0], "tar2sqfs on the replayed archive: %s" % res[1], r)
    if part == "hl":
        h = B.compile_harness(info, [os.path.join(HERE, "h_hardlink.c")], "c07_h_hardlink")
        oc, ic = run_batch([h, str(CASE_TIMEOUT)], [r["case"]], env=ASAN_ENV, timeout=60)
        om, _ = run_batch([drv, "hl"], [r["case"]])
        for i, kind, err in ic:
            report_incident(ctx, "hardlink", r["case"], kind, err, r)
        if not ic and oc != om:
            ctx.violation("tie:hardlink", "replay: impl=%r model=%r" % (oc[0], om[0]), r, no_input=True)
    if part == "dec":
        h = B.compile_harness(info, [os.path.join(HERE, "h_tar.c")], "c07_h_tar")
        oc, ic = run_batch([h, r["mode"]], [r["case"]], env=ASAN_ENV, timeout=60)
        om, _ = run_batch([drv, r["mode"]], [r["case"]])
        for i, kind, err in ic:
            report_incident(ctx, "dec-" + r["mode"], r["case"], kind, err, r)
        if not ic and oc != om:
            ctx.violation("tie:dec-" + r["mode"], "replay: impl=%r model=%r" % (oc[0], om[0]), r, no_input=True)
    if part == "text":
        h = B.compile_harness(info, [os.path.join(HERE, "h_text.c")], "c07_h_text",
                              extra=["-I" + os.path.join(B.REPO, "bin", "gensquashfs", "src")])
        oc, ic = run_batch([h, r["mode"], os.path.join(ctx.scratch, "xfile.tmp")], [r["case"]],
                           env=LEAK_ENV if r["mode"] == "xfile" else ASAN_ENV, timeout=60)
        om, _ = run_batch([drv, r["mode"]], [r["case"]])
        for i, kind, err in ic:
            report_incident(ctx, "text-" + r["mode"], r["case"], kind, err, r)
        if not ic and oc != om:
            ctx.violation("tie:text-" + r["mode"], "replay: impl=%r model=%r" % (oc[0], om[0]), r, no_input=True)
    if part == "wrapped":
        c = dict(data=base64.b64decode(r["stdin_b64"]), must_reject=bool(r.get("must_reject")), why=r.get("why", ""))
        res, rc = wrapped_verdict(tools, c, "replay")
        if res:
            ctx.violation("tool:tar2sqfs:%s:wrapped-%s" % (res[0], r.get("codec", "?")), "tar2sqfs on the replayed container: %s" % res[1], r)
    if part == "text-tool" or "pack_b64" in r:
        kw = {k[:-4]: base64.b64decode(v) for k, v in r.items() if k.endswith("_b64") and k[:-4] in ("pack", "sort", "xattr")}
        res = tools.gensquashfs(**kw)
        if res:
            ctx.violation("tool:gensquashfs:%s:%s" % (r.get("kind", "pack"), res[0]), "gensquashfs on the replayed files: %s" % res[1], r)
    ctx.coverage["evaluations"] = 1


# --------------------------------------------------------------------------- entry points

def build_driver():
    return core.build_model_driver("C07", "ExtractC07.v", os.path.join(HERE, "driver.ml"))


def run(ctx):
    changed, err = regen_gen_v()
    if err:
        ctx.proof_broken.append("C07/GenC07.v: " + err)
    if changed:
        ctx.log("GenC07.v changed -> re-checking the proofs against the new constants")
        ctx.proof_broken[:] = [b for b in ctx.proof_broken if "Properties_C07" not in b and "theorem" not in b]
        core.prepare_proofs(ctx)
    info = B.build("asan")
    drv = build_driver()
    tools = Tools(ctx, info)
    ctx.trusted += ["props/C07/h_hardlink.c, h_tar.c, h_text.c, driver.ml (hex I/O glue, canonical printing, exact-size heap copies of every input; "
                    "sort lines: every stage once more on an exact-size copy of the string it is given; xattr files: LeakSanitizer's recoverable leak check after every case)",
                    "ASan/UBSan verdicts (gcc -fsanitize=address,undefined -fno-sanitize-recover=all), SIGALRM time-out of %d s per case" % CASE_TIMEOUT,
                    "props/C07/gen.py (own tar encoder, mutators), vlib/sqfsimg.py validator for produced images",
                    "props/C07/gen_c07.c: translator /repo headers + <errno.h> -> coq/C07/GenC07.v (regenerated on every run)",
                    "<ctype.h> in the C locale, strtol(3), strnlen/strndup/strcmp/strchr as specified by ISO C (modelled, not verified)",
                    "props/C07/wrap.py: reference codecs (Python zlib / lzma / bz2; system libzstd through props/C15/refzstd.c) decide whether a "
                    "compressed container is malformed and where the archive is complete; format offsets (gzip / xz / bzip2 / zstd framing) computed there"]
    ctx.assumptions += ["bounded time is relative to input length plus announced logical sizes: archives announcing more than %d bytes of file data or carrying a sparse map of more than %d entries are parsed by the harness but not handed to tar2sqfs (tar2sqfs walks the whole sparse map on every read: a 600 kB archive with the maximum of 65536 entries takes about 30 s)" % (MAX_LOGICAL, MAX_SPARSE_TOOL),
                        "decompressor libraries and the xfrm stream layer are outside the Coq model (C15); the tie feeds uncompressed tar streams; malformed gzip / xz / bzip2 / zstd "
                        "containers around tar archives are evaluated at tool level only (part_wrapped: watchdog %d s, confirmed alone with %d s)" % WRAP_BUDGETS,
                        "malloc failure paths are not explored (C13)"]
    if ctx.replay:
        do_replay(ctx, info, drv, tools)
        return
    stats = {}
    ev = nt = 0
    samples = []
    for part in (part_hardlinks, part_tar):
        e, n, s = part(ctx, info, drv, tools, stats)
        ev += e
        nt += n
        samples += s
        ctx.log(part.__name__, "done:", e, "cases")
    e, n, s = part_decoders(ctx, info, drv, stats)
    ev += e
    nt += n
    samples += s
    ctx.log("decoders done")
    e, n, s = part_text(ctx, info, drv, tools, stats)
    ev += e
    nt += n
    samples += s
    ctx.log("text harness done")
    tr = part_text_tools(ctx, tools, stats)
    e, n, sm = part_wrapped(ctx, info, drv, tools, stats)
    tr += e
    nt += n
    samples += sm
    ctx.log("wrapped containers done:", e, "cases")
    ctx.log("text tools done; stalls (attempt, tool, stdin bytes):", tools.stalls[:10])
    stats["tool_timeouts_first_attempt"] = len([x for x in tools.stalls if x[0] == 0])
    ctx.coverage["evaluations"] = ev + tr
    ctx.coverage["distinct_nontrivial"] = nt
    ctx.coverage["traces_validated_against_impl"] = ev
    ctx.coverage["exhaustive"] = False
    ctx.coverage["rule"] = (
        "hard links: every assignment of targets {other links, self, file, dir, file in dir, dangling, through-a-file} to k<=4 link nodes, "
        "all insertion orders for k<=3 (seeded orders for k=4 in the quick tier), long and rho-shaped chains; "
        "tar: structure-aware mutation of own-encoded archives of every dialect (header fields to boundary values, K/L/x sizes 0,1,limit-1,limit,limit+1, "
        "PAX length fields lying both ways, sparse 1.0 numbers on the 512/1024 window edges, old-sparse extension chains), truncation at every offset of small archives, "
        "checksum-repaired bit flips; decoders: boundary tables + seeded random fields; text: one-line edits of valid pack/sort/xattr files + a table of hostile lines + quoting case splits "
        "(token ends: lone quote / backslash / escaped quote / escaped backslash / closed / closed+blank in 2-6 contexts per parser; every string of <= 5 symbols "
        "over {quote, backslash, letter, blank} behind an opening quote); a text tie disagreement is followed by a search over the line's edits at the case "
        "splits on the ASan harness and the ASan tool; xattr map files additionally: structured files over pools of accepted / refused '# file:' lines, "
        "the three value syntaxes (good and bad), comments, blank lines and NUL, every line ending of {LF, CR LF, CR CR LF, blank+LF, double LF}, with and without "
        "the final newline, and three files larger than the 128 KiB stream window (a line straddling the edge, LF resp. CR as the last byte of the window) "
        "against the extracted whole-file model run with three window oracles (everything / 7 bytes / 1 byte); "
        "compressed containers (tool level): for each of gzip / xz / bzip2 / zstd a ~140 kB multi-block and a ~3 kB archive, cut at every structural point of the format "
        "(inside magic / header / block header, mid block, second bzip2 block, before / inside check sum, index, footer, end marker, last byte) and at seeded offsets "
        "(thorough: every offset of the small container), one bit flipped in payload / trailer / header, trailing garbage (text, zeros, a magic), the container of the "
        "empty string, well-formed containers of a tar cut inside a header / inside file data / before the END marker, two concatenated members cut around the seam and "
        "flipped in the second member; refusal is demanded iff the reference decoder refuses the bytes and the damage lies in front of the shortest prefix that decodes "
        "to the whole archive, or the reference decoder accepts and the tar model answers ERR on the content; seed %d. "
        "non-trivial = the model reaches a resolver verdict (hl), decodes at least one header or rejects after the checksum (tar), decoder accepts (dec)" % ctx.seed)
    ctx.coverage["distribution"] = stats
    ctx.add_samples(samples)


def setup():
    build_driver()
