"""C07 case generators (all randomness from the Random object handed in).

tar:   own encoder for every dialect the reader understands (v7, ustar+prefix, pre-POSIX "ustar  ",
       GNU long name/link 'L'/'K', old GNU sparse 'S' (+ extension records), PAX 'x'/'g' with every key
       the reader handles, PAX sparse 0.0 / 0.1 / 1.0), then structure-aware mutation: header fields to
       boundary values, size fields 0/1/limit-1/limit/limit+1, PAX length fields lying in both
       directions, sparse maps with numbers placed on the 512-byte window edges, truncation, bit flips.
hl:    all hard-link graphs over <= 4 link nodes and 2 targets (+ dangling / through-a-file / root).
text:  pack files, sort files, xattr map files and their mutations.
"""
import itertools

# ----------------------------------------------------------------------------- tar encoder

LIMIT = 65536


def octal(v, width):
    """width bytes: zero padded octal, NUL terminated"""
    s = ("%o" % v).encode()
    s = s.rjust(width - 1, b"0")[-(width - 1):]
    return s + b"\0"


def binnum(v, width):
    v &= (1 << (8 * width)) - 1
    b = v.to_bytes(width, "big")
    return bytes([b[0] | 0x80]) + b[1:]


class Hdr:
    """one 512-byte header, every field overridable as raw bytes"""
    FIELDS = [("name", 0, 100), ("mode", 100, 8), ("uid", 108, 8), ("gid", 116, 8), ("size", 124, 12),
              ("mtime", 136, 12), ("chksum", 148, 8), ("typeflag", 156, 1), ("linkname", 157, 100),
              ("magic", 257, 6), ("version", 263, 2), ("uname", 265, 32), ("gname", 297, 32),
              ("devmajor", 329, 8), ("devminor", 337, 8), ("prefix", 345, 155), ("pad", 500, 12)]
    OFF = {n: (o, l) for n, o, l in FIELDS}
    # GNU tail
    GNU = {"atime": (345, 12), "ctime": (357, 12), "offset": (369, 12), "sparse": (386, 96),
           "isextended": (482, 1), "realsize": (483, 12)}

    def __init__(self, name=b"f", typ=b"0", size=0, dialect="ustar", link=b"", mode=0o644, uid=0, gid=0,
                 mtime=0, prefix=b""):
        self.raw = bytearray(512)
        self.set("name", name[:100])
        self.set("mode", octal(mode, 8))
        self.set("uid", octal(uid, 8))
        self.set("gid", octal(gid, 8))
        self.set("size", octal(size, 12))
        self.set("mtime", octal(mtime, 12))
        self.set("typeflag", typ)
        self.set("linkname", link[:100])
        if dialect == "ustar":
            self.set("magic", b"ustar\0")
            self.set("version", b"00")
            self.set("prefix", prefix[:155])
        elif dialect == "gnu":
            self.set("magic", b"ustar ")
            self.set("version", b" \0")
        if dialect != "v7":
            self.set("devmajor", octal(0, 8))
            self.set("devminor", octal(0, 8))
        self.fix = True
        self.chk_override = None

    def set(self, field, val, pad=b"\0"):
        o, l = self.OFF.get(field) or self.GNU[field]
        val = bytes(val)[:l]
        self.raw[o:o + l] = val + pad * (l - len(val))
        return self

    def bytes(self):
        r = bytearray(self.raw)
        if self.chk_override is not None:
            r[148:156] = (self.chk_override + b"\0" * 8)[:8]
        elif self.fix:
            r[148:156] = b" " * 8
            s = sum(r)
            r[148:156] = ("%06o" % s).encode() + b"\0 "
        return bytes(r)


def pad512(b):
    return b + b"\0" * (-len(b) % 512)


def pax_rec(key, val, lie=0, sep=b" ", lenfmt=None):
    body = sep + key + b"=" + val + b"\n"
    n = len(body) + 1
    while len(str(n)) + len(body) != n:
        n = len(str(n)) + len(body)
    n += lie
    ls = lenfmt(n) if lenfmt else str(n).encode()
    return ls + body


END = b"\0" * 1024


def file_entry(name, data, dialect="ustar", **kw):
    return Hdr(name, b"0", len(data), dialect, **kw).bytes() + pad512(data)


def pax_entry(recs, name=b"pax", typ=b"x", size=None, dialect="ustar"):
    body = b"".join(recs)
    return Hdr(name, typ, len(body) if size is None else size, dialect).bytes() + pad512(body)


def long_entry(typ, s, dialect="gnu", size=None, nul=True):
    body = s + (b"\0" if nul else b"")
    return Hdr(b"././@LongLink", typ, len(body) if size is None else size, dialect).bytes() + pad512(body)


def old_sparse_entry(name, entries, realsize, data, ext=None, isext=None):
    """entries: list of (offset, count) for the header (max 4), ext: list of lists (21 each) for extension records"""
    h = Hdr(name, b"S", len(data), "gnu")
    sp = b""
    for o, c in entries[:4]:
        sp += octal(o, 12) + octal(c, 12) if isinstance(o, int) else o + c
    h.set("sparse", sp)
    h.set("realsize", octal(realsize, 12) if isinstance(realsize, int) else realsize)
    ext = ext or []
    h.set("isextended", bytes([1 if ext else 0]) if isext is None else isext)
    out = h.bytes()
    for i, blk in enumerate(ext):
        b = b""
        for o, c in blk[:21]:
            b += octal(o, 12) + octal(c, 12) if isinstance(o, int) else o + c
        b = b.ljust(504, b"\0") + bytes([1 if i + 1 < len(ext) else 0]) + b"\0" * 7
        out += b
    return out + pad512(data)


def sparse10_map(entries, count=None, numfmt=None):
    numfmt = numfmt or (lambda v: str(v).encode())
    m = numfmt(len(entries) if count is None else count) + b"\n"
    for o, c in entries:
        m += numfmt(o) + b"\n" + numfmt(c) + b"\n"
    return m


def sparse10_entry(name, mapbytes, data, realsize, extra_recs=(), size=None):
    recs = [pax_rec(b"GNU.sparse.major", b"1"), pax_rec(b"GNU.sparse.minor", b"0"),
            pax_rec(b"GNU.sparse.name", name), pax_rec(b"GNU.sparse.realsize", str(realsize).encode())] + list(extra_recs)
    body = pad512(mapbytes) + data
    return pax_entry(recs) + Hdr(b"GNUSparseFile.0/" + name, b"0", len(body) if size is None else size).bytes() + pad512(body)


def b64(b):
    import base64
    return base64.b64encode(b)


def base_archives():
    """well-formed archives, one per dialect / feature: list of (tag, bytes)"""
    out = []
    out.append(("v7", file_entry(b"f", b"abc", "v7") + Hdr(b"d/", b"5", 0, "v7", mode=0o755).bytes() + END))
    out.append(("ustar", file_entry(b"f", b"hello", "ustar", prefix=b"some/prefix", uid=1000, gid=1000, mtime=1234567)
                + Hdr(b"d", b"5", 0, mode=0o755).bytes() + Hdr(b"l", b"2", 0, link=b"f").bytes()
                + Hdr(b"h", b"1", 0, link=b"some/prefix/f").bytes() + Hdr(b"c", b"3", 0).bytes()
                + Hdr(b"b", b"4", 0).bytes() + Hdr(b"p", b"6", 0).bytes() + END))
    out.append(("gnu", file_entry(b"f", b"x" * 600, "gnu") + long_entry(b"L", b"n" * 150) + file_entry(b"short", b"1", "gnu")
                + long_entry(b"K", b"t" * 120) + Hdr(b"sl", b"2", 0, "gnu", link=b"x").bytes() + END))
    out.append(("pax", pax_entry([pax_rec(b"path", b"long/" + b"p" * 120), pax_rec(b"uid", b"100000"), pax_rec(b"gid", b"70000"),
                                  pax_rec(b"size", b"3"), pax_rec(b"mtime", b"1600000000.5"), pax_rec(b"atime", b"1"),
                                  pax_rec(b"SCHILY.xattr.user.a", b"v\0w"), pax_rec(b"LIBARCHIVE.xattr.user.b%41", b64(b"hello")),
                                  pax_rec(b"LIBARCHIVE.xattr.user.c", b"aGVsbG8")])
                + file_entry(b"x", b"abc") + pax_entry([pax_rec(b"linkpath", b"tgt/" + b"q" * 110)]) + Hdr(b"s", b"2", 0, link=b"zz").bytes()
                + pax_entry([pax_rec(b"comment", b"hi")], typ=b"g") + file_entry(b"y", b"") + END))
    out.append(("oldsparse", old_sparse_entry(b"sp", [(0, 512), (4096, 512), (8192, 0)], 8192, b"a" * 1024)
                + old_sparse_entry(b"sp2", [(i * 1024, 512) for i in range(4)], 40960, b"b" * 512 * 9,
                                   ext=[[(4096 + i * 1024, 512) for i in range(5)]]) + END))
    out.append(("sparse00", pax_entry([pax_rec(b"GNU.sparse.size", b"8192"), pax_rec(b"GNU.sparse.numblocks", b"2"),
                                       pax_rec(b"GNU.sparse.offset", b"0"), pax_rec(b"GNU.sparse.numbytes", b"512"),
                                       pax_rec(b"GNU.sparse.offset", b"4096"), pax_rec(b"GNU.sparse.numbytes", b"512")])
                + file_entry(b"s00", b"c" * 1024) + END))
    out.append(("sparse01", pax_entry([pax_rec(b"GNU.sparse.size", b"8192"), pax_rec(b"GNU.sparse.numblocks", b"2"),
                                       pax_rec(b"GNU.sparse.name", b"s01"), pax_rec(b"GNU.sparse.map", b"0,512,4096,512")])
                + file_entry(b"ignored", b"d" * 1024) + END))
    out.append(("sparse10", sparse10_entry(b"s10", sparse10_map([(0, 512), (4096, 512)]), b"e" * 1024, 8192) + END))
    # xattr keys / names with bytes >= 0x80 (signed char arithmetic in hash functions, ctype lookups)
    out.append(("paxhi", pax_entry([pax_rec(b"SCHILY.xattr.user.\xff\x80", b"v\xff"), pax_rec(b"LIBARCHIVE.xattr.user.%ff%80a", b64(b"\xff")),
                                    pax_rec(b"path", b"n\xc3\xa4me\xff")]) + file_entry(b"x", b"abc") + END))
    out.append(("unknown", Hdr(b"u", b"Z", 5).bytes() + pad512(b"12345") + file_entry(b"after", b"z") + END))
    return out


NUM_VALUES = [b"", b"\0" * 12, b" " * 12, b"0", b"7" * 11, b"7" * 12, b"1" + b"7" * 11, b"8", b"12a", b" 12", b"\t\n12", b"12 ",
              b"-1", b"+1", b"00000000000\0", b"777777777777", b"17777777777\0", b"37777777777\0",
              b"\x80" + b"\0" * 11, b"\x80" + b"\0" * 6 + b"\1", b"\x80\0\0\0\xff" + b"\xff" * 7, b"\x80\0\0\1" + b"\0" * 8,
              b"\xff" * 12, b"\xff" * 4 + b"\x80" + b"\0" * 7, b"\xff" * 3 + b"\x7f" + b"\xff" * 8, b"\x81" + b"\0" * 11,
              b"\x80" + b"\x7f" + b"\xff" * 6, b"\xff\xfe" + b"\0" * 6, b"\x80" + b"\0" * 3 + b"\x80" + b"\0" * 7,
              b"\xc0" + b"\0" * 11, b"\x80\0\0\0\x7f" + b"\xff" * 7, b"\x80\0\0\0\x80" + b"\0" * 7]


def size_values(limit=LIMIT):
    return [0, 1, 2, 511, 512, 513, limit - 1, limit, limit + 1, 1 << 31, (1 << 33) - 1]


def mutate_headers(rnd, tag, data, n):
    """field-level mutations of the headers found at 512-byte boundaries"""
    out = []
    blocks = [i for i in range(0, len(data) - 511, 512) if data[i + 257:i + 262] == b"ustar" or (tag == "v7" and i == 0)]
    if not blocks:
        return out
    for _ in range(n):
        b = bytearray(data)
        i = rnd.choice(blocks)
        h = Hdr()
        h.raw = bytearray(b[i:i + 512])
        k = rnd.random()
        if k < 0.45:
            f = rnd.choice(["mode", "uid", "gid", "size", "mtime", "devmajor", "devminor", "chksum"])
            v = rnd.choice(NUM_VALUES)
            if f == "chksum":
                h.chk_override = v
            else:
                h.set(f, v[:h.OFF[f][1]])
        elif k < 0.6:
            h.set("size", octal(rnd.choice(size_values()), 12))
        elif k < 0.7:
            h.set("typeflag", bytes([rnd.choice(list(b"01234567xgKLSVMNDXA\0\xff "))]))
        elif k < 0.8:
            f = rnd.choice(["name", "linkname", "prefix"])
            l = h.OFF[f][1]
            h.set(f, rnd.choice([b"", b"a" * l, b"a" * (l - 1), b"../x", b"/abs", b"a//b/./c", b"\xff" * l, b"a\0b"]))
        elif k < 0.88:
            h.set("magic", rnd.choice([b"ustar\0", b"ustar ", b"USTAR\0", b"\0" * 6, b"ustar\x01", b"ustar"]))
            h.set("version", rnd.choice([b"00", b" \0", b"\0\0", b"01", b"  "]))
        elif k < 0.94:
            # GNU tail of a sparse header
            f = rnd.choice(["realsize", "isextended", "sparse"])
            if f == "sparse":
                o = rnd.randrange(0, 96 - 12, 12)
                h.raw[386 + o:386 + o + 12] = (rnd.choice(NUM_VALUES) + b"\0" * 12)[:12]
            elif f == "isextended":
                h.set("isextended", bytes([rnd.choice([0, 1, 255])]))
            else:
                h.set("realsize", (rnd.choice(NUM_VALUES) + b"\0" * 12)[:12])
        else:
            h.fix = False
            p = rnd.randrange(512)
            h.raw[p] ^= 1 << rnd.randrange(8)
        b[i:i + 512] = h.bytes()
        out.append(bytes(b))
    return out


PAX_KEYS = [b"uid", b"gid", b"path", b"size", b"linkpath", b"mtime", b"GNU.sparse.name", b"GNU.sparse.size",
            b"GNU.sparse.realsize", b"GNU.sparse.major", b"GNU.sparse.minor", b"SCHILY.xattr.user.k", b"SCHILY.xattr.",
            b"LIBARCHIVE.xattr.user.k", b"LIBARCHIVE.xattr.%75ser.%6b", b"LIBARCHIVE.xattr.a%", b"LIBARCHIVE.xattr.a%4",
            b"LIBARCHIVE.xattr.a%00b", b"LIBARCHIVE.xattr.%zz%41", b"GNU.sparse.map", b"GNU.sparse.offset",
            b"GNU.sparse.numbytes", b"GNU.sparse.numblocks", b"atime", b"comment", b"", b"SCHILY.xattr", b"uid2", b"u",
            b"SCHILY.xattr.user.\xff\x80", b"LIBARCHIVE.xattr.user.%ff%80"]
NUM_TXT = [b"0", b"1", b"-1", b"+1", b"", b" 1", b"1 ", b"1.5", b"abc", b"18446744073709551615", b"18446744073709551616",
           b"1844674407370955161", b"1844674407370955160", b"9223372036854775807", b"9223372036854775806",
           b"-9223372036854775808", b"-9223372036854775806", b"99999999999999999999999999", b"007", b"1\0002", b"4294967296"]
MAP_TXT = [b"0,1", b"0,1,2,3", b"", b",", b"0", b"0,", b"0,1,", b"0,1,2", b"a,b", b"0,1;2,3", b"1,0,1,0", b"18446744073709551615,1",
           b"99999999999999999999,1", b"0,1\0,2", b"0,,1", b" 0,1", b"0 ,1", b"5,5,1,1,3,3", b"0,1000000", b"0,1,0,1,0,1,0,1"]
B64_TXT = [b"", b"A", b"AA", b"AAA", b"AAAA", b"AAAAA", b"AAAAAA", b"AAAAAAA", b"QQ==", b"QUI=", b"QUJD", b"Q===", b"QQ=A", b"QQ==QQ==",
           b"QUJDRA==", b"QUJDRA", b"QUJDREU", b"QUJDREU=", b"QU-_", b"QU+/", b"Q!JD", b"QUJ\0", b"====", b"QQ__", b"QUI_", b"\xff\xff\xff\xff",
           b"QUJDR", b"QUJD=", b"QUJDQ=", b"QUJDQ_", b"QUJDQUJDQUJDQUJD" * 8]


def pax_value_for(rnd, key):
    if key in (b"uid", b"gid", b"size", b"GNU.sparse.size", b"GNU.sparse.realsize", b"GNU.sparse.offset", b"GNU.sparse.numbytes",
               b"GNU.sparse.major", b"GNU.sparse.minor", b"GNU.sparse.numblocks", b"mtime"):
        return rnd.choice(NUM_TXT)
    if key == b"GNU.sparse.map":
        return rnd.choice(MAP_TXT)
    if key.startswith(b"LIBARCHIVE"):
        return rnd.choice(B64_TXT)
    return rnd.choice([b"", b"v", b"a/b/c", b"x" * rnd.choice([1, 99, 100, 101, 255, 256]), b"a\0b", b"../e", b"\xff\xfe", b"a=b", b"a\nb"])


def pax_mutants(rnd, n):
    """PAX extended headers with hostile records, followed by a plain entry"""
    out = []
    lenfmts = [None, None, None, lambda v: b"0" * 3 + str(v).encode(), lambda v: b" " + str(v).encode(), lambda v: b"+" + str(v).encode(),
               lambda v: b"\n\t" + str(v).encode(), lambda v: ("%x" % v).encode(), lambda v: str(v).encode() + b"x"]
    for _ in range(n):
        recs = []
        for _ in range(rnd.choice([1, 1, 2, 3, 5])):
            key = rnd.choice(PAX_KEYS)
            val = pax_value_for(rnd, key)
            lie = rnd.choice([0, 0, 0, 0, 1, -1, 2, -2, 5, -5, 100, -100, 70000, -(len(key) + len(val) + 5)])
            sep = rnd.choice([b" ", b" ", b" ", b"  ", b"\t", b"", b" \n "])
            r = pax_rec(key, val, lie=lie, sep=sep, lenfmt=rnd.choice(lenfmts))
            k = rnd.random()
            if k < 0.05:
                r = r.replace(b"=", b"", 1)
            elif k < 0.08:
                r = b"99999999999999999999999" + r
            elif k < 0.11:
                r = b"-5" + r
            elif k < 0.14:
                r = b"0 " + r
            elif k < 0.17:
                r = r[:-1]
            recs.append(r)
        body = b"".join(recs)
        k = rnd.random()
        size = None
        if k < 0.1:
            size = len(body) + rnd.choice([1, -1, 512, 10])
        follow = rnd.choice([file_entry(b"f", b"abc"), Hdr(b"l", b"2", 0, link=b"t").bytes(), Hdr(b"h", b"1", 0, link=b"f").bytes(),
                             file_entry(b"f", b"x" * 1024), old_sparse_entry(b"sp", [(0, 512)], 4096, b"a" * 512)])
        out.append(pax_entry(recs, size=max(size, 0) if size is not None else None) + follow + END)
    # the F22 sequence and relatives, always present
    seqs = [[(b"GNU.sparse.offset", b"0"), (b"GNU.sparse.numbytes", b"1"), (b"GNU.sparse.map", b"0,1"), (b"GNU.sparse.numbytes", b"2")],
            [(b"GNU.sparse.map", b"0,1"), (b"GNU.sparse.numbytes", b"2"), (b"GNU.sparse.numbytes", b"3")],
            [(b"GNU.sparse.numbytes", b"1"), (b"GNU.sparse.map", b"x"), (b"GNU.sparse.numbytes", b"2")],
            [(b"GNU.sparse.numbytes", b"1"), (b"GNU.sparse.map", b"0,1"), (b"GNU.sparse.map", b"2,3"), (b"GNU.sparse.offset", b"7"), (b"GNU.sparse.numbytes", b"2")],
            [(b"GNU.sparse.offset", b"5"), (b"GNU.sparse.numbytes", b"1"), (b"path", b"p"), (b"GNU.sparse.offset", b"9"), (b"GNU.sparse.numbytes", b"2")]]
    for sq in seqs:
        out.append(pax_entry([pax_rec(k, v) for k, v in sq] + [pax_rec(b"GNU.sparse.size", b"100")]) + file_entry(b"f", b"abcd") + END)
    return out


def size_limit_cases():
    """K / L / x records of size 0, 1, limit-1, limit, limit+1 (content present or cut short)"""
    out = []
    for typ in (b"K", b"L", b"x"):
        for sz in (0, 1, 2, LIMIT - 1, LIMIT, LIMIT + 1):
            for short in (False, True):
                if typ == b"x":
                    if sz >= 30:
                        val = b"v" * (sz - len(str(sz)) - len(" path=\n"))
                        body = str(sz).encode() + b" path=" + val + b"\n"
                        if len(body) != sz:
                            body = body[:sz].ljust(sz, b"\n")
                    else:
                        body = b"5 a=\n"[:sz]
                else:
                    body = (b"n" * max(sz - 1, 0) + b"\0")[:sz]
                if short:
                    body = body[:len(body) // 2]
                out.append(Hdr(b"X", typ, sz, "gnu").bytes() + pad512(body) + file_entry(b"f", b"abc") + (b"" if short else END))
    # PAX records of exactly limit-1 / limit / limit+1 / 2*limit bytes made of several records (no long name involved)
    for sz in (LIMIT - 1, LIMIT, LIMIT + 1, LIMIT + 512, 2 * LIMIT):
        body = b""
        while sz - len(body) >= 8100:
            body += b"8000 comment=" + b"c" * (8000 - 14) + b"\n"
        rest = sz - len(body)                       # 100 .. 8099: one record of exactly `rest` bytes
        body += str(rest).encode() + b" uid=" + b"0" * (rest - len(str(rest)) - 6 - 4) + b"1234\n"
        assert len(body) == sz
        out.append(Hdr(b"X", b"x", sz, "ustar").bytes() + pad512(body) + file_entry(b"f", b"abc") + END)
    return out


def sparse10_mutants(rnd, n, full=False):
    out = []
    # numbers straddling the window edges: pad the count / first numbers with leading zeros
    for edge in (510, 511, 512, 513, 1022, 1023, 1024, 1025, 1536):
        for nd in (1, 2, 5):
            # map: "1\n" then offset with leading zeros so that its digits end at `edge`
            pre = b"1\n"
            z = edge - len(pre) - nd
            if z < 0:
                continue
            m = pre + b"0" * z + b"7" * nd + b"\n" + b"512\n"
            out.append(sparse10_entry(b"s", m, b"e" * 512, 4096) + END)
            m2 = pre + b"0" * z + b"7" * nd + b"x" + b"512\n"
            out.append(sparse10_entry(b"s", m2, b"e" * 512, 4096) + END)
    # maps that really hold limit + 1 (and, thorough tier: limit) entries (TAR_MAX_SPARSE_ENT); the extracted
    # model needs minutes for the accepted one (unary nat indices, 600 kB stream as a list)
    for k in ((LIMIT, LIMIT + 1) if full else (LIMIT + 1,)):
        ents = [(i * 2, 1) for i in range(k)]
        out.append(sparse10_entry(b"big", sparse10_map(ents), b"e" * k, 2 * k) + END)
    fm = [None, lambda v: b"0" * 500 + str(v).encode(), lambda v: b"0" * 509 + str(v).encode(), lambda v: b"0" * 30 + str(v).encode()]
    for _ in range(n):
        k = rnd.random()
        ents = [(rnd.choice([0, 512, 4096, 1 << 40, (1 << 64) - 1, 1 << 64, 10 ** 25]), rnd.choice([0, 1, 512, 1 << 62])) for _ in range(rnd.choice([1, 2, 3, 40, 130]))]
        cnt = rnd.choice([None, None, 0, 1, len(ents) + 1, len(ents) - 1 if len(ents) > 1 else 5, 65536, 65537, 10 ** 30])
        m = sparse10_map(ents, count=cnt, numfmt=rnd.choice(fm))
        if k < 0.15:
            m = m.replace(b"\n", b" ", 1)
        elif k < 0.3:
            p = rnd.randrange(len(m))
            m = m[:p] + bytes([rnd.choice(b"x\0 -\r")]) + m[p + 1:]
        elif k < 0.4:
            m = m[:rnd.randrange(len(m))]
        data = b"e" * 512
        size = None
        if rnd.random() < 0.2:
            size = rnd.choice([0, 511, 512, 513, 1024])
        out.append(sparse10_entry(b"s", m, data, rnd.choice([4096, 1 << 20]), size=size) + (END if rnd.random() < 0.8 else b""))
    return out


def oldsparse_mutants(rnd, n):
    out = []
    for _ in range(n):
        ne = rnd.choice([0, 1, 3, 4])
        ents = []
        for _ in range(ne):
            if rnd.random() < 0.3:
                ents.append(((rnd.choice(NUM_VALUES) + b"\0" * 12)[:12], (rnd.choice(NUM_VALUES) + b"\0" * 12)[:12]))
            else:
                ents.append((rnd.choice([0, 512, 1 << 30, (1 << 33) - 1]), rnd.choice([0, 512, 1 << 20])))
        ext = []
        for _ in range(rnd.choice([0, 0, 1, 2, 3])):
            ext.append([(rnd.choice([0, 512, 4096]), rnd.choice([0, 512])) for _ in range(rnd.choice([0, 1, 20, 21]))])
        isext = rnd.choice([None, None, b"\1", b"\0", b"\xff"])
        e = old_sparse_entry(b"sp", ents, rnd.choice([0, 4096, 1 << 33, b"\x80" + b"\0" * 11, b"9" * 12]), b"a" * 512, ext=ext, isext=isext)
        if rnd.random() < 0.25:
            e = e[:rnd.choice([512, 600, 1024, len(e) - 512 if len(e) > 512 else 512])]
            out.append(e)
        else:
            out.append(e + file_entry(b"after", b"1") + END)
    return out


def oldsparse_chain_cuts():
    """old-GNU sparse entries whose map is FULL (4 valid pairs in the header, 21 valid pairs in every extension record,
    so that the reader does follow `isextended`) with chains of 0..3 extension records that ALL claim `isextended`
    (also the last one present), cut at every 512-byte boundary from the end of the main header on and inside every
    record: the reader must meet end-of-file where the flag promised one more record -- a short read of 0 bytes exactly
    on a record boundary, and of 1 / 256 / 504 / 505 / 511 bytes inside one -- and give up.  Also the same chains with
    a proper last record (isextended = 0) and the flag bytes 0xff / 0x80.  list of (tag, bytes)"""
    out = []
    for k in range(4):
        for flag in (b"\1", b"\xff", b"\x80"):
            for last_claims in (True, False):
                if not last_claims and flag != b"\1":
                    continue
                ext = [[((4 + 21 * j + i) * 1024, 512 if i == 0 else 0) for i in range(21)] for j in range(k)]
                data = b"a" * 512 * (4 + k)
                e = old_sparse_entry(b"sp", [(i * 1024, 512) for i in range(4)], (5 + 21 * k) * 1024, data,
                                     ext=ext, isext=flag if (k > 0 or last_claims) else b"\0")
                e = bytearray(e)
                for j in range(k):
                    if j + 1 < k or last_claims:
                        e[512 * (j + 1) + 504] = flag[0]
                e = bytes(e) + file_entry(b"after", b"1") + END
                tag = "osc%d%s%s:" % (k, flag.hex(), "" if last_claims else "p")
                out.append((tag + "whole", e))
                hdr_end = 512 * (k + 1)
                cuts = set()
                for b in range(512, len(e) + 1, 512):
                    cuts.add(b)
                    if b <= hdr_end + 512 and flag == b"\1":
                        cuts.update(b + d for d in (1, 256, 504, 505, 511))
                for c in sorted(cuts):
                    if c < len(e):
                        out.append((tag + "cut%d" % c, e[:c]))
    return out


def truncations(data, step=1, limit=None):
    lim = len(data) if limit is None else min(limit, len(data))
    return [data[:i] for i in range(0, lim + 1, step)]


def bitflips(rnd, data, n, fix=True):
    out = []
    for _ in range(n):
        b = bytearray(data)
        for _ in range(rnd.choice([1, 1, 2, 4])):
            p = rnd.randrange(len(b))
            b[p] = rnd.choice([b[p] ^ (1 << rnd.randrange(8)), 0, 0xff, 0x20, 0x30, 0x39, 0x0a])
        if fix:
            # repair the checksums so the mutation is looked at
            for i in range(0, len(b) - 511, 512):
                if b[i + 257:i + 262] == b"ustar":
                    b[i + 148:i + 156] = b" " * 8
                    b[i + 148:i + 156] = ("%06o" % sum(b[i:i + 512])).encode() + b"\0 "
        out.append(bytes(b))
    return out


def ext_record_sequences(rnd, q):
    """every order of up to three extension records (GNU long name / long link, PAX records that do or do not carry
    path / linkpath / numeric fields, a global PAX header) in front of one header, followed by a plain entry:
    what one record sets out-of-band must survive, or be dropped by, the next one exactly as read_header's
    accumulation says (stale set_by_pax bits, a PAX record wiping a long name, state leaking into the next entry)."""
    import itertools
    kinds = {
        "L": lambda: long_entry(b"L", b"long/" + b"n" * 120),
        "K": lambda: long_entry(b"K", b"target/" + b"t" * 130),
        "xp": lambda: pax_entry([pax_rec(b"path", b"pax/" + b"p" * 110)]),
        "xl": lambda: pax_entry([pax_rec(b"linkpath", b"paxlink/" + b"l" * 105)]),
        "xm": lambda: pax_entry([pax_rec(b"mtime", b"1234567890.5")]),
        "xu": lambda: pax_entry([pax_rec(b"uid", b"70000"), pax_rec(b"gid", b"70001")]),
        "xs": lambda: pax_entry([pax_rec(b"size", b"3")]),
        "xx": lambda: pax_entry([pax_rec(b"SCHILY.xattr.user.a", b"v")]),
        "g": lambda: pax_entry([pax_rec(b"mtime", b"7")], name=b"glob", typ=b"g"),
    }
    names = sorted(kinds)
    seqs = [c for n in (1, 2) for c in itertools.product(names, repeat=n)]
    tri = list(itertools.product(names, repeat=3))
    seqs += tri if not q else rnd.sample(tri, 160)
    out = []
    for sq in seqs:
        pre = b"".join(kinds[k]() for k in sq)
        for tail in (file_entry(b"short", b"abc"), Hdr(b"sl", b"2", 0, link=b"tgt").bytes()):
            out.append(("extseq:" + "+".join(sq), pre + tail + file_entry(b"next", b"xy") + END))
    return out


def tar_cases(rnd, tier):
    """list of (tag, bytes)"""
    q = tier == "quick"
    cases = []
    bases = base_archives()
    for tag, d in bases:
        cases.append(("base:" + tag, d))
    cases += ext_record_sequences(rnd, q)
    for tag, d in bases:
        for m in mutate_headers(rnd, tag, d, 60 if q else 600):
            cases.append(("hdr:" + tag, m))
        for m in bitflips(rnd, d, 25 if q else 400):
            cases.append(("flip:" + tag, m))
    for m in pax_mutants(rnd, 900 if q else 20000):
        cases.append(("pax", m))
    for m in size_limit_cases():
        cases.append(("limit", m))
    for m in sparse10_mutants(rnd, 250 if q else 5000, full=not q):
        cases.append(("sparse10", m))
    for m in oldsparse_mutants(rnd, 200 if q else 4000):
        cases.append(("oldsparse", m))
    cases += oldsparse_chain_cuts()
    # truncation at every offset of small archives
    small = [b for b in bases if len(b[1]) <= 4096]
    pick = small if not q else [small[(rnd.randrange(len(small)) + i) % len(small)] for i in range(2)]
    for tag, d in pick:
        for t in truncations(d, 1, None if not q else 1600):
            cases.append(("trunc:" + tag, t))
    if not q:
        for tag, d in bases:
            for t in truncations(d, 7):
                cases.append(("trunc7:" + tag, t))
    return cases


# ----------------------------------------------------------------------------- hard-link graphs

def hx(s):
    return s.hex() if s else "-"


def hl_line(ents):
    return ";".join("%s:%s:%s" % (k, hx(n), hx(t)) for k, n, t in ents)


def hl_cases(rnd, tier):
    """every assignment of targets to k <= 4 link nodes over {other links, self, file f, dir d, d/g, dangling x,
    through-a-file f/x, root}; every order of insertion for k <= 3 (LIFO resolution order), seeded orders for k = 4."""
    q = tier == "quick"
    links = [b"a", b"b", b"c", b"e"]
    fixed = [("f", b"f", b""), ("d", b"d", b""), ("f", b"d/g", b"")]
    cases = []
    for k in range(1, 5):
        names = links[:k]
        tg = names + [b"f", b"d", b"d/g", b"x", b"f/x"]
        if k <= 2:
            tg = tg + [b"", b"./f", b"d//g", b"../f", b"d/../f"]
        for choice in itertools.product(tg, repeat=k):
            ents = [("l", n, t) for n, t in zip(names, choice)]
            if k <= 3:
                perms = list(itertools.permutations(ents))
            else:
                perms = [tuple(ents), tuple(reversed(ents))]
                if not q:
                    perms = list(itertools.permutations(ents))
                else:
                    e2 = list(ents)
                    rnd.shuffle(e2)
                    perms.append(tuple(e2))
            for p in perms:
                if rnd.random() < 0.5:
                    cases.append(fixed + list(p))
                else:
                    cases.append(list(p) + fixed)
    # links inside directories, names that sort around each other, duplicate and conflicting entries
    extra = [
        [("d", b"d", b""), ("l", b"d/l", b"d/m"), ("l", b"d/m", b"d/l"), ("l", b"z", b"d/l")],
        [("l", b"d/l", b"f"), ("f", b"f", b""), ("l", b"k", b"d/l")],
        [("f", b"f", b""), ("l", b"a", b"f"), ("l", b"a", b"f")],
        [("l", b"a", b"f"), ("f", b"a/b", b"")],
        [("l", b"a", b"b/c"), ("l", b"b", b"d"), ("d", b"d", b""), ("f", b"d/c", b"")],
        [("s", b"s", b"f"), ("f", b"f", b""), ("l", b"a", b"s"), ("l", b"b", b"a")],
        [("f", b"", b"")], [("d", b"", b"")], [("d", b"", b""), ("d", b"", b"")], [("l", b"", b"f")],
        [("f", b"a/b/c", b""), ("d", b"a", b""), ("d", b"a/b", b""), ("d", b"a", b"")],
        [("f", b"ab", b""), ("f", b"a", b""), ("f", b"abc", b""), ("f", b"a\xff", b""), ("f", b"B", b""), ("l", b"aa", b"a\xff")],
    ]
    cases += extra
    # long chains: k links, each to the next, resolved from either end
    for n in (5, 9, 17, 40):
        ch = [("l", b"l%03d" % i, b"l%03d" % (i + 1)) for i in range(n)]
        cases.append([("f", b"l%03d" % n, b"")] + ch)
        cases.append([("f", b"l%03d" % n, b"")] + list(reversed(ch)))
        cases.append(ch + [("l", b"l%03d" % n, b"l%03d" % (n // 2))])           # rho-shaped: tail into a cycle
        cases.append(list(reversed(ch)) + [("l", b"l%03d" % n, b"l%03d" % (n // 2))])
    return cases


# ----------------------------------------------------------------------------- text inputs

PACK_BASE = b"""# comment
dir /dev 0755 0 0
nod /dev/console 0600 0 0 c 5 1
nod /dev/blk 0600 0 0 b 8 0
slink /lnk 0777 0 0 /dev/console
link /hl 0777 0 0 /file
pipe /fifo 0644 1 2
sock /sock 0644 3 4
file /file 0644 5 6 input.txt
file "/name with space" 0644 0 0 input.txt
file "/q\\"uote\\\\" 0644 0 0 input.txt
file /sub/dir/f 0600 1000 1000 sub/in2
dir "/sub/dir" 0700 0 0
glob /g 0755 0 0 -type f -name "*.txt" .
glob /h * * * -nonrecursive -- sub
"""

PACK_LINES = [b"dir / 0755 0 0", b"dir /a/../b 0755 0 0", b"dir a 0755 0", b"dir a 7777 0 0", b"dir a 10000 0 0", b"dir a 0755 4294967295 4294967295",
              b"dir a 0755 4294967296 0", b"dir a 0755 -1 0", b"dir a 08 0 0", b"file f 0644 0 0", b"file f 0644 0 0 nonexistent", b"file f 0644 0 0 a b",
              b"nod n 0600 0 0", b"nod n 0600 0 0 c", b"nod n 0600 0 0 c 1", b"nod n 0600 0 0 x 1 2", b"nod n 0600 0 0 c 4294967296 2", b"nod n 0600 0 0 c 1 2 3",
              b"slink s 0777 0 0", b"slink s 0777 0 0 a b", b"link l 0777 0 0", b"link l 0777 0 0 l", b"link / 0777 0 0 x", b"foo a 0755 0 0", b"dir",
              b"dir \"a", b"dir \"a\\x\" 0755 0 0", b"dir \"a\\", b"dir \"\" 0755 0 0", b"dir \"a\"b 0755 0 0", b"dir a\"b 0755 0 0", b"\"dir\" a 0755 0 0",
              b"dir\ta\t0755\t0\t0", b"   dir a 0755 0 0   ", b"dir a 0755 0 0\r", b"dir a\0b 0755 0 0", b"dir " + b"x" * 60000 + b" 0755 0 0",
              b"dir " + b"a/" * 3000 + b"b 0755 0 0", b"glob / 0755 0 0 -type", b"glob / 0755 0 0 -type q .", b"glob / 0755 0 0 -name", b"glob / 0755 0 0 -path",
              b"glob / 0755 0 0 -bogus", b"glob / 0755 0 0 -- -- .", b"glob /file 0755 0 0 .", b"glob / * 0 0 -type d -type f -xdev -mount -keeptime -nohardlinks .",
              b"glob / 0755 0 0 nonexistent", b"glob /x/y * * * sub", b"file /dev 0644 0 0 input.txt", b"dir /file/x 0755 0 0", b"#", b"", b"  # indented comment",
              b"pipe p 0644 0 0 extra", b"sock s 0644 0 0 extra", b"dir d 0755 0 0 extra", b"dir a 0755 99999999999999999999999 0", b"dir a 0755 0 0 " + b"x " * 2000]

SORT_BASE = b"""# comment
-100 [dont_compress] file
5 "name with space"
10 [glob] sub/*
20 [glob_no_path,dont_fragment, dont_deduplicate ,nosparse] *in2
0 sub/dir/f
"""
SORT_LINES = [b"5", b"5 ", b"x file", b"- file", b"-5 file", b"5file", b"9223372036854775807 file", b"9223372036854775806 file", b"-9223372036854775806 file",
              b"99999999999999999999 file", b"5 [", b"5 [glob", b"5 [glob] ", b"5 [glob]file", b"5 [] file", b"5 [,] file", b"5 [bogus] file", b"5 [glob,,glob] file",
              b"5 [\"glob\"] file", b"5 [\"glob] file", b"5 [gl\\ob] file", b"5 [ glob ] file", b"5 \"file", b"5 \"file\"", b"5 \"file\"x", b"5 \"fi\\le\"", b"5 \"fi\\\"le\"",
              b"5 \"fi\\\\le\"", b"5 \"\"", b"5 \"\\", b"5 ../file", b"5 /file", b"5 ./file//", b"5 \"b c\"", b"5 \"a\" \"b\"", b"5 file\r", b"5\tfile", b"5 \0file",
              b"5 [glob] " + b"*" * 5000, b"5 " + b"x" * 70000, b"5 [" + b"glob," * 3000 + b"glob] file", b"5 [glob]\tfile", b"5 []", b"5 []x", b"+5 file", b" 5 file ",
              b"5 [glob] [glob] file", b"5 ]", b"5 [[]] file", b"\xff\xfe file", b"5 \xff\xfe"]

XATTR_BASE = b"""# file: file
user.text="hello world"
user.hex=0x68656c6c6f
user.b64=0saGVsbG8=
user.esc="a\\101\\\\\\"b"
user.empty=

# file: /sub/dir/f
security.x=0Sd29ybGQ=
trusted.y=0XDEADbeef
user.plain=novalue quotes
"""
XATTR_LINES = [b"# file: ../x", b"# file: a/../../b", b"# file: ", b"# file:", b"#file: x", b"# file: \"q\"", b"user.a=b", b"=", b"=x", b"user.a", b"user.a=0x", b"user.a=0x1",
               b"user.a=0xzz", b"user.a=0x123", b"user.a=0s", b"user.a=0sQ", b"user.a=0sQQ", b"user.a=0sQQ=", b"user.a=0sQQ==", b"user.a=0sQUJDRA", b"user.a=0sQUJDRA==",
               b"user.a=0s!!!!", b"user.a=0", b"user.a=\"", b"user.a=\"\"", b"user.a=\"\\", b"user.a=\"\\\"", b"user.a=\\", b"user.a=\\7", b"user.a=\\777", b"user.a=\\1234",
               b"user.a=\"\\1\"", b"user.a=\"\\12\"", b"user.a=a\\", b"user.a=\"a\\\"", b"bogus.a=b", b"user.=b", b"user=b", b"user.a=b=c", b"# comment = with equals",
               b"user.a=" + b"x" * 70000, b"user.a=0x" + b"ab" * 40000, b"user.a=0s" + b"QUJD" * 20000, b"user.a=\0b", b"user.a=b\r", b"   user.a=b   ", b"\xff\xfe=\xff",
               b"user.a=\"unterminated", b"user.a=un\"balanced", b"user.\xff=v", b"user.\x80\xfe\xc3\xa4=0x00", b"trusted.\xe2\x82\xac=\xff"]


# ----- quoting case splits.  Every unquoting loop of the three parsers (split_line for pack files, decode_filename
# for sort files, decode for xattr values / the "# file:" line) looks at one character and branches on: end of
# string / quote / backslash followed by {backslash, quote, octal digit, other, end of string} / anything else.
# QUOTE_TAILS are the ends of a quoted token that fall into each of these cases, with and without blanks behind
# (lines are right-trimmed before they are parsed, so `"x\" ` reaches the parser as `"x\"`).
QUOTE_TAILS = [b"\"", b"\"x", b"\"x\\", b"\"x\\\"", b"\"\\\"", b"\"x\\\\", b"\"x\\\\\"", b"\"x\\\\\\\"", b"\"x\"", b"\"x\" ", b"\"x\\\" ", b"\" ",
               b"\"x\\\"y\\\"", b"\"\\\"\\\"\\\"", b"\"x\"y", b"\"\"", b"\"\"\"", b"\"x\\1\\\"", b"\"" + b"n" * 300 + b"\\\"", b"\"" + b"n" * 5000 + b"\\\""]

PACK_QUOTE_LINES = [pre + t + post for t in QUOTE_TAILS
                    for pre, post in ((b"dir ", b" 0755 0 0"), (b"file f 0644 0 0 ", b""), (b"dir ", b""), (b"slink s 0777 0 0 ", b""),
                                      (b"glob / 0755 0 0 -name ", b" ."), (b"", b""))]
SORT_QUOTE_LINES = [pre + t for t in QUOTE_TAILS for pre in (b"10 ", b"5 [glob] ", b"5 [\"glob\"] ", b"")]
XATTR_QUOTE_LINES = [pre + t for t in QUOTE_TAILS for pre in (b"user.q=", b"# file: ")]


def quote_files(base, lines, prefixes):
    """whole files for the tool oracle: the valid file followed by one quoting line (those with the given prefixes)"""
    return [base + l + b"\n" for l in lines if any(l.startswith(p) and p for p in prefixes)]


def quote_enum(maxlen, alphabet=(b"\"", b"\\", b"a", b" ")):
    """every string of at most maxlen symbols over the alphabet of the unquoting automaton"""
    out = [b""]
    layer = [b""]
    for _ in range(maxlen):
        layer = [x + c for x in layer for c in alphabet]
        out += layer
    return out


def quote_mutants(line, limit=400):
    """the line and its one-step edits at the case splits of the unquoting loops: at every quote, every backslash and
    at the end of the line (and of every blank-separated token) a quote / backslash / escaped quote / escaped backslash
    is inserted, removed or doubled, the line is cut there, and the QUOTE_TAILS are appended.  Used to search around a
    line on which model and implementation disagree."""
    line = bytes(line)
    out = [line]
    seen = {line}

    def add(x):
        if x not in seen and len(x) < (1 << 20):
            seen.add(x)
            out.append(x)
    spots = sorted({i for i, c in enumerate(line) if c in b"\"\\"} | {i + 1 for i, c in enumerate(line) if c in b"\"\\"} |
                   {i for i, c in enumerate(line) if c in b" \t"} | {len(line)})
    ins = [b"\"", b"\\", b"\\\"", b"\\\\", b"x\\\"", b"\"\""]
    for t in QUOTE_TAILS[:-2]:
        add(line + t)
        add(line.rstrip(b"\"") + t)
        add(line + b" " + t)
    for sp in spots[:24] + spots[-8:]:
        for x in ins:
            add(line[:sp] + x + line[sp:])
        add(line[:sp])                       # cut here
        if sp < len(line):
            add(line[:sp] + line[sp + 1:])   # drop the character
            add(line[:sp] + b"\\" + line[sp:sp + 1])   # escape it and cut behind it
            add(line[:sp] + line[sp:sp + 1] * 2 + line[sp + 1:])
    # the quoted token grown, so that an over-read has to cross the end of a larger block as well
    for t in (b"\"" + b"g" * 40 + b"\\\"", b"\"" + b"g" * 3000 + b"\\\""):
        add(line.rstrip(b"\"") + t)
    # the parsers strip what precedes the token in place (memmove towards the start of the line buffer): the bytes left
    # behind the new NUL are the old tail of the line, so what a walk past the NUL meets depends on how far the token
    # was moved.  Every edit that ends in a quote or a backslash is repeated with the token 1..9 bytes further right.
    base = [x for x in out if x[-1:] in (b"\"", b"\\")][:40]
    first = []
    for x in base:
        sp = x.find(b" ")
        for k in (1, 2, 5, 0):
            if k:
                y = (x[:sp] + b" " * k + x[sp:]) if sp > 0 else (b"x" * k + b" " + x)
            else:
                y = (b"11" + x) if x[:1].isdigit() else (b"k.k=" + x)
            if y not in seen:
                seen.add(y)
                first.append(y)
    return ([line] + first[:limit // 2] + out[1:])[:limit]


def text_mutants(rnd, base, lines, n):
    """one-line edits of a valid file + each special line on its own / appended"""
    out = [base]
    bl = base.split(b"\n")
    for l in lines:
        out.append(l + b"\n")
        out.append(base + l + b"\n")
        out.append(base + l)            # no trailing newline
        out.append(l + b"\n" + base)
    for _ in range(n):
        b = list(bl)
        k = rnd.random()
        i = rnd.randrange(len(b))
        if k < 0.3:
            l = bytearray(b[i])
            if l:
                p = rnd.randrange(len(l))
                l[p] = rnd.choice(list(b"\"\\ \t\0#[],=0x-\xff\r"))
            b[i] = bytes(l)
        elif k < 0.5:
            l = b[i]
            p = rnd.randrange(len(l) + 1)
            b[i] = l[:p] + rnd.choice([b"\"", b"\\", b"\\\\", b"\\\"", b" ", b"\0", b"99999999999999999999", b"\r", b"[", b"]", b"=", b"#"]) + l[p:]
        elif k < 0.6:
            b[i] = b[i][:rnd.randrange(len(b[i]) + 1)]
        elif k < 0.7:
            b.insert(i, rnd.choice(lines))
        elif k < 0.8:
            b = [x + b"\r" for x in b]
        elif k < 0.9:
            del b[i]
        else:
            b[i] = b[i] + b" " + b[rnd.randrange(len(b))]
        out.append(b"\n".join(b))
    return out


# ----- whole xattr map files for the model-vs-code tie of xattr_open_map_file (session 3): the case splits of the
# line loop (istream_get_line: LF / CR LF / lone CR / no final newline / empty and blank lines in front of, between and
# behind the payload lines / NUL inside a line / a line that straddles the 128 KiB window of the stream), of
# parse_file_name (accepted, canonicalised, refused after earlier patterns with entries) and of parse_xattr (no pattern
# yet, the three value syntaxes, refused values after earlier entries).
XF_FILE_GOOD = [b"# file: file", b"# file: /sub/dir/f", b"# file: a//b/./c/", b"# file: ", b"# file: .", b"# file: /", b"# file: x y",
                b"# file: \"q\"", b"# file: a\\b", b"# file: file", b"# file: \xc3\xa4", b"# file:  lead", b"# file: ..a/b.."]
XF_FILE_BAD = [b"# file: ..", b"# file: ../x", b"# file: a/../b", b"# file: /..", b"# file: a/b/..", b"# file: ./../x"]
XF_ATTR_GOOD = [b"user.a=b", b"user.t=\"hello world\"", b"user.h=0x68656c6c6f", b"user.H=0XDEADbeef", b"user.b=0saGVsbG8=", b"user.B=0SaGVsbG8h",
                b"user.e=", b"user.o=\"\\101\\0\\12\\\\\\\"x\"", b"user.q=\"a\\\"b\"", b"trusted.x=0x", b"security.y=0s", b"user.eq=a=b=c", b"user.n=\\8\\9\\x",
                b"user.odd=0x123", b"user.one=0x1", b"user.p=0sQQ", b"user.p2=0sQUI", b"user.p3=0sQUJD", b"user.u=0sQQ__", b"k=v", b"user.sp=a b  c",
                b"user.lq=\"", b"user.q1=\"x", b"user.bs=\\", b"user.z=0x00ff", b"user.s=0s-_+/"]
XF_ATTR_BAD = [b"user.a=0xzz", b"user.a=0x1g", b"user.a=0sQ", b"user.a=0s!!!!", b"user.a=0sQQ=x", b"user.a=0sQ=Q=", b"user.a=0sQQQQQ", b"user.a=0sQUJD=",
               b"user.a=0x12 34"]
XF_OTHER = [b"# comment", b"#", b"#file: x", b"# file:", b"", b" ", b"\t \t", b"# a=b", b"#=", b"novalue", b"\"", b"\\", b"\0", b"\0=x", b"user.a\0=x", b"\r", b"x\ry=z"]
XF_EOL = [b"\n", b"\n", b"\n", b"\r\n", b"\r\r\n", b"\n\n", b" \n", b"\t\r\n", b"\n \n"]


def xattr_struct_files(rnd, n):
    out = []
    # one of each line kind behind a pattern, each line ending, with and without the final newline
    for l in XF_FILE_GOOD + XF_FILE_BAD + XF_ATTR_GOOD + XF_ATTR_BAD + XF_OTHER:
        out.append(b"# file: first\nuser.keep=0x01\n" + l + b"\n")
        out.append(l)
    for e in XF_EOL:
        out.append(b"# file: f" + e + b"user.a=b" + e + b"user.c=\"d\"" + e)
        out.append(b"# file: f" + e + b"user.a=b" + e + b"user.c=\"d\"")
        out.append(e + e + b"# file: f" + e + e + b"user.a=b" + e + b"# file: ../x" + e)
    for _ in range(n):
        k = rnd.randrange(1, 9)
        lines = []
        for i in range(k):
            r = rnd.random()
            if r < 0.25:
                pool = XF_FILE_GOOD
            elif r < 0.30:
                pool = XF_FILE_BAD
            elif r < 0.75:
                pool = XF_ATTR_GOOD
            elif r < 0.80:
                pool = XF_ATTR_BAD
            else:
                pool = XF_OTHER
            l = rnd.choice(pool)
            if i == 0 and rnd.random() < 0.8:
                l = rnd.choice(XF_FILE_GOOD)
            if rnd.random() < 0.15:
                l = rnd.choice([b" ", b"\t", b"  "]) + l + rnd.choice([b" ", b"\t", b""])
            lines.append(l + rnd.choice(XF_EOL))
        data = b"".join(lines)
        if rnd.random() < 0.3:
            data = data.rstrip(b"\n")
        out.append(data)
    return out


def xattr_big_files():
    """files larger than the 131072-byte window of the file stream: a line straddles the window edge / the '\\n' is the
    last byte of the first window / the '\\r' of a CR LF is the last byte of the first window and the '\\n' the first of
    the second.  Values are hex (the model's escape loop is quadratic in the line length, its hex decoder is not)"""
    out = []
    win = 131072
    for tweak in (0, 1, 2):
        eol = b"\r\n" if tweak == 2 else b"\n"
        body = b"# file: big" + eol
        i = 0
        while len(body) < win + 3000:
            key = b"user.k%03d=0x" % i
            line = key + b"ab" * 900
            end = len(body) + len(line) + len(eol)
            if tweak and len(body) < win - 3700 <= end:
                # the next line is stretched so that its last payload byte sits at win - 2: '\n' (tweak 1) / '\r' (tweak 2)
                # lands on win - 1
                pad = win - 1 - (len(body) + len(key))
                if pad % 2:
                    body += (b"##" if len(eol) % 2 else b"#") + eol
                    continue
                line = key + b"cd" * (pad // 2)
            body += line + eol
            i += 1
        out.append(body)
    return out
