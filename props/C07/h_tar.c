/* C07 harness (2): the tar reader and the small decoders of the working tree.
 * argv[1] = mode; stdin: one case per line; stdout: one canonical line per case.
 *
 * tar   <hex archive>                       read_header loop as in lib/tar/test/tar_fuzz.c / it_next
 *         -> "H name=.. link=.. rec=.. act=.. unk=.. hard=.. mode=.. uid=.. gid=.. mtime=.. sparse=.. xattr=.. | ... | EOF" or "... | ERR"
 * num   <hex field>                         read_number(field, len)          -> "OK <v>" | "ERR"
 * pint  <u|o|i> <len|-1> <whole 0|1> <vmin> <vmax> <hex string>              -> "OK <v> <diff>" | "ERR <code>"
 * b64   <cap> <hex input>                   base64_decode into a cap-byte buffer -> "OK <hex>" | "ERR"
 * b64i  <hex input>                         base64_decode in place (out == in)   -> "OK <hex>" | "ERR"
 * hex   <outsz> <hex input>                 hex_decode                        -> "OK <hex>" | "ERR <hex>"
 * Every input is copied into an exactly sized heap block so that ASan sees any over-read.
 */
#include "config.h"
#include "tar/tar.h"
#include "tar/format.h"
#include "sqfs/io.h"
#include "sqfs/xattr.h"
#include "sqfs/error.h"
#include "util/util.h"
#include "util/parse.h"
#include <stdio.h>
#include <string.h>
#include <stdlib.h>
#include <inttypes.h>

static int hv(int c) { return c <= '9' ? c - '0' : c - 'a' + 10; }

static unsigned char *unhex(const char *s, size_t *len)
{
	size_t n = strlen(s), i;
	unsigned char *out;
	if (n == 1 && s[0] == '-')
		n = 0;
	out = malloc(n / 2 ? n / 2 : 1);
	for (i = 0; i + 1 < n; i += 2)
		out[i / 2] = (unsigned char)(hv(s[i]) * 16 + hv(s[i + 1]));
	*len = n / 2;
	return out;
}

static void puthexn(const unsigned char *s, size_t n)
{
	size_t i;
	if (n == 0)
		fputs("-", stdout);
	for (i = 0; i < n; ++i)
		printf("%02x", s[i]);
}

/* ---------------- exact-size memory stream ---------------- */
typedef struct {
	sqfs_istream_t base;
	unsigned char *data;
	size_t size, pos;
} mem_t;

static int mem_get(sqfs_istream_t *s, const sqfs_u8 **out, size_t *size, size_t want)
{
	mem_t *m = (mem_t *)s;
	(void)want;
	if (m->pos >= m->size)
		return 1;
	*out = m->data + m->pos;
	*size = m->size - m->pos;
	return 0;
}
static void mem_adv(sqfs_istream_t *s, size_t count) { ((mem_t *)s)->pos += count; }
static const char *mem_name(sqfs_istream_t *s) { (void)s; return "mem"; }
static void mem_destroy(sqfs_object_t *o) { free(((mem_t *)o)->data); free(o); }

static sqfs_istream_t *mem_open(unsigned char *data, size_t size)
{
	mem_t *m = calloc(1, sizeof(*m));
	sqfs_object_init(m, mem_destroy, NULL);
	m->base.get_buffered_data = mem_get;
	m->base.advance_buffer = mem_adv;
	m->base.get_filename = mem_name;
	m->data = data;
	m->size = size;
	return (sqfs_istream_t *)m;
}

/* ---------------- tar ---------------- */
static void do_tar(const char *line)
{
	size_t len;
	unsigned char *data = unhex(line, &len);
	sqfs_istream_t *fp = mem_open(data, len);
	tar_header_decoded_t hdr;
	int ret;

	for (;;) {
		sparse_map_t *sp;
		sqfs_xattr_t *x;
		sqfs_u64 pad;

		ret = read_header(fp, &hdr);
		if (ret > 0) {
			puts("EOF");
			break;
		}
		if (ret < 0) {
			puts("ERR");
			break;
		}
		fputs("H name=", stdout);
		if (hdr.name) puthexn((unsigned char *)hdr.name, strlen(hdr.name)); else fputs("NULL", stdout);
		fputs(" link=", stdout);
		if (hdr.link_target) puthexn((unsigned char *)hdr.link_target, strlen(hdr.link_target)); else fputs("NULL", stdout);
		printf(" rec=%" PRIu64 " act=%" PRIu64 " unk=%d hard=%d mode=%u uid=%" PRIu64 " gid=%" PRIu64 " mtime=%" PRId64 " sparse=",
		       (uint64_t)hdr.record_size, (uint64_t)hdr.actual_size, hdr.unknown_record ? 1 : 0,
		       hdr.is_hard_link ? 1 : 0, (unsigned)hdr.mode, (uint64_t)hdr.uid, (uint64_t)hdr.gid, (int64_t)hdr.mtime);
		if (hdr.sparse == NULL) fputs("-", stdout);
		for (sp = hdr.sparse; sp != NULL; sp = sp->next)
			printf("%" PRIu64 ":%" PRIu64 ";", (uint64_t)sp->offset, (uint64_t)sp->count);
		fputs(" xattr=", stdout);
		if (hdr.xattr == NULL) fputs("-", stdout);
		for (x = hdr.xattr; x != NULL; x = x->next) {
			puthexn((const unsigned char *)x->key, strlen(x->key));
			fputs(":", stdout);
			puthexn(x->value, x->value_len);
			fputs(";", stdout);
		}
		fputs(" | ", stdout);

		ret = sqfs_istream_skip(fp, hdr.record_size);
		pad = hdr.record_size % 512;
		if (ret == 0 && pad > 0)
			ret = sqfs_istream_skip(fp, 512 - pad);
		clear_header(&hdr);
		if (ret < 0) {
			puts("ERR");
			break;
		}
	}
	sqfs_drop(fp);
}

/* ---------------- small decoders ---------------- */
static void do_num(const char *line)
{
	size_t len;
	unsigned char *f = unhex(line, &len);
	sqfs_u64 v;
	if (read_number((const char *)f, (int)len, &v))
		puts("ERR");
	else
		printf("OK %" PRIu64 "\n", (uint64_t)v);
	free(f);
}

static void do_pint(char *line)
{
	char kind;
	long long slen;
	int whole;
	unsigned long long vmin, vmax;
	char hexs[1 << 16];
	size_t len, diff = 0, n;
	unsigned char *raw, *s;
	int ret;

	if (sscanf(line, "%c %lld %d %llu %llu %65535s", &kind, &slen, &whole, &vmin, &vmax, hexs) != 6) {
		puts("BAD");
		return;
	}
	raw = unhex(hexs, &len);
	/* NUL-terminated, exactly sized */
	s = malloc(len + 1);
	memcpy(s, raw, len);
	s[len] = 0;
	free(raw);
	n = slen < 0 ? (size_t)-1 : (size_t)slen;
	if (kind == 'i') {
		sqfs_s64 v;
		ret = parse_int((char *)s, n, whole ? NULL : &diff, (sqfs_s64)vmin, (sqfs_s64)vmax, &v);
		if (ret) printf("ERR %d\n", ret); else printf("OK %" PRId64 " %zu\n", (int64_t)v, whole ? 0 : diff);
	} else {
		sqfs_u64 v;
		if (kind == 'o')
			ret = parse_uint_oct((char *)s, n, whole ? NULL : &diff, vmin, vmax, &v);
		else
			ret = parse_uint((char *)s, n, whole ? NULL : &diff, vmin, vmax, &v);
		if (ret) printf("ERR %d\n", ret); else printf("OK %" PRIu64 " %zu\n", (uint64_t)v, whole ? 0 : diff);
	}
	free(s);
}

static void do_b64(char *line, int inplace)
{
	size_t cap = 0, len, outlen;
	unsigned char *in, *out;
	char *hexs = line;

	if (!inplace) {
		cap = strtoul(line, &hexs, 10);
		while (*hexs == ' ') ++hexs;
	}
	in = unhex(hexs, &len);
	if (inplace) {
		out = in;
		cap = len;
	} else {
		out = malloc(cap ? cap : 1);
	}
	outlen = cap;
	if (base64_decode((const char *)in, len, out, &outlen)) {
		puts("ERR");
	} else {
		fputs("OK ", stdout);
		puthexn(out, outlen);
		fputs("\n", stdout);
	}
	if (!inplace)
		free(out);
	free(in);
}

static void do_hex(char *line)
{
	char *hexs;
	size_t outsz = strtoul(line, &hexs, 10), len;
	unsigned char *in, *out;
	int ret;

	while (*hexs == ' ') ++hexs;
	in = unhex(hexs, &len);
	out = calloc(1, outsz ? outsz : 1);
	ret = hex_decode((const char *)in, len, out, outsz);
	fputs(ret ? "ERR " : "OK ", stdout);
	puthexn(out, outsz);
	fputs("\n", stdout);
	free(out);
	free(in);
}

/* Per-case limit on the CPU time of this process (not wall time: a loaded machine must not turn a slow case into a
 * hang): a reader that spins on one input prints TIMEOUT in place of the case's line and the harness exits 3, which
 * check.py:run_batch records as a `timeout` incident for that case and restarts behind it. */
#include <signal.h>
#include <sys/time.h>
#include <unistd.h>
#define CASE_CPU_SECONDS 20

static void on_cpu_limit(int sig)
{
	(void)sig;
	if (write(1, "TIMEOUT\n", 8) < 0) {}
	_exit(3);
}

static void case_timer(int secs)
{
	struct itimerval it;
	memset(&it, 0, sizeof(it));
	it.it_value.tv_sec = secs;
	setitimer(ITIMER_PROF, &it, NULL);
}

int main(int argc, char **argv)
{
	static char line[1 << 22];
	const char *mode = argc > 1 ? argv[1] : "tar";
	struct sigaction sa;

	memset(&sa, 0, sizeof(sa));
	sa.sa_handler = on_cpu_limit;
	sigaction(SIGPROF, &sa, NULL);

	while (fgets(line, sizeof(line), stdin)) {
		size_t n = strlen(line);
		while (n > 0 && (line[n - 1] == '\n' || line[n - 1] == '\r'))
			line[--n] = 0;
		case_timer(CASE_CPU_SECONDS);
		if (!strcmp(mode, "tar")) do_tar(line);
		else if (!strcmp(mode, "num")) do_num(line);
		else if (!strcmp(mode, "pint")) do_pint(line);
		else if (!strcmp(mode, "b64")) do_b64(line, 0);
		else if (!strcmp(mode, "b64i")) do_b64(line, 1);
		else if (!strcmp(mode, "hex")) do_hex(line);
		else { puts("BAD MODE"); return 2; }
		fflush(stdout);
		case_timer(0);
	}
	return 0;
}
