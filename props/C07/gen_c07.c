/* Translator: prints coq/C07/GenC07.v from /repo's current headers (and <errno.h>).
 * Compiled and run by props/C07/check.py on every run, like vlib/gen_constants.c. */
#include "config.h"
#include <stdio.h>
#include <stddef.h>
#include <errno.h>
#include <limits.h>
#include "sqfs/error.h"
#include "sqfs/dir_entry.h"
#include "sqfs/block.h"
#include "tar/tar.h"
#include "tar/format.h"
#include "util/parse.h"
#include "fstree.h"

#define C(name) printf("Definition c_%s : N := %llu.\n", #name, (unsigned long long)(name))
#define CZ(name) printf("Definition z_%s : Z := (%lld)%%Z.\n", #name, (long long)(name))
#define FLD(f) do { \
	printf("Definition hoff_%s : N := %llu.\n", #f, (unsigned long long)offsetof(tar_header_t, f)); \
	printf("Definition hlen_%s : N := %llu.\n", #f, (unsigned long long)sizeof(((tar_header_t *)0)->f)); \
	} while (0)
#define FLDN(nm, f) do { \
	printf("Definition hoff_%s : N := %llu.\n", nm, (unsigned long long)offsetof(tar_header_t, f)); \
	printf("Definition hlen_%s : N := %llu.\n", nm, (unsigned long long)sizeof(((tar_header_t *)0)->f)); \
	} while (0)

int main(void)
{
	printf("(* GENERATED from /repo headers by props/C07/gen_c07.c -- do not edit *)\n");
	printf("From Coq Require Import NArith ZArith.\nLocal Open Scope N_scope.\n");
	/* errno values used by fstree.c / hardlink.c */
	C(EPERM); C(ENOENT); C(ENOTDIR); C(EMLINK); C(EEXIST); C(EINVAL);
	/* tar limits */
	C(TAR_RECORD_SIZE); C(TAR_MAX_SYMLINK_LEN); C(TAR_MAX_PATH_LEN); C(TAR_MAX_PAX_LEN); C(TAR_MAX_SPARSE_ENT);
	printf("Definition sizeof_tar_header_t : N := %llu.\n", (unsigned long long)sizeof(tar_header_t));
	FLD(name); FLD(mode); FLD(uid); FLD(gid); FLD(size); FLD(mtime); FLD(chksum); FLD(typeflag);
	FLD(linkname); FLD(magic); FLD(version); FLD(uname); FLD(gname); FLD(devmajor); FLD(devminor);
	FLDN("prefix", tail.posix.prefix);
	FLDN("gnu_sparse", tail.gnu.sparse);
	FLDN("gnu_isextended", tail.gnu.isextended);
	FLDN("gnu_realsize", tail.gnu.realsize);
	printf("Definition sizeof_gnu_old_sparse_t : N := %llu.\n", (unsigned long long)sizeof(gnu_old_sparse_t));
	printf("Definition soff_offset : N := %llu.\n", (unsigned long long)offsetof(gnu_old_sparse_t, offset));
	printf("Definition slen_offset : N := %llu.\n", (unsigned long long)sizeof(((gnu_old_sparse_t *)0)->offset));
	printf("Definition soff_numbytes : N := %llu.\n", (unsigned long long)offsetof(gnu_old_sparse_t, numbytes));
	printf("Definition slen_numbytes : N := %llu.\n", (unsigned long long)sizeof(((gnu_old_sparse_t *)0)->numbytes));
	printf("Definition sizeof_gnu_old_sparse_record_t : N := %llu.\n", (unsigned long long)sizeof(gnu_old_sparse_record_t));
	printf("Definition gnu_hdr_sparse_count : N := %llu.\n",
	       (unsigned long long)(sizeof(((tar_header_t *)0)->tail.gnu.sparse) / sizeof(gnu_old_sparse_t)));
	printf("Definition gnu_rec_sparse_count : N := %llu.\n",
	       (unsigned long long)(sizeof(((gnu_old_sparse_record_t *)0)->sparse) / sizeof(gnu_old_sparse_t)));
	printf("Definition roff_isextended : N := %llu.\n", (unsigned long long)offsetof(gnu_old_sparse_record_t, isextended));
	/* type flags */
	C(TAR_TYPE_FILE); C(TAR_TYPE_LINK); C(TAR_TYPE_SLINK); C(TAR_TYPE_CHARDEV); C(TAR_TYPE_BLOCKDEV);
	C(TAR_TYPE_DIR); C(TAR_TYPE_FIFO); C(TAR_TYPE_GNU_SLINK); C(TAR_TYPE_GNU_PATH); C(TAR_TYPE_GNU_SPARSE);
	C(TAR_TYPE_PAX); C(TAR_TYPE_PAX_GLOBAL);
	/* split_line verdicts, parse_int errors */
	CZ(SPLIT_LINE_OK); CZ(SPLIT_LINE_ALLOC); CZ(SPLIT_LINE_UNMATCHED_QUOTE); CZ(SPLIT_LINE_ESCAPE);
	CZ(SQFS_ERROR_CORRUPTED); CZ(SQFS_ERROR_OVERFLOW); CZ(SQFS_ERROR_OUT_OF_BOUNDS);
	/* block flags set by the sort file */
	C(SQFS_BLK_DONT_COMPRESS); C(SQFS_BLK_DONT_FRAGMENT); C(SQFS_BLK_DONT_DEDUPLICATE); C(SQFS_BLK_IGNORE_SPARSE);
	printf("Definition c_LONG_MAX : N := %llu.\n", (unsigned long long)LONG_MAX);
	printf("Definition c_sizeof_size_t : N := %llu.\n", (unsigned long long)sizeof(size_t));
	return 0;
}
