"""C07 -- malformed COMPRESSED containers around tar archives (strengthening, session 3, seed C07-9).

tar2sqfs sniffs gzip / xz / bzip2 / zstd magic on standard input and wraps the stream in lib/xfrm's decompressor
drivers.  This module builds, from well-formed tar archives of props/C07/gen.py, containers that are malformed at every
structurally interesting point of each format, and decides -- from REFERENCE decoders (Python zlib / lzma / bz2, the
system libzstd through props/C15/refzstd.c) and from C07's tar model, never from the tool -- whether the property demands
a refusal:

  must_reject  the reference decoder refuses the bytes (stream ends inside a member / corrupt) AND the damage lies in front
               of the shortest container prefix from which the whole archive (END marker included) can be decoded; or the
               reference decoder accepts the bytes and C07's tar model answers ERR on what they decode to.
  may          everything else (damage behind the point where the archive is complete: trailing garbage, a cut in the
               check sum / footer / end marker; a harmless bit; a container the reference decoder accepts whose content
               the tar model does not refuse).  Only the unconditional part of the property is evaluated there.

The unconditional part (Tools.judge): terminates within the watchdog, no signal, no sanitizer report, exit 0 => the image
validates, exit != 0 => diagnostic on stderr and no output file.
"""
import bz2
import hashlib
import lzma
import os
import random
import struct
import subprocess
import zlib

CODECS = ("gzip", "xz", "bzip2", "zstd")
MAGIC = {"gzip": b"\x1f\x8b", "xz": b"\xfd7zXZ\x00", "bzip2": b"BZh", "zstd": b"\x28\xb5\x2f\xfd"}


# --------------------------------------------------------------------------- reference codecs

def build_refzstd(cache_dir, src):
    """the C15 reference zstd tool on the SYSTEM libzstd (read-only use of props/C15/refzstd.c); None if unavailable"""
    if not os.path.exists(src):
        return None
    out = os.path.join(cache_dir, "extract", "C07-refzstd")
    os.makedirs(out, exist_ok=True)
    key = hashlib.sha256(open(src, "rb").read()).hexdigest()
    exe = os.path.join(out, "refzstd")
    stamp = os.path.join(out, "KEY")
    if os.path.exists(exe) and os.path.exists(stamp) and open(stamp).read() == key:
        return exe
    tmp = exe + ".tmp%d" % os.getpid()
    r = subprocess.run(["gcc", "-O1", "-w", src, "-lzstd", "-o", tmp], capture_output=True, text=True)
    if r.returncode != 0:
        return None
    os.rename(tmp, exe)
    open(stamp, "w").write(key)
    return exe


def compress(codec, data, refzstd, level=None, flush_at=()):
    if codec == "gzip":
        c = zlib.compressobj(level or 6, zlib.DEFLATED, 31)
        out, pos = bytearray(), 0
        for o in flush_at:
            if pos < o < len(data):
                out += c.compress(data[pos:o]) + c.flush(zlib.Z_FULL_FLUSH)
                pos = o
        return bytes(out + c.compress(data[pos:]) + c.flush())
    if codec == "xz":
        return lzma.compress(data, format=lzma.FORMAT_XZ, preset=level or 1, check=lzma.CHECK_CRC32)
    if codec == "bzip2":
        return bz2.compress(data, level or 1)
    r = subprocess.run([refzstd, "c", str(level or 3), "1"] + [str(o) for o in sorted(flush_at)], input=data, capture_output=True)
    if r.returncode != 0:
        raise RuntimeError("refzstd c failed")
    return r.stdout


def ref_decode(codec, data, refzstd):
    """-> (plain bytes delivered, status): ok (ends exactly at a member end) | trunc (ends inside a member) | bad"""
    if codec == "zstd":
        r = subprocess.run([refzstd, "d"], input=data, capture_output=True)
        return r.stdout, {0: "ok", 3: "trunc"}.get(r.returncode, "bad")
    out = bytearray()
    rest = data
    while rest:
        if codec == "gzip":
            d = zlib.decompressobj(31)
        elif codec == "xz":
            d = lzma.LZMADecompressor(format=lzma.FORMAT_XZ)
        else:
            d = bz2.BZ2Decompressor()
        try:
            out += d.decompress(rest)
        except Exception:
            return bytes(out), "bad"
        if not d.eof:
            return bytes(out), "trunc"
        rest = d.unused_data
    return bytes(out), "ok"


def need_prefix(codec, z, plain_len, refzstd):
    """length of the shortest prefix of the (intact) container z from which plain_len bytes can be decoded"""
    lo, hi = 0, len(z)
    while lo < hi:
        mid = (lo + hi) // 2
        if len(ref_decode(codec, z[:mid], refzstd)[0]) >= plain_len:
            hi = mid
        else:
            lo = mid + 1
    return lo


# --------------------------------------------------------------------------- structure of a one-member container

def structure_points(codec, z):
    """named offsets at which a cut / flip meets a different part of the format: list of (name, offset)"""
    n = len(z)
    pts = []
    if codec == "gzip":
        # 10-byte header (no optional fields from zlib), deflate blocks, CRC32, ISIZE
        pts = [("in-magic", 1), ("magic-only", 2), ("in-header", 5), ("header-only", 10), ("first-deflate-byte", 11),
               ("mid-deflate", n // 2), ("last-deflate-byte-missing", n - 9), ("before-crc", n - 8), ("in-crc", n - 6),
               ("before-isize", n - 4), ("last-byte-missing", n - 1)]
    elif codec == "xz":
        bhs = (z[12] + 1) * 4 if n > 12 else 0
        idx = n - 12 - (struct.unpack("<I", z[-8:-4])[0] + 1) * 4 if n >= 24 else n // 2
        pts = [("in-magic", 3), ("magic-only", 6), ("in-stream-flags", 7), ("stream-header-only", 12), ("in-block-header", 13),
               ("block-header-only", 12 + bhs), ("mid-block", (12 + bhs + idx) // 2), ("in-block-check", idx - 2), ("before-index", idx),
               ("in-index", idx + 2), ("before-footer", n - 12), ("in-footer", n - 6), ("last-byte-missing", n - 1)]
    elif codec == "bzip2":
        # "BZh" level, 48-bit block magic, 32-bit block CRC, ...; 48-bit end-of-stream magic + 32-bit stream CRC (bit aligned)
        pts = [("in-magic", 2), ("magic-only", 3), ("header-only", 4), ("in-block-magic", 7), ("in-block-crc", 12), ("block-header-only", 14),
               ("mid-block", n // 2), ("in-last-block", n - 14), ("before-end-marker", n - 11), ("in-end-marker", n - 7),
               ("in-stream-crc", n - 3), ("last-byte-missing", n - 1)]
        # a second block (the big archives have one): its magic is bit aligned, look for it at every shift
        pi = (0x314159265359).to_bytes(6, "big")
        whole = int.from_bytes(z, "big")
        for sh in range(8):
            k = (whole >> sh).to_bytes(n, "big").find(pi, 12)
            if 0 < k < n - 40:
                pts += [("in-second-block-magic", k + 3), ("in-second-block", k + 40)]
                break
    elif codec == "zstd":
        fhd = z[4] if n > 4 else 0
        ss = (fhd >> 5) & 1
        fcs = fhd >> 6
        fh = 4 + 1 + (0 if ss else 1) + (0, 1, 2, 4)[fhd & 3] + ((0, 2, 4, 8)[fcs] or (1 if ss else 0))
        pts = [("in-magic", 2), ("magic-only", 4), ("in-frame-header", 5), ("frame-header-only", fh), ("in-block-header", fh + 1),
               ("block-header-only", fh + 3), ("mid-block", n // 2), ("in-last-block", n - 9), ("before-checksum", n - 4),
               ("in-checksum", n - 2), ("last-byte-missing", n - 1)]
    seen = set()
    out = []
    for name, o in pts:
        if 0 < o < n and o not in seen:
            seen.add(o)
            out.append((name, o))
    return out


def flip(z, pos, bit):
    b = bytearray(z)
    b[pos] ^= 1 << bit
    return bytes(b)


# --------------------------------------------------------------------------- the archives

def archives(gen, rnd):
    """(small, big): well-formed archives.  small: a few entries of several dialects; big: + ~130 kB of seeded random file
    data (more than one bzip2 block at level 1, several deflate / zstd blocks) and a compressible file"""
    small = gen.file_entry(b"first", b"hello world\n" * 3) + gen.Hdr(b"dir", b"5", 0, mode=0o755).bytes() \
        + gen.file_entry(b"dir/second", bytes(rnd.randrange(256) for _ in range(rnd.randrange(600, 1400)))) \
        + gen.Hdr(b"dir/sl", b"2", 0, link=b"../first").bytes() + gen.END
    blob = random.Random(rnd.getrandbits(32)).randbytes(rnd.randrange(125000, 140000))
    big = gen.file_entry(b"first", b"hello world\n" * 3, "ustar", uid=1000, gid=1000, mtime=1234567) \
        + gen.Hdr(b"d", b"5", 0, mode=0o755).bytes() \
        + gen.long_entry(b"L", b"d/" + b"n" * 150) + gen.file_entry(b"short", b"x" * 600, "gnu") \
        + gen.pax_entry([gen.pax_rec(b"path", b"d/" + b"p" * 120), gen.pax_rec(b"mtime", b"1600000000.5"),
                         gen.pax_rec(b"SCHILY.xattr.user.a", b"v\0w")]) + gen.file_entry(b"x", b"abc") \
        + gen.file_entry(b"d/blob.bin", blob) + gen.file_entry(b"d/text.txt", b"all work and no play\n" * 2000) \
        + gen.Hdr(b"d/hl", b"1", 0, link=b"first").bytes() + gen.Hdr(b"last", b"2", 0, link=b"first").bytes() + gen.END
    return small, big


def header_offsets(tar):
    """offsets of the 512-byte records that carry a ustar magic"""
    return [i for i in range(0, len(tar) - 511, 512) if tar[i + 257:i + 262] == b"ustar"]


# --------------------------------------------------------------------------- cases

def cases(gen, rnd, tier, refzstd, codecs=CODECS):
    """list of dicts(codec, variant, data, damage, need, archive, intact) -- the expectation is filled in by classify()"""
    q = tier == "quick"
    small, big = archives(gen, rnd)
    out = []

    def add(codec, variant, data, z, need, damage, archive):
        # z: the intact container the case is derived from; archive: the WELL-FORMED tar archive it is derived from
        out.append(dict(codec=codec, variant=variant, data=data, damage=damage, need=need, archive=archive, intact=z))

    for codec in codecs:
        if codec == "zstd" and not refzstd:
            continue
        crnd = random.Random(rnd.getrandbits(48))
        zb = compress(codec, big, refzstd, flush_at=[len(big) // 3])
        nb = need_prefix(codec, zb, len(big), refzstd)
        zs = compress(codec, small, refzstd)
        ns = need_prefix(codec, zs, len(small), refzstd)
        # controls: the intact containers (decide whether the codec is compiled into the tool; never must_reject)
        add(codec, "control:big", zb, zb, nb, len(zb), big)
        add(codec, "control:small", zs, zs, ns, len(zs), small)
        # (1) truncation at every structural point of the big container
        for name, o in structure_points(codec, zb):
            add(codec, "cut:" + name, zb[:o], zb, nb, o, big)
        # (2) truncation of the small container: seeded offsets (thorough: every offset)
        offs = sorted(crnd.sample(range(1, len(zs)), 4)) if q else range(1, len(zs))
        for o in offs:
            add(codec, "cut:small@%d" % o, zs[:o], zs, ns, o, small)
        # (3) one bit flipped: payload, check sum / trailer, header
        pts = dict(structure_points(codec, zb))
        fl = [("payload", crnd.randrange(pts.get("block-header-only", 20) + 8, max(nb - 16, 40))),
              ("payload2", crnd.randrange(len(zb) // 2, max(nb - 16, len(zb) // 2 + 1))),
              ("trailer", crnd.randrange(max(len(zb) - (12 if codec == "xz" else 4 if codec != "gzip" else 8), 0), len(zb))),
              ("header", crnd.randrange(len(MAGIC[codec]), {"gzip": 10, "xz": 12, "bzip2": 14, "zstd": 6}[codec]))]
        if not q:
            fl += [("any%d" % i, crnd.randrange(len(zs))) for i in range(60)]
        for name, p in fl:
            src = zs if name.startswith("any") else zb
            add(codec, "flip:" + name, flip(src, p, crnd.randrange(8)), src, ns if src is zs else nb, p, small if src is zs else big)
        # (4) trailing garbage behind a complete container: text, zero bytes (xz stream padding / gzip(1) ignores zeros), a second magic
        for name, g in (("text", b"\x01garbage" * 3), ("zeros", b"\0" * 4), ("magic", MAGIC[codec])):
            add(codec, "garbage:" + name, zs + g, zs, ns, len(zs), small)
        # (5) empty containers: the container of the empty string, the magic alone is among the cuts
        ze = compress(codec, b"", refzstd)
        add(codec, "empty-content", ze, ze, 0, len(ze), b"")
        # (6) a WELL-FORMED container whose content is a truncated tar: inside a header, inside file data, at a record boundary
        hs = header_offsets(small)
        for name, k in (("in-header", hs[min(2, len(hs) - 1)] + crnd.randrange(1, 500)), ("in-data", hs[2] + 512 + 100 if len(hs) > 2 else 700),
                        ("no-end-marker", len(small) - len(gen.END))):
            zt = compress(codec, small[:k], refzstd)
            add(codec, "content-cut:" + name, zt, zt, len(zt), len(zt), small)
        # (7) two concatenated members, the archive split inside a header: cut in front of / exactly at / behind the seam,
        #     a bit of the second member flipped, second member without its last byte
        hb = header_offsets(big)
        k = hb[-3] + crnd.randrange(8, 400)        # the header behind the large file
        m1, m2 = compress(codec, big[:k], refzstd), compress(codec, big[k:], refzstd)
        z2 = m1 + m2
        n2 = need_prefix(codec, z2, len(big), refzstd)
        add(codec, "control:two-members", z2, z2, n2, len(z2), big)
        for name, o in (("seam-1", len(m1) - 1), ("seam", len(m1)), ("seam+1", len(m1) + 1), ("seam+header", len(m1) + len(MAGIC[codec]) + 2),
                        ("second-member-last-byte-missing", len(z2) - 1)):
            add(codec, "members-cut:" + name, z2[:o], z2, n2, o, big)
        p = len(m1) + crnd.randrange(len(m2) // 4, max(len(m2) // 2, len(m2) // 4 + 1))
        add(codec, "members-flip:second", flip(z2, p, crnd.randrange(8)), z2, n2, p, big)
    return out


def classify(case, refzstd, tar_model):
    """fills case['ref'], case['must_reject'], case['why'] from the reference decoder and C07's tar model.
    tar_model(bytes) -> True when the extracted model of the tar reader answers ERR on that byte stream."""
    plain, st = ref_decode(case["codec"], case["data"], refzstd)
    case["ref"] = st
    if case["variant"].startswith("control"):
        case["must_reject"], case["why"] = False, "control (reference decoder: %s)" % st
    elif st != "ok":
        if case["damage"] < case["need"]:
            case["must_reject"] = True
            case["why"] = ("reference decoder: %s; the damage at container offset %d lies in front of offset %d, the shortest prefix from "
                           "which the whole archive can be decoded" % ({"trunc": "ends inside a member", "bad": "corrupt"}[st], case["damage"], case["need"]))
        else:
            case["must_reject"] = False
            case["why"] = "reference decoder: %s, but the archive is complete in front of the damage" % st
    elif plain == case["archive"]:
        # the reference decoder accepts the bytes and they decode to the well-formed archive (intact container, harmless bit)
        case["must_reject"], case["why"] = False, "reference decoder accepts the bytes; content = the well-formed archive"
    else:
        err = tar_model(plain)
        case["must_reject"] = bool(err)
        case["why"] = "reference decoder accepts the bytes (%d bytes of content); C07 tar model on them: %s" % (len(plain), "ERR" if err else "no error")
    return case
