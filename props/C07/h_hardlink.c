/* C07 harness (1): fstree_add_generic + fstree_resolve_hard_links of the working tree.
 * stdin : one case per line:  <k>:<hexpath>:<hextarget>;...      k in d f s l   ("-" = empty string)
 * stdout: one line per case:
 *   B <idx> <errno>                      entry idx was refused by fstree_add_generic
 *   R <ret> <errno> | <node>,<node>,...  after fstree_resolve_hard_links; nodes in DFS / sibling order:
 *        <hexpath>=D<links> | O<links> | U<links>:<hextarget> | R<links>:<hexpath of target node>
 *   TIMEOUT                              the resolver did not return within the alarm (then the harness exits 3)
 */
#include "config.h"
#include "fstree.h"
#include "util/util.h"
#include <stdio.h>
#include <string.h>
#include <stdlib.h>
#include <errno.h>
#include <signal.h>
#include <setjmp.h>
#include <unistd.h>

static sigjmp_buf jb;
static void on_alarm(int sig) { (void)sig; siglongjmp(jb, 1); }

static int hv(int c) { return c <= '9' ? c - '0' : c - 'a' + 10; }

static char *unhex(const char *s, size_t n)
{
	char *out = calloc(1, n / 2 + 1);
	size_t i;
	if (n == 1 && s[0] == '-')
		return out;
	for (i = 0; i + 1 < n; i += 2)
		out[i / 2] = (char)(hv(s[i]) * 16 + hv(s[i + 1]));
	return out;
}

static void puthex(const char *s)
{
	if (*s == '\0')
		fputs("-", stdout);
	for (; *s; ++s)
		printf("%02x", (unsigned char)*s);
}

static void put_node_path(tree_node_t *n)
{
	char *p = fstree_get_path(n);
	/* fstree_get_path gives "/a/b" ("/" for the root); print without the leading slash */
	puthex(p[0] == '/' ? p + 1 : p);
	free(p);
}

static int first = 1;

static void dump(tree_node_t *n)
{
	if (!first)
		fputs(",", stdout);
	first = 0;
	put_node_path(n);
	if (S_ISDIR(n->mode)) {
		tree_node_t *c;
		printf("=D%u", (unsigned)n->link_count);
		for (c = n->data.children; c != NULL; c = c->next)
			dump(c);
	} else if (S_ISLNK(n->mode) && (n->flags & FLAG_LINK_IS_HARD)) {
		if (n->flags & FLAG_LINK_RESOVED) {
			printf("=R%u:", (unsigned)n->link_count);
			put_node_path(n->data.target_node);
		} else {
			printf("=U%u:", (unsigned)n->link_count);
			puthex(n->data.target);
		}
	} else {
		printf("=O%u", (unsigned)n->link_count);
	}
}

int main(int argc, char **argv)
{
	static char line[1 << 20];
	unsigned secs = argc > 1 ? (unsigned)atoi(argv[1]) : 5;
	fstree_defaults_t defs;
	struct sigaction sa;

	memset(&sa, 0, sizeof(sa));
	sa.sa_handler = on_alarm;
	sigaction(SIGALRM, &sa, NULL);
	memset(&defs, 0, sizeof(defs));
	defs.mode = 0755;

	while (fgets(line, sizeof(line), stdin)) {
		size_t n = strlen(line);
		fstree_t fs;
		char *p = line;
		int idx = 0, failed = 0;

		while (n > 0 && (line[n - 1] == '\n' || line[n - 1] == '\r'))
			line[--n] = 0;
		if (fstree_init(&fs, &defs))
			return 2;

		while (*p != '\0' && !failed) {
			char kind = p[0];
			char *a = p + 2, *b, *e, *name, *target;
			sqfs_dir_entry_t *ent;
			tree_node_t *node;
			sqfs_u16 mode;

			b = strchr(a, ':');
			e = strchr(b + 1, ';');
			if (e == NULL)
				e = b + 1 + strlen(b + 1);
			name = unhex(a, b - a);
			target = unhex(b + 1, e - (b + 1));
			mode = kind == 'd' ? (S_IFDIR | 0755) : kind == 'f' ? (S_IFREG | 0644) : (S_IFLNK | 0777);
			ent = sqfs_dir_entry_create(name, mode, kind == 'l' ? SQFS_DIR_ENTRY_FLAG_HARD_LINK : 0);
			errno = 0;
			node = fstree_add_generic(&fs, ent, (kind == 'l' || kind == 's') ? target : NULL);
			if (node == NULL) {
				printf("B %d %d\n", idx, errno);
				failed = 1;
			}
			free(ent);
			free(name);
			free(target);
			p = (*e == ';') ? e + 1 : e;
			++idx;
		}

		if (!failed) {
			int ret;
			if (sigsetjmp(jb, 1) != 0) {
				puts("TIMEOUT");
				fflush(stdout);
				_exit(3);
			}
			alarm(secs);
			errno = 0;
			ret = fstree_resolve_hard_links(&fs);
			alarm(0);
			printf("R %d %d | ", ret, ret ? errno : 0);
			first = 1;
			dump(fs.root);
			fputs("\n", stdout);
		}
		fstree_cleanup(&fs);
	}
	return 0;
}
