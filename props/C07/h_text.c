/* C07 harness (3): the text parsers of the working tree.
 * argv[1] = mode; stdin: one case per line; stdout: one canonical line per case.
 *
 * split <sephex> <hexline>     split_line(copy, strlen, sep)          -> "OK <n> <arg0hex> <arg1hex> ..." | "ERR <code>"
 * sort  <hexline>              trim; decode_priority / decode_flags / decode_filename of sort_by_file.c
 *                              -> "SKIP" | "OK <prio> <glob><pathglob> <flags> <namehex>" | "ERR"
 * xdec  <hexvalue>             decode() of filemap_xattr.c             -> "OK <hex>" | "ERR"
 * xfile <hex file content>     xattr_open_map_file on a temp file      -> "OK <path>{<key>=<val>,...};..." | "ERR"
 *                              (+ " LEAK" when C07_LEAKCHECK=1 and, after xattr_close_map_file resp. after the
 *                              refusal, LeakSanitizer finds a block nobody points to any more: the first such case of
 *                              a run only, LSan's recoverable check is cumulative)
 * Every line is copied into an exactly sized heap block (strlen + 1) so that ASan sees any over-read / over-write.
 * sort: additionally every stage runs on an exactly sized block of its own input (sort_staged).
 */
#include "config.h"
#include "bin/gensquashfs/src/sort_by_file.c"
#define print_error xattr_print_error
#define decode xattr_decode_value
#include "bin/gensquashfs/src/filemap_xattr.c"
#undef decode
#undef print_error

#include <inttypes.h>
#if defined(__SANITIZE_ADDRESS__)
#include <sanitizer/lsan_interface.h>
#define HAVE_LSAN 1
#endif

static int leakcheck;	/* C07_LEAKCHECK=1: ask LeakSanitizer after every xfile case until the first leak */

static const char *leak_suffix(void)
{
#ifdef HAVE_LSAN
	if (leakcheck && __lsan_do_recoverable_leak_check()) {
		leakcheck = 0;
		return " LEAK";
	}
#endif
	return "";
}

static int hv(int c) { return c <= '9' ? c - '0' : c - 'a' + 10; }

/* exactly sized, NUL terminated copy */
static char *unhex_str(const char *s, size_t *len)
{
	size_t n = strlen(s), i;
	char *out;
	if (n == 1 && s[0] == '-')
		n = 0;
	out = malloc(n / 2 + 1);
	for (i = 0; i + 1 < n; i += 2)
		out[i / 2] = (char)(hv(s[i]) * 16 + hv(s[i + 1]));
	out[n / 2] = 0;
	if (len)
		*len = n / 2;
	return out;
}

static void puthexn(const unsigned char *s, size_t n)
{
	size_t i;
	if (n == 0)
		fputs("-", stdout);
	for (i = 0; i < n; ++i)
		printf("%02x", s[i]);
}

static void do_split(char *line)
{
	char *sp = strchr(line, ' ');
	char *sep, *raw, *buf;
	size_t len, slen;
	split_line_t *out = NULL;
	int ret;

	*sp = 0;
	sep = unhex_str(line, NULL);
	raw = unhex_str(sp + 1, &len);
	/* the C string is what strlen sees */
	slen = strlen(raw);
	buf = malloc(slen + 1);
	memcpy(buf, raw, slen + 1);
	ret = split_line(buf, slen, sep, &out);
	if (ret) {
		printf("ERR %d\n", ret);
	} else {
		size_t i;
		printf("OK %zu", out->count);
		for (i = 0; i < out->count; ++i) {
			fputs(" ", stdout);
			puthexn((unsigned char *)out->args[i], strlen(out->args[i]));
		}
		fputs("\n", stdout);
		free(out);
	}
	free(buf);
	free(raw);
	free(sep);
}

/* the C string moved into a block of exactly its size (the old block is freed) */
static char *exact(char *s)
{
	char *n = malloc(strlen(s) + 1);
	strcpy(n, s);
	free(s);
	return n;
}

/* The three stages of a sort file line, each on a block that ends right behind the terminating NUL of the string
 * it is given.  In the tool the stages share the line buffer, and decode_priority / decode_flags leave the old tail
 * of the line behind the NUL of what they hand on: a stage that runs past that NUL reads (and rewrites) those
 * left-overs, still inside the allocation, and ASan stays silent.  A stage is a function of the C string it gets;
 * with the exact block a walk past the NUL crosses the redzone.  Result: 0 ok, -1 rejected (diagnostics on stderr). */
static int sort_staged(const char *trimmed)
{
	char *buf = malloc(strlen(trimmed) + 1);
	bool do_glob, path_glob;
	sqfs_s64 prio;
	int flags, ret = -1;

	strcpy(buf, trimmed);
	if (decode_priority("sort", 1, buf, &prio))
		goto out;
	buf = exact(buf);
	if (decode_flags("sort", 1, &do_glob, &path_glob, &flags, buf))
		goto out;
	buf = exact(buf);
	if (decode_filename("sort", 1, buf))
		goto out;
	ret = 0;
out:
	free(buf);
	return ret;
}

static void do_sort(char *line)
{
	size_t len;
	char *raw = unhex_str(line, &len), *buf;
	bool do_glob, path_glob;
	sqfs_s64 prio;
	int flags, staged;

	/* what istream_get_line hands out: the C string, trimmed */
	trim(raw);
	if (raw[0] == '\0' || raw[0] == '#') {
		puts("SKIP");
		free(raw);
		return;
	}
	/* staged run first: if it dies, no line has been printed for this case yet */
	staged = sort_staged(raw);
	buf = malloc(strlen(raw) + 1);
	strcpy(buf, raw);
	free(raw);
	if (decode_priority("sort", 1, buf, &prio) || decode_flags("sort", 1, &do_glob, &path_glob, &flags, buf) ||
	    decode_filename("sort", 1, buf)) {
		puts(staged == 0 ? "ERR STAGED-ACCEPTS" : "ERR");
	} else {
		printf("OK %" PRId64 " %d%d %d ", (int64_t)prio, do_glob ? 1 : 0, path_glob ? 1 : 0, flags);
		puthexn((unsigned char *)buf, strlen(buf));
		fputs(staged == 0 ? "\n" : " STAGED-REJECTS\n", stdout);
	}
	free(buf);
}

static void do_xdec(char *line)
{
	size_t len, size;
	char *raw = unhex_str(line, &len), *buf;
	sqfs_u8 *out;

	buf = malloc(strlen(raw) + 1);
	strcpy(buf, raw);
	free(raw);
	size = strlen(buf);
	out = xattr_decode_value("x", 1, buf, &size);
	if (out == NULL) {
		puts("ERR");
	} else {
		fputs("OK ", stdout);
		puthexn(out, size);
		fputs("\n", stdout);
		free(out);
	}
	free(buf);
}

static void do_xfile(char *line, const char *tmp)
{
	size_t len;
	char *raw = unhex_str(line, &len);
	struct XattrMap *map;
	FILE *f = fopen(tmp, "wb");

	fwrite(raw, 1, len, f);
	fclose(f);
	free(raw);
	map = xattr_open_map_file(tmp);
	if (map == NULL) {
		printf("ERR%s\n", leak_suffix());
	} else {
		struct XattrMapPattern *p;
		fputs("OK ", stdout);
		for (p = map->patterns; p != NULL; p = p->next) {
			sqfs_xattr_t *x;
			puthexn((unsigned char *)p->path, strlen(p->path));
			fputs("{", stdout);
			for (x = p->entries; x != NULL; x = x->next) {
				puthexn((const unsigned char *)x->key, strlen(x->key));
				fputs("=", stdout);
				puthexn(x->value, x->value_len);
				fputs(",", stdout);
			}
			fputs("};", stdout);
		}
		xattr_close_map_file(map);
		map = NULL;
		printf("%s\n", leak_suffix());
	}
}

int main(int argc, char **argv)
{
	static char line[1 << 22];
	const char *mode = argc > 1 ? argv[1] : "split";
	const char *tmp = argc > 2 ? argv[2] : "/var/tmp/c07_xfile.tmp";

	leakcheck = getenv("C07_LEAKCHECK") != NULL && !strcmp(getenv("C07_LEAKCHECK"), "1");

	while (fgets(line, sizeof(line), stdin)) {
		size_t n = strlen(line);
		while (n > 0 && (line[n - 1] == '\n' || line[n - 1] == '\r'))
			line[--n] = 0;
		if (!strcmp(mode, "split")) do_split(line);
		else if (!strcmp(mode, "sort")) do_sort(line);
		else if (!strcmp(mode, "xdec")) do_xdec(line);
		else if (!strcmp(mode, "xfile")) do_xfile(line, tmp);
		else { puts("BAD MODE"); return 2; }
		fflush(stdout);
	}
	return 0;
}
