/* tar_probe (static in iterator.c) and the magic table of compress.c */
#define tar_open_stream c15_unused_tar_open_stream
#include "lib/tar/src/iterator.c"
int c15_tar_probe(const sqfs_u8 *data, size_t size) { return tar_probe(data, size); }
