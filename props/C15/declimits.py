"""C15 -- decoder-side resource parameters of the wrapper formats (part `limits` of props/C15/check.py).

A compressed stream announces, in its header, what the DECODER must provide: the LZMA2 dictionary size (xz), the window
size (zstd Window_Descriptor), the block size (bzip2 'BZh1'..'BZh9'), and -- implicitly -- the longest match distance
(deflate: up to 32 KiB).  The encoder presets of the other legs only ever reach a small part of these ranges.  Here the
parameters are set directly, at the extremes that a standard decompressor (xz -d, zstd -d, gzip -d, bzip2 -d with their
default limits) accepts; every such input is first expanded by the reference decompressor of the check (it must restore
the archive byte for byte, otherwise the case is dropped as a generator problem) and must then give the image of the
plain archive.

xz and zstd containers are also written by hand (stored LZMA2 chunks / raw zstd blocks): the header can then announce
any dictionary / window without an encoder that allocates it.

Admission model (coq/C15/DecLimits.v, constants measured on the working tree by gen_limits.c -> coq/C15/GenC15Limits.v):
  xz    admitted iff lzma2_dict_size(bits) + slack <= c_xz_dec_memlimit      (theorem: bits <= 29, i.e. <= 96 MiB, admitted)
  gzip  admitted iff distance <= 2^(c_gzip_dec_wbits mod 16)
  zstd  admitted iff window <= 2^c_zstd_dec_wlogmax
The must-accept set does NOT move with the constants (a valid input that worked must keep working): xz dictionaries up to
96 MiB, zstd windows up to 2^27, deflate distances up to 32 KiB, bzip2 block sizes 1..9.  Cases beyond the must-accept
set (xz 128 MiB, zstd 2^27 * 1.125) are tie cases: the tree's answer must be the one the model gives for the tree's own
constant (refusal there is not a C15 violation)."""
import binascii
import bz2
import hashlib
import lzma
import os
import random
import struct
import subprocess
import zlib
from concurrent.futures import ThreadPoolExecutor

MIB = 1 << 20
XZ_MUST_ACCEPT_BITS = 29          # 96 MiB; Coq: DecLimits.xz_must_accept_bits
ZSTD_MUST_ACCEPT_WLOG = 27        # ZSTD_WINDOWLOG_LIMIT_DEFAULT, what `zstd -d` takes without --long/--memory
XZ_SLACK = 1 << 20                # Coq: DecLimits.xz_slack_bound (liblzma's decoder needs dict + < 1 MiB)


# ---------------------------------------------------------------------------------------------------------------------
# Python twins of the Coq definitions (DecLimits.v) -- compared with Examples there (same numbers)
# ---------------------------------------------------------------------------------------------------------------------
def lzma2_dict_size(bits):
    if bits == 40:
        return (1 << 32) - 1
    return (2 + (bits & 1)) << (bits // 2 + 11)


def zstd_window_size(desc):
    base = 1 << (10 + (desc >> 3))
    return base + (base >> 3) * (desc & 7)


# ---------------------------------------------------------------------------------------------------------------------
# hand-written containers
# ---------------------------------------------------------------------------------------------------------------------
def _vli(n):
    out = bytearray()
    while n >= 0x80:
        out.append((n & 0x7F) | 0x80)
        n >>= 7
    out.append(n)
    return bytes(out)


def _crc32(b):
    return struct.pack("<I", binascii.crc32(b) & 0xFFFFFFFF)


def xz_stored(data, bits, block_cuts=(), check="crc32", chunk=65536):
    """an .xz stream whose blocks hold `data` in stored (uncompressed) LZMA2 chunks, announcing dictionary `bits`"""
    chk_id = {"none": 0, "crc32": 1, "sha256": 10}[check]
    flags = bytes([0, chk_id])
    out = bytearray(b"\xfd7zXZ\x00" + flags + _crc32(flags))
    cuts = [0] + sorted(c for c in set(block_cuts) if 0 < c < len(data)) + [len(data)]
    records = []
    for a, b in zip(cuts, cuts[1:]):
        hdr = bytes([2, 0x00, 0x21, 0x01, bits, 0, 0, 0])
        hdr += _crc32(hdr)
        body = bytearray()
        pos = a
        first = True
        while pos < b:
            n = min(chunk, b - pos)
            body += bytes([1 if first else 2]) + struct.pack(">H", n - 1) + data[pos:pos + n]
            first = False
            pos += n
        body.append(0)
        if check == "crc32":
            ck = _crc32(data[a:b])
        elif check == "sha256":
            ck = hashlib.sha256(data[a:b]).digest()
        else:
            ck = b""
        out += hdr + body + b"\0" * (-len(body) % 4) + ck
        records.append((len(hdr) + len(body) + len(ck), b - a))
    idx = bytearray(b"\0" + _vli(len(records)))
    for u, n in records:
        idx += _vli(u) + _vli(n)
    idx += b"\0" * (-len(idx) % 4)
    idx += _crc32(bytes(idx))
    out += idx
    tail = struct.pack("<I", len(idx) // 4 - 1) + flags
    out += _crc32(tail) + tail + b"YZ"
    return bytes(out)


def zstd_raw(data, desc, fcs=False):
    """one zstd frame of raw blocks announcing Window_Descriptor `desc` (no checksum, no dictionary)"""
    win = zstd_window_size(desc)
    bmax = min(win, 128 * 1024)
    if fcs:
        out = bytearray(b"\x28\xb5\x2f\xfd" + bytes([0x80, desc]) + struct.pack("<I", len(data)))
    else:
        out = bytearray(b"\x28\xb5\x2f\xfd" + bytes([0x00, desc]))
    pos = 0
    while True:
        n = min(bmax, len(data) - pos)
        last = pos + n >= len(data)
        out += struct.pack("<I", (n << 3) | (1 if last else 0))[:3] + data[pos:pos + n]
        pos += n
        if last:
            break
    return bytes(out)


# ---------------------------------------------------------------------------------------------------------------------
# the archive: long-range structure so that the announced resources are really used
# ---------------------------------------------------------------------------------------------------------------------
def limit_archive(rnd, mk_tar, big):
    pat = rnd.randbytes(3000)
    # deflate: the same 3000 bytes again at distance 30000..32505 (zlib's longest reachable distance is 32768 - 262 - 1: needs the
    # full 32 KiB window), several times
    far = bytearray()
    for i in range(6):
        far += pat + rnd.randbytes(rnd.choice([32505, 32500, 32000, 30000]) - 3000)
    far += pat
    files = [("d", None), ("d/readme", b"decoder limits\n" * 40), ("d/far.bin", bytes(far))]
    if big:
        # bzip2: more than one 900 kB block of text-like data; zstd/xz: matches 1 MiB back
        words = [rnd.randbytes(rnd.randint(3, 9)).hex().encode() for _ in range(3000)]
        txt = bytearray()
        while len(txt) < 1000000:
            txt += rnd.choice(words) + b" "
        files.append(("d/words.txt", bytes(txt)))
        files.append(("d/again.bin", bytes(far[:70000])))
    return files, mk_tar(files)


def gen_cases(rnd, tar, refzstd, quick):
    """-> list of dict(codec, name, z, heavy, expect) ; expect = 'accept' (property) | 'model' (tie: computed by caller)"""
    cs = []

    def add(codec, name, z, heavy=False, expect="accept", **kw):
        cs.append(dict(codec=codec, name=name, z=z, heavy=heavy, expect=expect, **kw))

    # ---- xz: dictionary announced in the block header ----
    small = [0, 1, 12, 19, 24] if quick else list(range(0, 27))
    for b in ([rnd.choice(small)] if quick else small):
        add("xz", "stored-dict-bits%d" % b, xz_stored(tar, b, chunk=rnd.choice([1, 4096, 65536]) if len(tar) < 200000 else 65536), bits=b)
    for b in (28, 29):             # 64 MiB, 96 MiB
        add("xz", "stored-dict-bits%d" % b, xz_stored(tar, b, block_cuts=[len(tar) // 3] if b == 29 else ()), heavy=True, bits=b)
    if not quick:
        add("xz", "stored-dict-bits27", xz_stored(tar, 27), heavy=True, bits=27)
        add("xz", "stored-dict-bits29-two-streams", xz_stored(tar[:5120], 29) + xz_stored(tar[5120:], 29), heavy=True, bits=29)
    add("xz", "stored-dict-bits30", xz_stored(tar, 30), heavy=True, expect="model", bits=30)        # 128 MiB: tie case
    dsz = [(64 * MIB) + 1, 96 * MIB] if quick else [(64 * MIB) + 1, 72 * MIB, 80 * MIB, 96 * MIB - 1, 96 * MIB]
    for n in dsz:
        z = lzma.compress(tar, format=lzma.FORMAT_XZ, check=lzma.CHECK_CRC64,
                          filters=[{"id": lzma.FILTER_LZMA2, "preset": rnd.choice([0, 1]), "dict_size": n}])
        add("xz", "lzma2-dict-%d" % n, z, heavy=True, bits=29)
    # filter chains and integrity checks a standard decoder supports
    add("xz", "delta+lzma2", lzma.compress(tar, format=lzma.FORMAT_XZ, filters=[
        {"id": lzma.FILTER_DELTA, "dist": rnd.choice([1, 4, 256])}, {"id": lzma.FILTER_LZMA2, "preset": 1}]))
    add("xz", "x86+lzma2", lzma.compress(tar, format=lzma.FORMAT_XZ, filters=[
        {"id": lzma.FILTER_X86}, {"id": lzma.FILTER_LZMA2, "preset": 0, "dict_size": 1 << 16}]))
    add("xz", "check-sha256", lzma.compress(tar, format=lzma.FORMAT_XZ, check=lzma.CHECK_SHA256, preset=0))
    add("xz", "check-none-stored", xz_stored(tar, 20, check="none"))
    add("xz", "lzma2-lc4-lp0-pb0", lzma.compress(tar, format=lzma.FORMAT_XZ, filters=[
        {"id": lzma.FILTER_LZMA2, "preset": 0, "lc": 4, "lp": 0, "pb": 0}]))
    add("xz", "lzma2-lc0-lp4-pb4", lzma.compress(tar, format=lzma.FORMAT_XZ, filters=[
        {"id": lzma.FILTER_LZMA2, "preset": 0, "lc": 0, "lp": 4, "pb": 4}]))

    # ---- zstd: Window_Descriptor ----
    descs = [0x00, (17 << 3)]                          # 1 KiB, 2^27
    mids = [(e << 3) | m for e in range(0, 17) for m in (0, 7)]
    descs += [rnd.choice(mids)] if quick else mids
    descs.append((16 << 3) | 7)                        # 2^26 * 1.875 = 120 MiB
    for dsc in descs:
        w = zstd_window_size(dsc)
        add("zstd", "raw-window-%d" % w, zstd_raw(tar, dsc), heavy=w > 32 * MIB, window=w)
    add("zstd", "raw-window-fcs", zstd_raw(tar, 17 << 3, fcs=True), window=1 << 27)
    add("zstd", "raw-window-%d" % zstd_window_size((17 << 3) | 1), zstd_raw(tar, (17 << 3) | 1), heavy=True, expect="model",
        window=zstd_window_size((17 << 3) | 1))      # 144 MiB: tie case
    for wl in ([27] if quick else [10, 20, 24, 27]):
        r = subprocess.run([refzstd, "w", str(wl), "1"], input=tar, capture_output=True)
        if r.returncode == 0:
            add("zstd", "ldm-windowlog-%d" % wl, r.stdout, heavy=wl >= 26, window=1 << wl)

    # ---- gzip: window / strategy / members ----
    for wb in ([9, 15] if quick else range(9, 16)):
        for lvl in ([9] if quick else [1, 9]):
            c = zlib.compressobj(lvl, zlib.DEFLATED, 16 + wb)
            add("gzip", "wbits%d-level%d" % (wb, lvl), c.compress(tar) + c.flush())
    c = zlib.compressobj(0, zlib.DEFLATED, 31)
    add("gzip", "stored-blocks", c.compress(tar) + c.flush())
    c = zlib.compressobj(9, zlib.DEFLATED, 31, 9, zlib.Z_FIXED)
    add("gzip", "fixed-huffman-wbits15", c.compress(tar) + c.flush())
    # many small members, each with its own window size
    z = bytearray()
    pos = 0
    k = 0
    while pos < len(tar):
        n = rnd.choice([1, 511, 512, 4096, 70000])
        c = zlib.compressobj(rnd.choice([1, 9]), zlib.DEFLATED, 16 + 9 + k % 7)
        z += c.compress(tar[pos:pos + n]) + c.flush()
        pos += n
        k += 1
        if k > 400:
            c = zlib.compressobj(9, zlib.DEFLATED, 31)
            z += c.compress(tar[pos:]) + c.flush()
            break
    add("gzip", "members-mixed-wbits", bytes(z))

    # ---- bzip2: block size announced in the header ----
    for lvl in ([1, 5, 9] if quick else range(1, 10)):
        add("bzip2", "blocksize-%d" % lvl, bz2.compress(tar, lvl))
    add("bzip2", "members-levels-1-9", b"".join(
        bz2.compress(tar[a:b], 1 + i % 9) for i, (a, b) in enumerate(
            zip(range(0, len(tar), max(1, len(tar) // 9 + 1)), list(range(0, len(tar), max(1, len(tar) // 9 + 1)))[1:] + [len(tar)]))))
    return cs


def predicted(case, limits):
    """the model's answer for a tie case, from the constants measured on the working tree"""
    if case["codec"] == "xz":
        d = lzma2_dict_size(case["bits"])
        if d + XZ_SLACK <= limits["xz_dec_memlimit"]:
            return True
        if d > limits["xz_dec_memlimit"]:
            return False
        return None                 # inside the slack: liblzma's exact overhead decides, the model does not
    if case["codec"] == "zstd":
        return case["window"] <= (1 << limits["zstd_dec_wlogmax"])
    return True


def run_matrix(S, limits, mk_tar, ref_decompress, tar2sqfs_image, b64, rnd, only=None):
    quick = S.ctx.tier == "quick"
    bad = []
    stats = dict(cases=0, heavy=0, compared=0, dropped_reference=0, tie_cases=0, by_codec={}, limits=limits)
    if only is not None:
        import base64
        sets = [(base64.b64decode(only["tar_b64"]), [dict(codec=only["codec"], name=only["variant"], z=base64.b64decode(only["input_b64"]),
                                                           heavy=True, expect=only.get("expect", "accept"), bits=only.get("bits"),
                                                           window=only.get("window"))])]
    else:
        sets = []
        for big in ([False, True] if True else [False]):
            files, tar = limit_archive(rnd, mk_tar, big)
            cs = gen_cases(rnd, tar, S.refzstd, quick)
            if big:
                # the big archive is for the formats whose resource is USED by long-range data (bzip2 blocks, deflate / zstd
                # distances); header-only cases are not repeated
                cs = [c for c in cs if (c["codec"] in ("bzip2",) or c["name"].startswith(("wbits15", "ldm-", "lzma2-dict-%d" % (96 * MIB))))
                      and not (quick and c["name"].startswith("lzma2-dict"))]
            sets.append((tar, cs))
    for tar, cs in sets:
        rc0, h0, err0, img0 = tar2sqfs_image(S, tar)
        if img0 and os.path.exists(img0):
            os.unlink(img0)
        if rc0 != 0:
            S.ctx.notes.append("decoder limits: plain archive refused by tar2sqfs (%s)" % err0[:100])
            continue

        def one(c):
            # validity by the check's reference decompressor (no memory limit): must restore the archive
            if c["codec"] == "zstd" and c["expect"] == "model":
                ok = True          # the reference libzstd has the same default limit; validity = same writer as the accepted cases
            else:
                out, st = ref_decompress(c["codec"], c["z"], S.refzstd)
                ok = st == "ok" and out == tar
            if not ok:
                return c, None
            rc, h, err, img = tar2sqfs_image(S, c["z"], timeout=60)
            if img and os.path.exists(img):
                os.unlink(img)
            return c, (rc, h, err)

        light = [c for c in cs if not c["heavy"]]
        heavy = [c for c in cs if c["heavy"]]
        with ThreadPoolExecutor(max_workers=8) as ex:
            results = list(ex.map(one, light))
        for c in heavy:                 # these really allocate 64..128 MiB in the decoder: one at a time
            results.append(one(c))
        for c, r in results:
            stats["cases"] += 1
            stats["heavy"] += 1 if c["heavy"] else 0
            stats["by_codec"][c["codec"]] = stats["by_codec"].get(c["codec"], 0) + 1
            if r is None:
                stats["dropped_reference"] += 1
                S.ctx.notes.append("decoder limits: reference decompressor does not restore the archive for %s:%s (case dropped)"
                                   % (c["codec"], c["name"]))
                continue
            rc, h, err = r
            rep = dict(kind="tool-limits", codec=c["codec"], variant=c["name"], expect=c["expect"], bits=c.get("bits"), window=c.get("window"),
                       tar_b64=b64(tar) if len(tar) < 2500000 else None, input_b64=b64(c["z"]) if len(c["z"]) < 2500000 else None,
                       rc=str(rc), stderr=err[-300:], limits=limits)
            what = "%s:%s" % (c["codec"], c["name"])
            need = ("LZMA2 dictionary of %d MiB announced" % (lzma2_dict_size(c["bits"]) >> 20) if c.get("bits") is not None and c["bits"] >= 18
                    else "window of %d bytes announced" % c["window"] if c.get("window") else c["name"])
            if rc == "HANG":
                bad.append(("declimit:hang:tar2sqfs:" + c["codec"], "tar2sqfs does not terminate on a valid %s stream (%s)" % (c["codec"], c["name"]), rep))
                continue
            if isinstance(rc, int) and (rc < 0 or rc > 1) or "Sanitizer" in err:
                bad.append(("declimit:crash:tar2sqfs:" + c["codec"], "tar2sqfs died (rc=%s) on a valid %s stream (%s): %s"
                            % (rc, c["codec"], c["name"], err[-200:]), rep))
                continue
            if c["expect"] == "accept":
                stats["compared"] += 1
                if rc != 0:
                    bad.append(("declimit:false-error:tar2sqfs:" + c["codec"],
                                "tar2sqfs fails (%s) on a valid %s-wrapped archive that the reference decompressor restores byte for byte "
                                "and whose decoder-side resource need (%s: %s) is within what the format's standard decoder accepts"
                                % (err.strip()[-120:], c["codec"], c["name"], need), rep))
                elif h != h0:
                    bad.append(("declimit:image-differs:tar2sqfs:" + c["codec"],
                                "image from the %s-wrapped archive (%s) differs from the image of the plain archive" % (c["codec"], c["name"]), rep))
            else:
                stats["tie_cases"] += 1
                p = predicted(c, limits)
                if rc == 0 and h != h0:
                    bad.append(("declimit:image-differs:tar2sqfs:" + c["codec"],
                                "image from the %s-wrapped archive (%s) differs from the image of the plain archive" % (c["codec"], c["name"]), rep))
                elif p is not None and (rc == 0) != p:
                    bad.append(("tie-declimit:" + c["codec"],
                                "admission model vs. working tree: %s is %s by tar2sqfs, the model with the tree's constants (%s) says %s"
                                % (what, "accepted" if rc == 0 else "refused", limits, "accept" if p else "refuse"), dict(rep, no_input=True)))
    return bad, stats
