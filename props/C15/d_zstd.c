/* zstd.c of the working tree on top of the toy codec (fake/zstd.h) */
#define compressor_stream_zstd_create toy_zstd_comp_create
#define decompressor_stream_zstd_create toy_zstd_decomp_create
#include "lib/xfrm/src/zstd.c"
