/* bzip2.c of the working tree on top of the toy codec (fake/bzlib.h) */
#define compressor_stream_bzip2_create toy_bzip2_comp_create
#define decompressor_stream_bzip2_create toy_bzip2_decomp_create
#include "lib/xfrm/src/bzip2.c"
