/* gzip.c of the working tree on top of the toy codec (fake/zlib.h) */
#define compressor_stream_gzip_create toy_gzip_comp_create
#define decompressor_stream_gzip_create toy_gzip_decomp_create
#include "lib/xfrm/src/gzip.c"
