(* C15 model driver: same case lines as h_toy.c, same result lines. *)
open C15_model

let nat_of_int (i : int) : int = if i < 0 then 0 else i
let int_of_nat (n : int) : int = n
let rec pos_of_int i = if i = 1 then XH else if i land 1 = 1 then XI (pos_of_int (i lsr 1)) else XO (pos_of_int (i lsr 1))
let n_of_int i = if i = 0 then N0 else Npos (pos_of_int i)
let rec int_of_pos = function XH -> 1 | XO p -> 2 * int_of_pos p | XI p -> 2 * int_of_pos p + 1
let int_of_n = function N0 -> 0 | Npos p -> int_of_pos p
let bytes_tbl = Array.init 256 n_of_int

let hash2 (l : n list) =
  let a = ref 7 and b = ref 11 and len = ref 0 in
  List.iter (fun c -> let v = int_of_n c in
                      a := (!a * 31337 + v + 1) mod 2147483647;
                      b := (!b * 65599 + v + 1) mod 2147483629;
                      incr len) l;
  (!len, !a, !b)

(* data spec -> reversed int list appended to acc *)
let parse_item (s : string) (acc : int list ref) =
  let k = s.[0] and rest = String.sub s 1 (String.length s - 1) in
  match k with
  | 'H' -> for i = 0 to String.length rest / 2 - 1 do
             acc := int_of_string ("0x" ^ String.sub rest (2*i) 2) :: !acc done
  | 'R' -> (match String.split_on_char ':' rest with
            | [c; v] -> let c = int_of_string c and v = int_of_string v in
                        for _ = 1 to c do acc := (v land 255) :: !acc done
            | _ -> failwith "R")
  | 'P' -> (match String.split_on_char ':' rest with
            | [c; sd] -> let c = int_of_string c and x = ref (int_of_string sd) in
                         for _ = 1 to c do
                           x := (!x * 1103515245 + 12345) mod 2147483648;
                           acc := ((!x lsr 16) land 255) :: !acc done
            | _ -> failwith "P")
  | 'F' -> let ic = open_in_bin rest in
           (try while true do acc := input_byte ic :: !acc done with End_of_file -> ());
           close_in ic
  | _ -> failwith "item"

let parse_data (s : string) : n list =
  if s = "-" then [] else begin
    let acc = ref [] in
    List.iter (fun it -> if it <> "" then parse_item it acc) (String.split_on_char '+' s);
    List.rev_map (fun v -> bytes_tbl.(v)) !acc
  end

let parse_csv s = if s = "-" then [] else
    List.filter (fun x -> x <> "") (String.split_on_char ',' s)

let bufsz_i = ref 262144 and bufsz_o = ref 262144

let rend_str = function REof -> "EOF" | RErr -> "ERR" | RMore -> "MORE" | RFuel -> "FUEL"

let run_reader drv d0 z ws ops =
  let st = istream_init d0 z ws in
  let (((acc, tr), e), s') = reader_tr drv (nat_of_int !bufsz_i) st ops [] [] in
  let (n, h1, h2) = hash2 acc in
  let t = String.concat "" (List.map (fun k -> string_of_int (int_of_nat k) ^ ",") tr) in
  match e with
  | RErr -> Printf.printf "I ERR n=%d h=%d.%d t=%s\n" n h1 h2 t
  | _ -> Printf.printf "I %s n=%d h=%d.%d rem=%d t=%s\n" (rend_str e) n h1 h2 (int_of_nat (length s'.i_src)) t

let case_istream tok =
  match tok with
  | _ :: drv :: maxin :: maxout :: finbuf :: data :: ws :: ops :: _ ->
    let z = parse_data data in
    let ws = List.map (fun x -> nat_of_int (int_of_string x)) (parse_csv ws) in
    let ops = List.map (fun x -> match String.split_on_char ':' x with
        | [w; t] -> (nat_of_int (int_of_string w), nat_of_int (int_of_string t))
        | [w] -> (nat_of_int (int_of_string w), 0)
        | _ -> failwith "op") (parse_csv ops) in
    let d0 = toy_dec_init (nat_of_int (int_of_string maxin)) (nat_of_int (int_of_string maxout)) (finbuf <> "0") in
    (match drv with
     | "gzip" | "xz" -> run_reader (mk_zlib toy_dec true) d0 z ws ops
     | "bzip2" -> run_reader (mk_bzip2 (bzify (noflush toy_dec)) true) d0 z ws ops
     | "zstd" -> run_reader (mk_zstd (noflush toy_dec) true) (d0, false) z ws ops
     | "oldgzip" -> run_reader (mk_old_zlib toy_dec) d0 z ws ops
     | "oldzstd" -> run_reader (mk_old_zstd (noflush toy_dec)) d0 z ws ops
     | _ -> print_endline "I NODRIVER")
  | _ -> print_endline "I BADCASE"

let run_writer drv d0 chunks =
  let lfuel = nat_of_int 2000000 in
  match writer drv (nat_of_int !bufsz_o) lfuel (ostream_init d0) chunks with
  | Err -> print_endline "O ERR"
  | Fuel -> print_endline "O FUEL"
  | Ok s ->
    let all = log_bytes s.o_log in
    let (n, h1, h2) = hash2 all in
    let ev = String.concat "" (List.map (function
        | EvFlush -> "f,"
        | EvAppend l -> let (k, a, b) = hash2 l in Printf.sprintf "a%d.%d.%d," k a b) s.o_log) in
    Printf.printf "O OK n=%d h=%d.%d in=%d ev=%s\n" n h1 h2 (int_of_nat (length s.o_inbuf)) ev

let case_ostream tok =
  match tok with
  | _ :: drv :: blk :: maxin :: maxout :: greedy :: finrun :: chunks :: _ ->
    let chunks = if chunks = "-" then [] else
        List.map (fun c -> if c <> "" && c.[0] = 'Z' then
                     List.init (int_of_string (String.sub c 1 (String.length c - 1))) (fun _ -> N0)
                   else parse_data c) (String.split_on_char ';' chunks) in
    let blk = max 1 (min 255 (int_of_string blk)) in
    let e0 = toy_enc_init (nat_of_int blk) (nat_of_int (int_of_string maxin)) (nat_of_int (int_of_string maxout))
        (greedy <> "0") (finrun <> "0") in
    (match drv with
     | "gzip" | "xz" -> run_writer (mk_zlib toy_enc false) e0 chunks
     | "bzip2" -> run_writer (mk_bzip2 (bzify toy_enc) false) e0 chunks
     | "zstd" -> run_writer (mk_zstd toy_enc false) (e0, false) chunks
     | "oldgzip" -> run_writer (mk_old_zlib toy_enc) e0 chunks
     | "oldzstd" -> run_writer (mk_old_zstd toy_enc) e0 chunks
     | _ -> print_endline "O NODRIVER")
  | _ -> print_endline "O BADCASE"

let case_magic tok =
  match tok with
  | _ :: data :: _ ->
    let d = parse_data data in
    Printf.printf "M %d %d\n" (match id_from_magic d with None -> -1 | Some i -> int_of_n i)
      (if tar_probe d then 1 else 0)
  | _ -> print_endline "M BADCASE"

(* D <data>: reference decoder of the toy format: "D NONE" or "D n=.. h=.." *)
let case_ref tok =
  match tok with
  | _ :: data :: _ ->
    let d = parse_data data in
    (match ref_decode_all (nat_of_int (List.length d + 1)) d with
     | None -> print_endline "D NONE"
     | Some p -> let (n, a, b) = hash2 p in Printf.printf "D n=%d h=%d.%d\n" n a b)
  | _ -> print_endline "D BADCASE"

let () =
  try
    while true do
      let line = input_line stdin in
      let tok = List.filter (fun x -> x <> "") (String.split_on_char ' ' line) in
      (match tok with
       | "I" :: _ -> case_istream tok
       | "O" :: _ -> case_ostream tok
       | "M" :: _ -> case_magic tok
       | "D" :: _ -> case_ref tok
       | "B" :: i :: o :: _ -> bufsz_i := int_of_string i; bufsz_o := int_of_string o;
         Printf.printf "B %d %d\n" !bufsz_i !bufsz_o
       | [] -> ()
       | _ -> print_endline "? BADCASE");
      flush stdout
    done
  with End_of_file -> ()
