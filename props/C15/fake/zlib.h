/* C15 component harness: stand-in for <zlib.h>.  gzip.c of the working tree is
 * compiled against this header, so that its process_data loop runs on top of
 * the toy codec (../toy.h) instead of zlib.  Only what gzip.c uses. */
#ifndef C15_FAKE_ZLIB_H
#define C15_FAKE_ZLIB_H
#include "../toy.h"

typedef unsigned char Bytef;
typedef unsigned int uInt;
typedef unsigned long uLong;

typedef struct {
	Bytef *next_in;
	uInt avail_in;
	uLong total_in;
	Bytef *next_out;
	uInt avail_out;
	uLong total_out;
	int toy_is_enc;
	int toy_bad;	/* like inflate's BAD mode: once a call has failed, every further call fails without
			   doing anything (until the stream is reset).  A conforming driver never makes such
			   a call, so this is outside what the model observes; a driver that ignores an
			   error code spins, as it does on the real library. */
	toy_enc_t toy_enc;
	toy_dec_t toy_dec;
} z_stream;

#define Z_NO_FLUSH 0
#define Z_SYNC_FLUSH 2
#define Z_FINISH 4
#define Z_OK 0
#define Z_STREAM_END 1
#define Z_NEED_DICT 2
#define Z_ERRNO (-1)
#define Z_STREAM_ERROR (-2)
#define Z_DATA_ERROR (-3)
#define Z_MEM_ERROR (-4)
#define Z_BUF_ERROR (-5)
#define Z_VERSION_ERROR (-6)
#define Z_DEFLATED 8
#define Z_DEFAULT_STRATEGY 0

/* every code zlib can return besides OK / STREAM_END / BUF_ERROR is the class "error"; rotate through
 * them so that a driver that only recognises some of them is caught by the exact tie */
static int toy_z_errcode(void)
{
	static const int codes[] = { Z_DATA_ERROR, Z_NEED_DICT, Z_MEM_ERROR, Z_STREAM_ERROR, Z_ERRNO, Z_VERSION_ERROR };
	static unsigned n;
	return codes[n++ % (sizeof(codes) / sizeof(codes[0]))];
}

static int toy_z_map(int r)
{
	switch (r) {
	case TOY_OK: return Z_OK;
	case TOY_END: return Z_STREAM_END;
	case TOY_BUF: return Z_BUF_ERROR;
	default: return toy_z_errcode();
	}
}

static int deflateInit2(z_stream *s, int level, int method, int wbits, int memlevel, int strategy)
{
	(void)level; (void)method; (void)wbits; (void)memlevel; (void)strategy;
	memset(s, 0, sizeof(*s));
	s->toy_is_enc = 1;
	toy_enc_init(&s->toy_enc);
	return Z_OK;
}

static int inflateInit2(z_stream *s, int wbits)
{
	(void)wbits;
	memset(s, 0, sizeof(*s));
	toy_dec_init(&s->toy_dec);
	return Z_OK;
}

static int deflate(z_stream *s, int flush)
{
	size_t c, p;
	int r = toy_enc_step(&s->toy_enc, s->next_in, s->avail_in, s->next_out, s->avail_out,
			     flush == Z_FINISH, &c, &p);
	s->next_in += c; s->avail_in -= c; s->total_in += c;
	s->next_out += p; s->avail_out -= p; s->total_out += p;
	return toy_z_map(r);
}

static int inflate(z_stream *s, int flush)
{
	size_t c, p;
	int r;
	if (s->toy_bad)
		return Z_DATA_ERROR;
	r = toy_dec_step(&s->toy_dec, s->next_in, s->avail_in, s->next_out, s->avail_out,
			     flush == Z_FINISH, &c, &p);
	s->next_in += c; s->avail_in -= c; s->total_in += c;
	s->next_out += p; s->avail_out -= p; s->total_out += p;
	if (r == TOY_ERR)
		s->toy_bad = 1;
	return toy_z_map(r);
}

static int deflateReset(z_stream *s)
{
	toy_enc_reset(&s->toy_enc);
	s->total_in = s->total_out = 0;
	return Z_OK;
}

static int inflateReset(z_stream *s)
{
	toy_dec_reset(&s->toy_dec);
	s->toy_bad = 0;
	s->total_in = s->total_out = 0;
	return Z_OK;
}

static int deflateEnd(z_stream *s) { toy_enc_free(&s->toy_enc); return Z_OK; }
static int inflateEnd(z_stream *s) { (void)s; return Z_OK; }
#endif
