/* C15 component harness: stand-in for <zstd.h> (only what zstd.c uses).
 * Return value: 0 = TOY_END ("frame complete and flushed"), error code for
 * TOY_ERR, otherwise a positive hint.  Like libzstd the decoder starts the
 * next frame by itself. */
#ifndef C15_FAKE_ZSTD_H
#define C15_FAKE_ZSTD_H
#include "../toy.h"

typedef struct { const void *src; size_t size; size_t pos; } ZSTD_inBuffer;
typedef struct { void *dst; size_t size; size_t pos; } ZSTD_outBuffer;
typedef enum { ZSTD_e_continue = 0, ZSTD_e_flush = 1, ZSTD_e_end = 2 } ZSTD_EndDirective;
typedef struct { toy_enc_t e; } ZSTD_CStream;
typedef struct { toy_dec_t d; int bad; /* sticky error, see zlib.h */ } ZSTD_DStream;

static ZSTD_CStream *ZSTD_createCStream(void)
{
	ZSTD_CStream *c = calloc(1, sizeof(*c));
	if (c) toy_enc_init(&c->e);
	return c;
}
static ZSTD_DStream *ZSTD_createDStream(void)
{
	ZSTD_DStream *d = calloc(1, sizeof(*d));
	if (d) toy_dec_init(&d->d);
	return d;
}
static size_t ZSTD_freeCStream(ZSTD_CStream *c) { if (c) { toy_enc_free(&c->e); free(c); } return 0; }
static size_t ZSTD_freeDStream(ZSTD_DStream *d) { free(d); return 0; }
/* decoder resource parameters: the toy codec has no window, the calls are accepted and ignored (their effect on the real
   library is measured by gen_limits.c and judged by the `limits` leg) */
typedef ZSTD_DStream ZSTD_DCtx;
typedef enum { ZSTD_d_windowLogMax = 100 } ZSTD_dParameter;
#define ZSTD_WINDOWLOG_LIMIT_DEFAULT 27
static size_t ZSTD_DCtx_setParameter(ZSTD_DCtx *d, ZSTD_dParameter p, int v) { (void)d; (void)p; (void)v; return 0; }
static size_t ZSTD_DCtx_setMaxWindowSize(ZSTD_DCtx *d, size_t n) { (void)d; (void)n; return 0; }
static unsigned ZSTD_isError(size_t r) { return r > (size_t)-120; }

static size_t toy_zstd_errcode(void)
{
	static unsigned n;
	return (size_t)0 - (size_t)(1 + (n++ % 100));	/* ZSTD error codes are -1 .. -(ZSTD_error_maxCode - 1) */
}

static size_t ZSTD_compressStream2(ZSTD_CStream *c, ZSTD_outBuffer *o, ZSTD_inBuffer *i, ZSTD_EndDirective dir)
{
	size_t cn, pr;
	int r = toy_enc_step(&c->e, (const unsigned char *)i->src + i->pos, i->size - i->pos,
			     (unsigned char *)o->dst + o->pos, o->size - o->pos, dir == ZSTD_e_end, &cn, &pr);
	i->pos += cn; o->pos += pr;
	if (r == TOY_END) return 0;
	if (r == TOY_ERR) return toy_zstd_errcode();
	return 1;
}

static size_t ZSTD_decompressStream(ZSTD_DStream *d, ZSTD_outBuffer *o, ZSTD_inBuffer *i)
{
	size_t cn, pr;
	int r;
	if (d->bad)
		return toy_zstd_errcode();
	r = toy_dec_step(&d->d, (const unsigned char *)i->src + i->pos, i->size - i->pos,
			     (unsigned char *)o->dst + o->pos, o->size - o->pos, 0, &cn, &pr);
	i->pos += cn; o->pos += pr;
	if (r == TOY_END) return 0;
	if (r == TOY_ERR) { d->bad = 1; return toy_zstd_errcode(); }
	return 1;
}
#endif
