/* C15 component harness: stand-in for <bzlib.h> (only what bzip2.c uses).
 * libbz2 has no "no progress" return code: TOY_BUF is reported as BZ_OK /
 * BZ_RUN_OK / BZ_FINISH_OK, and BZ2_bzDecompress has no flush argument. */
#ifndef C15_FAKE_BZLIB_H
#define C15_FAKE_BZLIB_H
#include "../toy.h"

#define BZ_RUN 0
#define BZ_FLUSH 1
#define BZ_FINISH 2
#define BZ_OK 0
#define BZ_RUN_OK 1
#define BZ_FLUSH_OK 2
#define BZ_FINISH_OK 3
#define BZ_STREAM_END 4
#define BZ_SEQUENCE_ERROR (-1)
#define BZ_PARAM_ERROR (-2)
#define BZ_MEM_ERROR (-3)
#define BZ_DATA_ERROR (-4)
#define BZ_DATA_ERROR_MAGIC (-5)
#define BZ_IO_ERROR (-6)
#define BZ_UNEXPECTED_EOF (-7)
#define BZ_OUTBUFF_FULL (-8)
#define BZ_CONFIG_ERROR (-9)

typedef struct {
	char *next_in;
	unsigned int avail_in;
	unsigned int total_in_lo32;
	unsigned int total_in_hi32;
	char *next_out;
	unsigned int avail_out;
	unsigned int total_out_lo32;
	unsigned int total_out_hi32;
	void *state;
	int toy_bad;	/* sticky error, see zlib.h */
	toy_enc_t toy_enc;
	toy_dec_t toy_dec;
} bz_stream;

static int BZ2_bzCompressInit(bz_stream *s, int level, int verbosity, int wf)
{
	(void)level; (void)verbosity; (void)wf;
	s->total_in_lo32 = s->total_in_hi32 = s->total_out_lo32 = s->total_out_hi32 = 0;
	toy_enc_init(&s->toy_enc);
	return BZ_OK;
}

static int BZ2_bzDecompressInit(bz_stream *s, int verbosity, int small)
{
	(void)verbosity; (void)small;
	s->toy_bad = 0;
	s->total_in_lo32 = s->total_in_hi32 = s->total_out_lo32 = s->total_out_hi32 = 0;
	toy_dec_init(&s->toy_dec);
	return BZ_OK;
}

static int toy_bz_errcode(void)
{
	static const int codes[] = { BZ_DATA_ERROR, BZ_DATA_ERROR_MAGIC, BZ_MEM_ERROR, BZ_PARAM_ERROR,
				     BZ_SEQUENCE_ERROR, BZ_IO_ERROR, BZ_UNEXPECTED_EOF, BZ_CONFIG_ERROR };
	static unsigned n;
	return codes[n++ % (sizeof(codes) / sizeof(codes[0]))];
}

static int BZ2_bzCompress(bz_stream *s, int action)
{
	size_t c, p;
	int r = toy_enc_step(&s->toy_enc, (unsigned char *)s->next_in, s->avail_in,
			     (unsigned char *)s->next_out, s->avail_out, action == BZ_FINISH, &c, &p);
	s->next_in += c; s->avail_in -= c; s->total_in_lo32 += c;
	s->next_out += p; s->avail_out -= p; s->total_out_lo32 += p;
	if (r == TOY_END) return BZ_STREAM_END;
	if (r == TOY_ERR) return toy_bz_errcode();
	return action == BZ_FINISH ? BZ_FINISH_OK : (action == BZ_FLUSH ? BZ_FLUSH_OK : BZ_RUN_OK);
}

static int BZ2_bzDecompress(bz_stream *s)
{
	size_t c, p;
	int r;
	if (s->toy_bad)
		return BZ_DATA_ERROR;
	r = toy_dec_step(&s->toy_dec, (unsigned char *)s->next_in, s->avail_in,
			     (unsigned char *)s->next_out, s->avail_out, 0, &c, &p);
	s->next_in += c; s->avail_in -= c; s->total_in_lo32 += c;
	s->next_out += p; s->avail_out -= p; s->total_out_lo32 += p;
	if (r == TOY_END) return BZ_STREAM_END;
	if (r == TOY_ERR) { s->toy_bad = 1; return toy_bz_errcode(); }
	return BZ_OK;
}

static int BZ2_bzCompressEnd(bz_stream *s) { toy_enc_free(&s->toy_enc); return BZ_OK; }
static int BZ2_bzDecompressEnd(bz_stream *s) { (void)s; return BZ_OK; }
#endif
