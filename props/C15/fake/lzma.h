/* C15 component harness: stand-in for <lzma.h> (only what xz.c uses). */
#ifndef C15_FAKE_LZMA_H
#define C15_FAKE_LZMA_H
#include <stdint.h>
#include <stdbool.h>
#include "../toy.h"

typedef uint64_t lzma_vli;
typedef enum { LZMA_OK = 0, LZMA_STREAM_END = 1, LZMA_NO_CHECK = 2, LZMA_UNSUPPORTED_CHECK = 3,
	       LZMA_GET_CHECK = 4, LZMA_MEM_ERROR = 5, LZMA_MEMLIMIT_ERROR = 6, LZMA_FORMAT_ERROR = 7,
	       LZMA_OPTIONS_ERROR = 8, LZMA_DATA_ERROR = 9, LZMA_BUF_ERROR = 10, LZMA_PROG_ERROR = 11 } lzma_ret;
typedef enum { LZMA_RUN = 0, LZMA_SYNC_FLUSH = 1, LZMA_FULL_FLUSH = 2, LZMA_FINISH = 3 } lzma_action;
typedef enum { LZMA_CHECK_NONE = 0, LZMA_CHECK_CRC32 = 1 } lzma_check;
typedef struct { lzma_vli id; void *options; } lzma_filter;
typedef struct { int dummy; } lzma_options_lzma;

#define LZMA_VLI_UNKNOWN UINT64_MAX
#define LZMA_FILTER_X86 4
#define LZMA_FILTER_POWERPC 5
#define LZMA_FILTER_IA64 6
#define LZMA_FILTER_ARM 7
#define LZMA_FILTER_ARMTHUMB 8
#define LZMA_FILTER_SPARC 9
#define LZMA_FILTER_LZMA2 0x21
#define LZMA_PRESET_EXTREME 0x80000000U

typedef struct {
	const uint8_t *next_in;
	size_t avail_in;
	uint64_t total_in;
	uint8_t *next_out;
	size_t avail_out;
	uint64_t total_out;
	int toy_is_enc;
	int toy_bad;	/* sticky error, see zlib.h */
	toy_enc_t toy_enc;
	toy_dec_t toy_dec;
} lzma_stream;

static bool lzma_lzma_preset(lzma_options_lzma *o, uint32_t preset) { (void)o; (void)preset; return false; }

static lzma_ret lzma_stream_encoder(lzma_stream *s, const lzma_filter *f, lzma_check c)
{
	(void)f; (void)c;
	/* like lzma_strm_init: counters restart, buffers untouched */
	s->total_in = s->total_out = 0;
	s->toy_is_enc = 1;
	toy_enc_init(&s->toy_enc);
	return LZMA_OK;
}

/* decoder resource queries (ignored by the toy codec; see gen_limits.c) */
#define LZMA_TELL_NO_CHECK 0x01U
#define LZMA_TELL_UNSUPPORTED_CHECK 0x02U
#define LZMA_TELL_ANY_CHECK 0x04U
#define LZMA_CONCATENATED 0x08U
static uint64_t lzma_easy_decoder_memusage(uint32_t preset) { (void)preset; return UINT64_C(68222976); }
static uint64_t lzma_physmem(void) { return UINT64_C(1) << 33; }

static lzma_ret lzma_stream_decoder(lzma_stream *s, uint64_t memlimit, uint32_t flags)
{
	(void)memlimit; (void)flags;
	s->total_in = s->total_out = 0;
	s->toy_is_enc = 0;
	s->toy_bad = 0;
	toy_dec_init(&s->toy_dec);
	return LZMA_OK;
}

static lzma_ret toy_lzma_errcode(void)
{
	static const lzma_ret codes[] = { LZMA_DATA_ERROR, LZMA_FORMAT_ERROR, LZMA_MEM_ERROR, LZMA_MEMLIMIT_ERROR,
					  LZMA_OPTIONS_ERROR, LZMA_PROG_ERROR };
	static unsigned n;
	return codes[n++ % (sizeof(codes) / sizeof(codes[0]))];
}

static lzma_ret lzma_code(lzma_stream *s, lzma_action a)
{
	size_t c, p;
	int r;
	if (s->toy_bad)
		return LZMA_DATA_ERROR;
	if (s->toy_is_enc)
		r = toy_enc_step(&s->toy_enc, s->next_in, s->avail_in, s->next_out, s->avail_out,
				 a == LZMA_FINISH, &c, &p);
	else
		r = toy_dec_step(&s->toy_dec, s->next_in, s->avail_in, s->next_out, s->avail_out,
				 a == LZMA_FINISH, &c, &p);
	s->next_in += c; s->avail_in -= c; s->total_in += c;
	s->next_out += p; s->avail_out -= p; s->total_out += p;
	switch (r) {
	case TOY_OK: return LZMA_OK;
	case TOY_END: return LZMA_STREAM_END;
	case TOY_BUF: return LZMA_BUF_ERROR;
	default: s->toy_bad = 1; return toy_lzma_errcode();
	}
}

static void lzma_end(lzma_stream *s)
{
	if (s->toy_is_enc)
		toy_enc_free(&s->toy_enc);
}
#endif
