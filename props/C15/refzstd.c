/* C15 reference zstd (de)compressor on the SYSTEM libzstd -- independent of /repo.
 *   refzstd d                        stdin -> stdout, all frames; exit 0 = input ended exactly at a
 *                                    frame end, 3 = input ended inside a frame, 2 = corrupt
 *   refzstd c LEVEL CHECKSUM [OFF..] one frame; a block boundary (ZSTD_e_flush) is forced at the
 *                                    given plain offsets
 *   refzstd w WINDOWLOG LDM          one frame with the given window log (long distance matching on/off) */
#include <stdio.h>
#include <stdlib.h>
#include <string.h>
#include <zstd.h>

static unsigned char *slurp(size_t *n)
{
	size_t cap = 1 << 16, len = 0, r;
	unsigned char *p = malloc(cap);
	while ((r = fread(p + len, 1, cap - len, stdin)) > 0) {
		len += r;
		if (len == cap) { cap *= 2; p = realloc(p, cap); }
	}
	*n = len;
	return p;
}

int main(int argc, char **argv)
{
	size_t n, ret = 0;
	unsigned char *in = slurp(&n);
	size_t ocap = ZSTD_DStreamOutSize() > ZSTD_CStreamOutSize() ? ZSTD_DStreamOutSize() : ZSTD_CStreamOutSize();
	unsigned char *obuf = malloc(ocap);

	if (argc >= 2 && strcmp(argv[1], "d") == 0) {
		ZSTD_DStream *d = ZSTD_createDStream();
		ZSTD_inBuffer ib = { in, n, 0 };
		int mid = 0;
		while (ib.pos < ib.size || mid) {
			ZSTD_outBuffer ob = { obuf, ocap, 0 };
			size_t before = ib.pos;
			ret = ZSTD_decompressStream(d, &ob, &ib);
			if (ZSTD_isError(ret))
				return 2;
			fwrite(obuf, 1, ob.pos, stdout);
			mid = (ret != 0);
			if (ib.pos == ib.size && ob.pos == 0 && before == ib.pos)
				break;
		}
		fflush(stdout);
		return mid ? 3 : 0;
	}
	if (argc >= 4 && strcmp(argv[1], "w") == 0) {
		/* refzstd w WINDOWLOG LDM: one frame, content size not announced (two calls), so that the frame header
		   carries the requested window */
		ZSTD_CCtx *c = ZSTD_createCCtx();
		size_t half = n / 2;
		int k;
		ZSTD_CCtx_setParameter(c, ZSTD_c_compressionLevel, 1);
		if (ZSTD_isError(ZSTD_CCtx_setParameter(c, ZSTD_c_windowLog, atoi(argv[2]))))
			return 2;
		ZSTD_CCtx_setParameter(c, ZSTD_c_enableLongDistanceMatching, atoi(argv[3]));
		for (k = 0; k < 2; ++k) {
			ZSTD_inBuffer ib = { k ? in + half : in, k ? n - half : half, 0 };
			do {
				ZSTD_outBuffer ob = { obuf, ocap, 0 };
				ret = ZSTD_compressStream2(c, &ob, &ib, k ? ZSTD_e_end : ZSTD_e_flush);
				if (ZSTD_isError(ret))
					return 2;
				fwrite(obuf, 1, ob.pos, stdout);
			} while (ret != 0 || ib.pos < ib.size);
		}
		fflush(stdout);
		return 0;
	}
	if (argc >= 4 && strcmp(argv[1], "c") == 0) {
		ZSTD_CCtx *c = ZSTD_createCCtx();
		size_t pos = 0;
		int i = 4;
		ZSTD_CCtx_setParameter(c, ZSTD_c_compressionLevel, atoi(argv[2]));
		ZSTD_CCtx_setParameter(c, ZSTD_c_checksumFlag, atoi(argv[3]));
		for (;;) {
			size_t next = n;
			ZSTD_EndDirective dir = ZSTD_e_end;
			ZSTD_inBuffer ib;
			/* next usable flush offset (offsets are given in increasing order) */
			while (i < argc) {
				size_t o = strtoul(argv[i++], NULL, 10);
				if (o > pos && o < n) { next = o; dir = ZSTD_e_flush; break; }
			}
			ib.src = in + pos; ib.size = next - pos; ib.pos = 0;
			do {
				ZSTD_outBuffer ob = { obuf, ocap, 0 };
				ret = ZSTD_compressStream2(c, &ob, &ib, dir);
				if (ZSTD_isError(ret))
					return 2;
				fwrite(obuf, 1, ob.pos, stdout);
			} while (ret != 0 || ib.pos < ib.size);
			pos = next;
			if (dir == ZSTD_e_end)
				break;
		}
		fflush(stdout);
		return 0;
	}
	return 64;
}
