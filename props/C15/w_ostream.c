/* ostream.c of the working tree, with access to its private parts */
#define ostream_xfrm_create c15_ostream_xfrm_create
#include "lib/xfrm/src/ostream.c"
size_t c15_ostream_bufsz(void) { return BUFSZ; }
size_t c15_ostream_inbuf_used(sqfs_ostream_t *s) { return ((ostream_xfrm_t *)s)->inbuf_used; }
