/* xz.c of the working tree on top of the toy codec (fake/lzma.h) */
#define compressor_stream_xz_create toy_xz_comp_create
#define decompressor_stream_xz_create toy_xz_decomp_create
#include "lib/xfrm/src/xz.c"
