/* istream.c of the working tree, with access to its private parts */
#define istream_xfrm_create c15_istream_xfrm_create
#include "lib/xfrm/src/istream.c"
size_t c15_istream_bufsz(void) { return BUFSZ; }
