/* C15 toy streaming codec "library" -- the C twin of coq/C15/ToyCodec.v.
 * Keep the two in lock-step: the component tie compares them exactly.
 * See ToyCodec.v for the format and the knobs. */
#ifndef C15_TOY_H
#define C15_TOY_H

#include <stddef.h>
#include <stdlib.h>
#include <string.h>

enum { TOY_OK = 0, TOY_END = 1, TOY_BUF = 2, TOY_ERR = 3 };

typedef struct {
	unsigned maxin, maxout;
	int finbuf;		/* decoder */
	unsigned blk;		/* encoder */
	int greedy, finrun;
} toy_knobs_t;

/* set by the harness before a stream object is created */
extern toy_knobs_t toy_knobs;

/* ------------------------------ decoder ------------------------------ */
enum { D_MAGIC, D_TAG, D_LITLEN, D_LIT, D_RUNLO, D_RUNHI, D_RUNB, D_RUNOUT, D_CHK };

typedef struct {
	int ph;
	int fin;
	unsigned k;		/* DLit k / DRunOut k / DRunHi lo / DRunB n */
	unsigned char b;
	unsigned sum;
	int mid;
	toy_knobs_t kn;
} toy_dec_t;

static inline void toy_dec_reset(toy_dec_t *d)
{
	d->ph = D_MAGIC;
	d->fin = 0;
	d->k = 0;
	d->b = 0;
	d->sum = 0;
	d->mid = 0;
}

static inline void toy_dec_init(toy_dec_t *d)
{
	d->kn = toy_knobs;
	toy_dec_reset(d);
}

static inline size_t toy_lim(unsigned knob, size_t avail)
{
	if (knob == 0)
		return avail;
	return knob < avail ? knob : avail;
}

static inline int toy_dec_step(toy_dec_t *d, const unsigned char *in, size_t in_len,
			       unsigned char *out, size_t cap, int full,
			       size_t *cons_out, size_t *prod_out)
{
	size_t ib = toy_lim(d->kn.maxin, in_len);
	size_t ob = toy_lim(d->kn.maxout, cap);
	size_t cons = 0, prod = 0;
	int stop = 0;		/* 0 more, 1 end, 2 err */

	for (;;) {
		if (d->ph == D_RUNOUT) {
			size_t m;
			if (d->k == 0) {
				if (d->fin) {
					d->ph = D_MAGIC;
					d->sum = 0;
					stop = 1;
					break;
				}
				d->ph = D_TAG;
				continue;
			}
			if (ob == 0)
				break;
			m = d->k < ob ? d->k : ob;
			memset(out + prod, d->b, m);
			prod += m;
			ob -= m;
			d->k -= m;
			d->sum = (d->sum + (m % 256) * d->b) % 256;
			continue;
		}
		if (d->ph == D_LIT) {
			unsigned char c;
			if (d->k == 0) {
				d->ph = D_TAG;
				continue;
			}
			if (cons == in_len)
				break;
			if (ib == 0 || ob == 0)
				break;
			c = in[cons++];
			ib--;
			out[prod++] = c;
			ob--;
			d->k--;
			d->sum = (d->sum + c) % 256;
			continue;
		}
		{
			unsigned v;
			if (cons == in_len)
				break;
			if (ib == 0)
				break;
			v = in[cons++];
			ib--;
			switch (d->ph) {
			case D_MAGIC:
				if (v == 167) d->ph = D_TAG; else stop = 2;
				break;
			case D_TAG:
				if (v == 1) d->ph = D_LITLEN;
				else if (v == 2) { d->ph = D_RUNLO; d->fin = 0; }
				else if (v == 3) { d->ph = D_RUNLO; d->fin = 1; }
				else if (v == 0) d->ph = D_CHK;
				else stop = 2;
				break;
			case D_LITLEN:
				if (v == 0) stop = 2; else { d->ph = D_LIT; d->k = v; }
				break;
			case D_RUNLO:
				d->ph = D_RUNHI;
				d->k = v;
				break;
			case D_RUNHI:
				d->k = d->k + 256 * v;
				if (d->k == 0 && !d->fin) stop = 2; else d->ph = D_RUNB;
				break;
			case D_RUNB:
				d->ph = D_RUNOUT;
				d->b = (unsigned char)v;
				break;
			case D_CHK:
				if (v == d->sum) {
					d->ph = D_MAGIC;
					d->sum = 0;
					stop = 1;
				} else {
					stop = 2;
				}
				break;
			default:
				stop = 2;
				break;
			}
			if (stop)
				break;
		}
	}

	if (cons > 0)
		d->mid = 1;
	*cons_out = cons;
	*prod_out = prod;
	if (stop == 2)
		return TOY_ERR;
	if (stop == 1)
		return TOY_END;
	if ((cons == 0 && prod == 0) || (d->kn.finbuf && full))
		return TOY_BUF;
	return TOY_OK;
}

/* ------------------------------ encoder ------------------------------ */
typedef struct {
	unsigned char ibuf[256];
	size_t ibuf_len;
	unsigned char *pend;
	size_t pend_off, pend_len, pend_cap;	/* pending = pend[pend_off .. pend_len) */
	unsigned sum;
	int started, ending, mid;
	toy_knobs_t kn;
} toy_enc_t;

static inline void toy_enc_reset(toy_enc_t *e)
{
	e->ibuf_len = 0;
	e->pend_off = e->pend_len = 0;
	e->sum = 0;
	e->started = e->ending = e->mid = 0;
}

static inline void toy_enc_init(toy_enc_t *e)
{
	memset(e, 0, sizeof(*e));
	e->kn = toy_knobs;
}

static inline void toy_enc_free(toy_enc_t *e)
{
	free(e->pend);
	e->pend = NULL;
	e->pend_cap = 0;
}

static inline void toy_enc_push(toy_enc_t *e, const unsigned char *p, size_t n)
{
	if (e->pend_off == e->pend_len)
		e->pend_off = e->pend_len = 0;
	if (e->pend_len + n > e->pend_cap) {
		e->pend_cap = (e->pend_len + n) * 2 + 64;
		e->pend = realloc(e->pend, e->pend_cap);
		if (e->pend == NULL)
			abort();
	}
	memcpy(e->pend + e->pend_len, p, n);
	e->pend_len += n;
}

static inline void toy_enc_magic(toy_enc_t *e)
{
	if (!e->started) {
		unsigned char m = 167;
		toy_enc_push(e, &m, 1);
		e->started = 1;
	}
}

static inline void toy_enc_block(toy_enc_t *e, int last)
{
	unsigned char hdr[4];
	size_t i;
	int same = e->ibuf_len > 0;

	for (i = 1; i < e->ibuf_len; ++i) {
		if (e->ibuf[i] != e->ibuf[0])
			same = 0;
	}

	toy_enc_magic(e);
	for (i = 0; i < e->ibuf_len; ++i)
		e->sum = (e->sum + e->ibuf[i]) % 256;

	if (same && e->ibuf_len >= 2) {
		hdr[0] = (last && e->kn.finrun) ? 3 : 2;
		hdr[1] = (unsigned char)e->ibuf_len;
		hdr[2] = 0;
		hdr[3] = e->ibuf[0];
		toy_enc_push(e, hdr, 4);
		if (hdr[0] == 3)
			e->ending = 1;
	} else {
		hdr[0] = 1;
		hdr[1] = (unsigned char)e->ibuf_len;
		toy_enc_push(e, hdr, 2);
		toy_enc_push(e, e->ibuf, e->ibuf_len);
	}
	e->ibuf_len = 0;
}

enum { A_NONE, A_BLOCK, A_BLOCK_LAST, A_TAKE, A_ENDMARK };

static inline int toy_enc_step(toy_enc_t *e, const unsigned char *in, size_t in_len,
			       unsigned char *out, size_t cap, int full,
			       size_t *cons_out, size_t *prod_out)
{
	size_t ib = toy_lim(e->kn.maxin, in_len);
	size_t ob = toy_lim(e->kn.maxout, cap);
	size_t cons = 0, prod = 0;
	int ended = 0;

	for (;;) {
		int act, pending = e->pend_len > e->pend_off;
		int noinput = (cons == in_len);

		if (e->ending && !pending) {
			toy_enc_reset(e);
			ended = 1;
			break;
		}

		if (e->ending)
			act = A_NONE;
		else if (!(e->ibuf_len < e->kn.blk))
			act = (full && noinput) ? A_BLOCK_LAST : A_BLOCK;
		else if (!noinput)
			act = (ib == 0) ? A_NONE : A_TAKE;
		else if (full)
			act = (e->ibuf_len == 0) ? A_ENDMARK : A_BLOCK_LAST;
		else
			act = A_NONE;

		if (e->kn.greedy) {
			if (act == A_NONE) {
				if (!(pending && ob != 0))
					break;
				act = -1;	/* emit */
			}
		} else {
			if (pending) {
				if (ob == 0)
					break;
				act = -1;
			} else if (act == A_NONE) {
				break;
			}
		}

		if (act == -1) {
			size_t m = e->pend_len - e->pend_off;
			if (m > ob)
				m = ob;
			memcpy(out + prod, e->pend + e->pend_off, m);
			e->pend_off += m;
			prod += m;
			ob -= m;
		} else if (act == A_BLOCK || act == A_BLOCK_LAST) {
			toy_enc_block(e, act == A_BLOCK_LAST);
		} else if (act == A_TAKE) {
			e->ibuf[e->ibuf_len++] = in[cons++];
			ib--;
			e->mid = 1;
		} else if (act == A_ENDMARK) {
			unsigned char t[2];
			toy_enc_magic(e);
			t[0] = 0;
			t[1] = (unsigned char)e->sum;
			toy_enc_push(e, t, 2);
			e->ending = 1;
		}
	}

	*cons_out = cons;
	*prod_out = prod;
	if (ended)
		return TOY_END;
	if (cons == 0 && prod == 0)
		return TOY_BUF;
	return TOY_OK;
}

#endif
