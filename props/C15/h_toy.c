/* C15 component harness.  Drives the working tree's istream_xfrm / ostream_xfrm
 * (w_istream.c / w_ostream.c include the sources) on memory streams, with
 *   - the working tree's gzip.c / xz.c / bzip2.c / zstd.c compiled on top of the
 *     toy codec library (d_*.c + fake/*.h + toy.h)       drivers gzip xz bzip2 zstd
 *   - the same drivers on the real libraries (from all.a) drivers rgzip rxz rbzip2 rzstd
 * One case per stdin line, one result line per case (see props/C15/check.py). */
#include "config.h"
#include "compat.h"
#include "sqfs/io.h"
#include "sqfs/error.h"
#include "xfrm/compress.h"
#include "xfrm/wrap.h"
#include "toy.h"

#include <stdio.h>
#include <stdlib.h>
#include <string.h>
#include <stdint.h>

toy_knobs_t toy_knobs;

xfrm_stream_t *toy_gzip_comp_create(const compressor_config_t *cfg);
xfrm_stream_t *toy_gzip_decomp_create(void);
xfrm_stream_t *toy_xz_comp_create(const compressor_config_t *cfg);
xfrm_stream_t *toy_xz_decomp_create(void);
xfrm_stream_t *toy_bzip2_comp_create(const compressor_config_t *cfg);
xfrm_stream_t *toy_bzip2_decomp_create(void);
xfrm_stream_t *toy_zstd_comp_create(const compressor_config_t *cfg);
xfrm_stream_t *toy_zstd_decomp_create(void);

sqfs_istream_t *c15_istream_xfrm_create(sqfs_istream_t *strm, xfrm_stream_t *xfrm);
sqfs_ostream_t *c15_ostream_xfrm_create(sqfs_ostream_t *strm, xfrm_stream_t *xfrm);
size_t c15_istream_bufsz(void);
size_t c15_ostream_bufsz(void);
size_t c15_ostream_inbuf_used(sqfs_ostream_t *s);
int c15_tar_probe(const sqfs_u8 *data, size_t size);

/* ---------------------------------------------------------------- */
typedef struct { unsigned char *p; size_t n, cap; } buf_t;

static void buf_add(buf_t *b, const void *p, size_t n)
{
	if (b->n + n > b->cap) {
		b->cap = (b->n + n) * 2 + 256;
		b->p = realloc(b->p, b->cap);
		if (!b->p) abort();
	}
	if (p) memcpy(b->p + b->n, p, n); else memset(b->p + b->n, 0, n);
	b->n += n;
}

static void hash2(const unsigned char *p, size_t n, unsigned long *h1, unsigned long *h2)
{
	unsigned long a = 7, b = 11;
	size_t i;
	for (i = 0; i < n; ++i) {
		a = (a * 31337UL + p[i] + 1) % 2147483647UL;
		b = (b * 65599UL + p[i] + 1) % 2147483629UL;
	}
	*h1 = a; *h2 = b;
}

static int hv(int c) { return c <= '9' ? c - '0' : (c | 32) - 'a' + 10; }

/* data spec: '-' | item('+'item)*   item: H<hex> | R<count>:<byte> | P<count>:<seed> | F<path> */
static void parse_data(const char *s, buf_t *out)
{
	out->n = 0;
	if (strcmp(s, "-") == 0)
		return;
	while (*s) {
		char kind = *s++;
		if (kind == 'H') {
			while (*s && *s != '+') {
				unsigned char c = (unsigned char)(hv(s[0]) * 16 + hv(s[1]));
				buf_add(out, &c, 1);
				s += 2;
			}
		} else if (kind == 'R') {
			unsigned long cnt = strtoul(s, (char **)&s, 10), v, i;
			s++;
			v = strtoul(s, (char **)&s, 10);
			for (i = 0; i < cnt; ++i) { unsigned char c = (unsigned char)v; buf_add(out, &c, 1); }
		} else if (kind == 'P') {
			unsigned long cnt = strtoul(s, (char **)&s, 10), x, i;
			s++;
			x = strtoul(s, (char **)&s, 10);
			for (i = 0; i < cnt; ++i) {
				unsigned char c;
				x = (x * 1103515245UL + 12345UL) % 2147483648UL;
				c = (unsigned char)((x >> 16) & 0xff);
				buf_add(out, &c, 1);
			}
		} else if (kind == 'F') {
			char path[4096];
			size_t l = 0;
			FILE *f;
			while (*s && *s != '+' && l + 1 < sizeof(path)) path[l++] = *s++;
			path[l] = 0;
			f = fopen(path, "rb");
			if (f) {
				unsigned char tmp[65536];
				size_t r;
				while ((r = fread(tmp, 1, sizeof(tmp), f)) > 0) buf_add(out, tmp, r);
				fclose(f);
			}
		}
		if (*s == '+') s++;
	}
}

/* ---------------- memory istream with a window schedule ---------------- */
typedef struct {
	sqfs_istream_t base;
	const unsigned char *data;
	size_t size, pos;
	const size_t *ws;
	size_t nws, iws;
} mem_istream_t;

static int mi_get(sqfs_istream_t *s, const sqfs_u8 **out, size_t *size, size_t want)
{
	mem_istream_t *m = (mem_istream_t *)s;
	size_t left = m->size - m->pos, w = left;
	(void)want;
	if (m->iws < m->nws) {
		w = m->ws[m->iws++];
		if (w < 1) w = 1;
		if (w > left) w = left;
	}
	*out = m->data + m->pos;
	*size = w;
	return (left == 0) ? 1 : 0;
}

static void mi_adv(sqfs_istream_t *s, size_t count)
{
	mem_istream_t *m = (mem_istream_t *)s;
	if (count > m->size - m->pos) { fputs("advance past end\n", stderr); abort(); }
	m->pos += count;
}

static const char *mi_name(sqfs_istream_t *s) { (void)s; return "mem"; }
static void mi_destroy(sqfs_object_t *o) { (void)o; }

/* ---------------- logging ostream ---------------- */
typedef struct {
	sqfs_ostream_t base;
	buf_t all;
	buf_t ev;	/* textual event log */
	int fail_after;	/* unused (C13 territory) */
} mem_ostream_t;

static int mo_append(sqfs_ostream_t *s, const void *data, size_t size)
{
	mem_ostream_t *m = (mem_ostream_t *)s;
	unsigned long h1, h2;
	char t[96];
	size_t before = m->all.n;
	buf_add(&m->all, data, size);
	hash2(m->all.p + before, size, &h1, &h2);
	snprintf(t, sizeof(t), "a%zu.%lu.%lu,", size, h1, h2);
	buf_add(&m->ev, t, strlen(t));
	return 0;
}

static int mo_flush(sqfs_ostream_t *s)
{
	mem_ostream_t *m = (mem_ostream_t *)s;
	buf_add(&m->ev, "f,", 2);
	return 0;
}

static const char *mo_name(sqfs_ostream_t *s) { (void)s; return "mem"; }
static void mo_destroy(sqfs_object_t *o) { (void)o; }

/* ---------------------------------------------------------------- */
static xfrm_stream_t *mk_stream(const char *drv, int comp)
{
	if (strcmp(drv, "gzip") == 0) return comp ? toy_gzip_comp_create(NULL) : toy_gzip_decomp_create();
	if (strcmp(drv, "xz") == 0) return comp ? toy_xz_comp_create(NULL) : toy_xz_decomp_create();
	if (strcmp(drv, "bzip2") == 0) return comp ? toy_bzip2_comp_create(NULL) : toy_bzip2_decomp_create();
	if (strcmp(drv, "zstd") == 0) return comp ? toy_zstd_comp_create(NULL) : toy_zstd_decomp_create();
	if (drv[0] == 'r') {
		int id = xfrm_compressor_id_from_name(drv + 1);
		if (id <= 0) return NULL;
		return comp ? compressor_stream_create(id, NULL) : decompressor_stream_create(id);
	}
	return NULL;
}

static size_t parse_csv(char *s, size_t *a, size_t *b, size_t max)
{
	size_t n = 0;
	if (strcmp(s, "-") == 0) return 0;
	while (*s && n < max) {
		a[n] = strtoul(s, &s, 10);
		if (b) {
			b[n] = 0;
			if (*s == ':') { s++; b[n] = strtoul(s, &s, 10); }
		}
		n++;
		if (*s == ',') s++;
	}
	return n;
}

#define MAXSCHED 65536
static size_t ws[MAXSCHED], wants[MAXSCHED], takes[MAXSCHED];

static void dump(const char *path, const unsigned char *p, size_t n)
{
	FILE *f = fopen(path, "wb");
	if (f) { fwrite(p, 1, n, f); fclose(f); }
}

static void case_istream(char **tok, int ntok)
{
	/* I drv maxin maxout finbuf data ws ops [>dump] */
	buf_t data = { 0 }, got = { 0 }, trace = { 0 };
	mem_istream_t mem;
	sqfs_istream_t *is;
	xfrm_stream_t *x;
	size_t nws, nops, i;
	unsigned long h1, h2;
	const char *end = "MORE";
	char t[64];

	if (ntok < 8) { puts("I BADCASE"); return; }
	memset(&toy_knobs, 0, sizeof(toy_knobs));
	toy_knobs.maxin = atoi(tok[2]);
	toy_knobs.maxout = atoi(tok[3]);
	toy_knobs.finbuf = atoi(tok[4]);
	parse_data(tok[5], &data);
	nws = parse_csv(tok[6], ws, NULL, MAXSCHED);
	nops = parse_csv(tok[7], wants, takes, MAXSCHED);

	memset(&mem, 0, sizeof(mem));
	sqfs_object_init(&mem, mi_destroy, NULL);
	mem.base.get_buffered_data = mi_get;
	mem.base.advance_buffer = mi_adv;
	mem.base.get_filename = mi_name;
	mem.data = data.p ? data.p : (const unsigned char *)"";
	mem.size = data.n;
	mem.ws = ws;
	mem.nws = nws;

	x = mk_stream(tok[1], 0);
	if (!x) { puts("I NODRIVER"); return; }
	is = c15_istream_xfrm_create((sqfs_istream_t *)&mem, x);
	sqfs_drop(x);

	for (i = 0; i < nops; ++i) {
		const sqfs_u8 *ptr;
		size_t size, tk;
		int ret = is->get_buffered_data(is, &ptr, &size, wants[i]);
		if (ret < 0) { end = "ERR"; break; }
		if (ret > 0) { end = "EOF"; break; }
		snprintf(t, sizeof(t), "%zu,", size);
		buf_add(&trace, t, strlen(t));
		tk = takes[i] < size ? takes[i] : size;
		buf_add(&got, ptr, tk);
		is->advance_buffer(is, tk);
	}
	hash2(got.p, got.n, &h1, &h2);
	buf_add(&trace, "", 1);
	if (strcmp(end, "ERR") == 0)
		printf("I ERR n=%zu h=%lu.%lu t=%s\n", got.n, h1, h2, (char *)trace.p);
	else
		printf("I %s n=%zu h=%lu.%lu rem=%zu t=%s\n", end, got.n, h1, h2, mem.size - mem.pos,
		       (char *)trace.p);
	if (ntok > 8 && tok[8][0] == '>')
		dump(tok[8] + 1, got.p, got.n);
	sqfs_drop(is);
	free(data.p); free(got.p); free(trace.p);
}

static void case_ostream(char **tok, int ntok)
{
	/* O drv blk maxin maxout greedy finrun chunks [>dump] ; chunks: ';'-separated data specs, Z<n> = append(NULL, n) */
	mem_ostream_t mem;
	sqfs_ostream_t *os;
	xfrm_stream_t *x;
	buf_t chunk = { 0 };
	unsigned long h1, h2;
	const char *res = "OK";
	char *s, *next;
	int ret = 0;

	if (ntok < 8) { puts("O BADCASE"); return; }
	memset(&toy_knobs, 0, sizeof(toy_knobs));
	toy_knobs.blk = atoi(tok[2]);
	if (toy_knobs.blk < 1) toy_knobs.blk = 1;
	if (toy_knobs.blk > 255) toy_knobs.blk = 255;
	toy_knobs.maxin = atoi(tok[3]);
	toy_knobs.maxout = atoi(tok[4]);
	toy_knobs.greedy = atoi(tok[5]);
	toy_knobs.finrun = atoi(tok[6]);

	memset(&mem, 0, sizeof(mem));
	sqfs_object_init(&mem, mo_destroy, NULL);
	mem.base.append = mo_append;
	mem.base.flush = mo_flush;
	mem.base.get_filename = mo_name;

	x = mk_stream(tok[1], 1);
	if (!x) { puts("O NODRIVER"); return; }
	os = c15_ostream_xfrm_create((sqfs_ostream_t *)&mem, x);
	sqfs_drop(x);

	for (s = tok[7]; s && *s; s = next) {
		next = strchr(s, ';');
		if (next) *next++ = 0;
		if (strcmp(s, "-") == 0 && !next)
			break;
		if (s[0] == 'Z') {
			ret = os->append(os, NULL, strtoul(s + 1, NULL, 10));
		} else {
			parse_data(s, &chunk);
			ret = os->append(os, chunk.p ? chunk.p : (unsigned char *)"", chunk.n);
		}
		if (ret) break;
	}
	if (ret == 0)
		ret = os->flush(os);
	if (ret) res = "ERR";
	hash2(mem.all.p, mem.all.n, &h1, &h2);
	buf_add(&mem.ev, "", 1);
	if (ret)
		puts("O ERR");
	else
		printf("O %s n=%zu h=%lu.%lu in=%zu ev=%s\n", res, mem.all.n, h1, h2,
		       c15_ostream_inbuf_used(os), (char *)mem.ev.p);
	if (ntok > 8 && tok[8][0] == '>')
		dump(tok[8] + 1, mem.all.p, mem.all.n);
	sqfs_drop(os);
	free(chunk.p); free(mem.all.p); free(mem.ev.p);
}

static void case_magic(char **tok, int ntok)
{
	buf_t data = { 0 };
	if (ntok < 2) { puts("M BADCASE"); return; }
	parse_data(tok[1], &data);
	printf("M %d %d\n", xfrm_compressor_id_from_magic(data.p ? data.p : (unsigned char *)"", data.n),
	       c15_tar_probe(data.p ? data.p : (unsigned char *)"", data.n));
	free(data.p);
}

int main(void)
{
	size_t cap = 1 << 20, len = 0;
	char *line = malloc(cap);
	int c;

	for (;;) {
		char *tok[12];
		int ntok = 0;
		char *s;
		len = 0;
		while ((c = getchar()) != EOF && c != '\n') {
			if (len + 2 > cap) { cap *= 2; line = realloc(line, cap); }
			line[len++] = (char)c;
		}
		if (c == EOF && len == 0)
			break;
		line[len] = 0;
		for (s = strtok(line, " "); s && ntok < 12; s = strtok(NULL, " "))
			tok[ntok++] = s;
		if (ntok == 0)
			continue;
		if (strcmp(tok[0], "I") == 0) case_istream(tok, ntok);
		else if (strcmp(tok[0], "O") == 0) case_ostream(tok, ntok);
		else if (strcmp(tok[0], "M") == 0) case_magic(tok, ntok);
		else if (strcmp(tok[0], "B") == 0) printf("B %zu %zu\n", c15_istream_bufsz(), c15_ostream_bufsz());
		else puts("? BADCASE");
		fflush(stdout);
	}
	return 0;
}
