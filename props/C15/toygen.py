"""C15: Python side of the toy codec (reference decoder = third opinion for the component
oracle) and the seeded generators of component cases (see ToyCodec.v for the format)."""
import random

MAGIC = 0xA7


# ----------------------------------------------------------------------------
# data specs understood by h_toy.c / driver.ml:  H<hex> | R<count>:<byte> | P<count>:<seed>
# ----------------------------------------------------------------------------
def lcg_bytes(count, seed):
    out = bytearray()
    x = seed
    for _ in range(count):
        x = (x * 1103515245 + 12345) % 2147483648
        out.append((x >> 16) & 0xFF)
    return bytes(out)


def spec_bytes(spec):
    if spec == "-":
        return b""
    out = bytearray()
    for it in spec.split("+"):
        if not it:
            continue
        k, rest = it[0], it[1:]
        if k == "H":
            out += bytes.fromhex(rest)
        elif k == "R":
            c, v = rest.split(":")
            out += bytes([int(v) & 255]) * int(c)
        elif k == "P":
            c, s = rest.split(":")
            out += lcg_bytes(int(c), int(s))
        elif k == "Z":
            out += b"\0" * int(rest)
        else:
            raise ValueError(spec)
    return bytes(out)


def H(b):
    return "H" + bytes(b).hex() if b else "-"


# ----------------------------------------------------------------------------
# reference decoder for a whole member sequence
# returns (plain bytes of the complete members, offset where parsing stopped, status)
#   status: "ok" (input is exactly a sequence of complete members), "trunc" (ends inside a
#   member that is well-formed so far), "bad" (malformed)
# plus the plain bytes a streaming decoder may have produced for the unfinished member
# ----------------------------------------------------------------------------
def ref_decode(z):
    out = bytearray()
    i = 0
    n = len(z)
    while i < n:
        start_out = len(out)
        if z[i] != MAGIC:
            return bytes(out), i, "bad", b""
        i += 1
        s = 0
        part = bytearray()
        while True:
            if i >= n:
                return bytes(out), i, "trunc", bytes(part)
            t = z[i]
            i += 1
            if t == 0:
                if i >= n:
                    return bytes(out), i, "trunc", bytes(part)
                if z[i] != s:
                    return bytes(out), i, "bad", bytes(part)
                i += 1
                break
            elif t == 1:
                if i >= n:
                    return bytes(out), i, "trunc", bytes(part)
                k = z[i]
                i += 1
                if k == 0:
                    return bytes(out), i, "bad", bytes(part)
                chunk = z[i:i + k]
                part += chunk
                s = (s + sum(chunk)) % 256
                i += len(chunk)
                if len(chunk) < k:
                    return bytes(out), i, "trunc", bytes(part)
            elif t in (2, 3):
                if i + 3 > n:
                    return bytes(out), n, "trunc", bytes(part)
                k = z[i] + 256 * z[i + 1]
                b = z[i + 2]
                i += 3
                if k == 0 and t == 2:
                    return bytes(out), i, "bad", bytes(part)
                part += bytes([b]) * k
                s = (s + k * b) % 256
                if t == 3:
                    break
            else:
                return bytes(out), i, "bad", bytes(part)
        out += part
        del start_out
    return bytes(out), i, "ok", b""


# ----------------------------------------------------------------------------
# building members
# ----------------------------------------------------------------------------
def lit_blocks(data, rnd, maxblk=255):
    out = bytearray()
    i = 0
    while i < len(data):
        k = min(len(data) - i, rnd.randint(1, maxblk))
        out += bytes([1, k]) + data[i:i + k]
        i += k
    return bytes(out)


def member(items, rnd, final_run=None):
    """items: list of ('L', bytes) | ('R', count, byte). final_run: (count, byte) or None"""
    z = bytearray([MAGIC])
    plain = bytearray()
    for it in items:
        if it[0] == "L":
            z += lit_blocks(it[1], rnd)
            plain += it[1]
        else:
            c, b = it[1], it[2]
            while c > 0:
                k = min(c, 65535)
                z += bytes([2, k & 255, k >> 8, b])
                plain += bytes([b]) * k
                c -= k
    if final_run is not None:
        c, b = final_run
        z += bytes([3, c & 255, c >> 8, b])
        plain += bytes([b]) * c
    else:
        z += bytes([0, sum(plain) % 256])
    return bytes(z), bytes(plain)


def rand_member(rnd, bufsz, big):
    items = []
    target = 0
    if big:
        # plain size around a multiple of bufsz
        target = bufsz * rnd.choice([1, 1, 2]) + rnd.choice([-515, -1, 0, 1, 2, 255, 512, 4097])
        target = max(target, 1)
    total = 0
    n = rnd.randint(0, 5)
    for _ in range(n):
        if rnd.random() < 0.5:
            l = rnd.choice([1, 2, 3, 7, 255, 256, 300, 700])
            items.append(("L", bytes(rnd.getrandbits(8) for _ in range(l))))
            total += l
        else:
            c = rnd.choice([1, 2, 5, 255, 256, 1000, 4096])
            items.append(("R", c, rnd.getrandbits(8)))
            total += c
    if big and total < target:
        rest = target - total
        # split the big run in two at a random place so that literal data sits around the boundary
        a = rnd.randint(0, rest)
        pos = rnd.randint(0, len(items))
        items.insert(pos, ("R", a, rnd.getrandbits(8))) if a else None
        tail = rest - a
        if tail:
            items.append(("R", tail, rnd.getrandbits(8)))
        if rnd.random() < 0.5:
            l = rnd.choice([1, 3, 600])
            items.append(("L", bytes(rnd.getrandbits(8) for _ in range(l))))
    fin = None
    if rnd.random() < 0.35:
        fin = (rnd.choice([0, 1, 2, 300, 5000, 65535]), rnd.getrandbits(8))
    return member(items, rnd, fin)


def sched(rnd, kind, n):
    if kind == 0:
        return []
    if kind == 1:
        return [rnd.randint(1, 4) for _ in range(n)]
    if kind == 2:
        return [rnd.choice([0, 1, 2, 3, 5, 8, 100, 1000, 100000]) for _ in range(n)]
    return [rnd.choice([7, 131072])] * n


def gen_istream_case(rnd, bufsz, drv, big):
    """returns (line, info) ; info: dict(z=bytes, expect=bytes, status=str)"""
    members = []
    nm = rnd.choice([0, 1, 1, 1, 2, 2, 3]) if not big else rnd.choice([1, 1, 2])
    z = bytearray()
    for i in range(nm):
        mz, mp = rand_member(rnd, bufsz, big and i == 0)
        z += mz
        members.append((mz, mp))
    mut = rnd.random()
    kind = "valid"
    if nm > 0 and mut < 0.22:
        # truncate: anywhere, with a preference for "interesting" places
        cut = rnd.randint(1, len(z) - 1) if len(z) > 1 else 0
        if rnd.random() < 0.4:
            # right after a run/literal block of the last member: the decoder has delivered
            # everything it can and owes nothing
            last = members[-1][0]
            cut = len(z) - rnd.choice([1, 2, min(3, len(last) - 1), min(4, len(last) - 1)])
        z = z[:max(cut, 0)]
        kind = "trunc"
    elif mut < 0.34:
        if len(z) > 0:
            p = rnd.randrange(len(z))
            z[p] ^= 1 << rnd.randrange(8)
            kind = "flip"
    elif mut < 0.42:
        z += bytes(rnd.getrandbits(8) for _ in range(rnd.randint(1, 5)))
        kind = "garbage"
    elif mut < 0.46:
        z += b"\0" * rnd.choice([1, 4, 512])
        kind = "zeropad"
    z = bytes(z)
    plain, stop, status, part = ref_decode(z)
    total = len(plain) + len(part)
    wsk = rnd.randint(0, 3)
    ws = sched(rnd, wsk, rnd.randint(1, 40))
    # reader ops: enough to drain in most cases
    style = rnd.randint(0, 4)
    ops = []
    left = total + 3
    guard = 0
    while left > 0 and guard < 3000:
        guard += 1
        if style == 0:
            w = rnd.choice([1, 2, 3, 512]); t = rnd.randint(0, w)
        elif style == 1:
            w = rnd.choice([512, 4096, 10240]); t = w
        elif style == 2:
            w = rnd.choice([0, 1, bufsz - 1, bufsz, bufsz + 7, 2 * bufsz]); t = rnd.choice([1, w, bufsz // 2 + 1, 10 ** 7])
        elif style == 3:
            w = rnd.choice([1, 100, 70000, bufsz]); t = rnd.choice([0, 1, 99, 65536, 10 ** 7])
        else:
            w = 131072; t = 131072
        ops.append((w, t))
        left -= max(1, min(t, max(w, 1))) if t else 0
        if t == 0 and rnd.random() < 0.5:
            left -= 1
    ops += [(512, 512)] * 3
    if style in (0, 3) and total > 20000:
        # keep it affordable: finish with big reads
        ops = ops[:200] + [(bufsz, bufsz)] * (total // bufsz + 4)
    maxin = rnd.choice([0, 0, 1, 2, 3, 17, 1000])
    maxout = rnd.choice([0, 0, 1, 5, 1000, 65536])
    if maxout and total // maxout > 600:
        maxout = max(maxout, total // 300)      # keep the number of library calls (and the model's cost) bounded
    finbuf = rnd.randint(0, 1)
    line = "I %s %d %d %d %s %s %s" % (drv, maxin, maxout, finbuf, H(z),
                                      ",".join(map(str, ws)) or "-",
                                      ",".join("%d:%d" % o for o in ops) or "-")
    return line, dict(z=z, plain=plain, part=part, status=status, kind=kind, total=total)


def gen_ostream_case(rnd, bufsz, drv, big):
    chunks = []
    total = 0
    if big:
        target = bufsz * rnd.choice([1, 1, 2]) + rnd.choice([-1, 0, 0, 1, 511, -512])
    else:
        target = rnd.choice([0, 1, 2, 10, 300, 5000])
    while total < target:
        left = target - total
        k = rnd.random()
        if k < 0.35:
            n = min(left, rnd.choice([1, 100, 512, 1024, 65536, 131072, bufsz, bufsz + 1]))
            chunks.append("P%d:%d" % (n, rnd.randint(1, 10 ** 6)))
        elif k < 0.6:
            n = min(left, rnd.choice([1, 2, 300, 512, 70000, bufsz]))
            chunks.append("R%d:%d" % (n, rnd.getrandbits(8)))
        elif k < 0.75:
            n = min(left, rnd.choice([1, 512, 1024, 10240]))
            chunks.append("Z%d" % n)
        elif k < 0.9:
            n = min(left, rnd.randint(1, 40))
            chunks.append("H" + bytes(rnd.getrandbits(8) for _ in range(n)).hex())
        else:
            n = 0
            chunks.append("-")
        total += n
    blk = rnd.choice([1, 2, 4, 64, 255])
    if big:
        blk = rnd.choice([64, 255, 255])
    greedy = rnd.randint(0, 1)
    finrun = rnd.randint(0, 1)
    maxin = rnd.choice([0, 0, 1, 3, 1000, 70000])
    maxout = rnd.choice([0, 0, 1, 7, 1000, 65536])
    if big:
        maxin = rnd.choice([0, 0, 1000, 70000, 262144])
        maxout = rnd.choice([0, 0, 1000, 65536, 262143])
        if greedy:
            blk = 255      # the model's backlog is a list: cost ~ blocks x backlog; keep a big greedy case within seconds
    line = "O %s %d %d %d %d %d %s" % (drv, blk, maxin, maxout, greedy, finrun, ";".join(chunks) or "-")
    plain = b"".join(spec_bytes(c) for c in chunks)
    return line, dict(plain=plain)


def gen_magic_case(rnd):
    magics = [bytes([0x1F, 0x8B, 0x08]), b"\xFD7zXZ\0", bytes([0x28, 0xB5, 0x2F, 0xFD]), b"BZh"]
    k = rnd.random()
    if k < 0.4:
        m = rnd.choice(magics)
        cut = rnd.randint(0, len(m))
        d = bytearray(m[:cut] if rnd.random() < 0.3 else m)
        if rnd.random() < 0.3 and d:
            d[rnd.randrange(len(d))] ^= 1 << rnd.randrange(8)
        d += bytes(rnd.getrandbits(8) for _ in range(rnd.choice([0, 1, 10, 600])))
    elif k < 0.8:
        n = rnd.choice([0, 100, 256, 261, 262, 263, 500, 512, 513, 768, 769, 773, 774, 1024, 1100])
        d = bytearray(n)
        if rnd.random() < 0.5:
            for i in range(min(n, 100)):
                d[i] = rnd.choice([0, 0, 65])
        off = rnd.choice([257, 257, 256, 258, 512 + 257, 512 + 257, 512 + 256])
        u = b"ustar" if rnd.random() < 0.8 else b"ustaR"
        if off + 5 <= n or rnd.random() < 0.3:
            d[off:off + 5] = u
            d = d[:max(n, 0)] if rnd.random() < 0.5 else d
        if rnd.random() < 0.3:
            m = rnd.choice(magics)
            d[0:len(m)] = m
    else:
        d = bytearray(rnd.getrandbits(8) for _ in range(rnd.randint(0, 20)))
    return "M " + H(bytes(d)), bytes(d)


# ----------------------------------------------------------------------------
# directed cases: the places where the proofs split cases (independent of the seed)
# ----------------------------------------------------------------------------
def runs(count, b):
    """items producing `count` copies of b"""
    return [("R", count, b)] if count else []


def enc_len(n, blk):
    """length of the toy member for n incompressible bytes, block size blk, checksum ending"""
    return 1 + n + 2 * ((n + blk - 1) // blk) + 2


def directed_istream(bufsz, drv):
    out = []
    rnd = random.Random(15)
    big = "%d:%d" % (bufsz, bufsz)
    ops = ",".join([big] * 5)

    def add(z, ws="-", o=ops, maxin=0, maxout=0, finbuf=0, kind="directed"):
        plain, stop, status, part = ref_decode(z)
        line = "I %s %d %d %d %s %s %s" % (drv, maxin, maxout, finbuf, H(z), ws, o)
        out.append((line, dict(z=z, plain=plain, part=part, status=status, kind=kind, total=len(plain) + len(part))))

    # plain size exactly BUFSZ-1, BUFSZ, BUFSZ+1: the buffer is full exactly when the member's data ends;
    # the end marker is consumed by a later call that produces nothing (END with empty hands), then EOF
    for d in (0, -1, 1):
        z, p = member(runs(bufsz + d, 0x41), rnd)
        add(z)
        # ... and the same stream cut before / inside the end marker: the decoder owes nothing, the buffer is
        # full or was just handed out -> must be an error, not EOF
        add(z[:-1] if d >= 0 else z[:-2], kind="trunc")
        if d == 0:
            add(z, finbuf=1, ws="1,1,1,1,1,1,1,1,1,1,1,1,1,1,1,1,1,1,1,1,1,1,1,1,1,1,1,1,1,1")
            add(z[:-2], kind="trunc")
    # final-run ending longer than the buffer: everything consumed while output is still owed; END comes from a
    # call without input (at EOF: the finishing call), over two buffers
    z1, p1 = member([("L", b"xyz")], rnd)
    z2, p2 = member(runs(bufsz - 3, 0x42), rnd, (65535, 0x43))
    add(z1 + z2)
    add(z1 + z2, maxout=65536, finbuf=1)
    add(z1 + z2[:-1], kind="trunc")          # cut inside the final-run header
    add(z1 + z2 + z1)                        # another member behind it
    add(z1 + z2 + b"\xa7", kind="trunc")    # a lone magic byte behind it
    # member boundary exactly at the buffer boundary, several members, one-byte windows around the boundary
    za, pa = member(runs(bufsz, 0x44), rnd)
    zb, pb = member([("L", b"tail")], rnd)
    add(za + zb, ws=",".join(["1"] * 40))
    add(za + b"\xa7\x00\x00" + zb)          # an empty member in between
    add(za + zb + b"\x00", kind="garbage")
    # F24 (repaired): a want = 0 request after the buffer has been consumed entirely must refill, not answer EOF
    add(za + zb, o="%d:%d,0:0,0:512,512:512,512:512" % (bufsz, bufsz), kind="want0")
    return out


def directed_ostream(bufsz, drv):
    out = []

    def add(chunks, blk=255, maxin=0, maxout=0, greedy=0, finrun=0):
        line = "O %s %d %d %d %d %d %s" % (drv, blk, maxin, maxout, greedy, finrun, ";".join(chunks) or "-")
        out.append((line, dict(plain=b"".join(spec_bytes(c) for c in chunks))))

    # incompressible data whose member is 1, 2, 3 bytes longer than outbuf: when flush_inbuf(true)'s first call
    # returns, all input is consumed, outbuf is full and the end of the member is still pending
    # (drain-on-finish with in_size == 0)
    done = set()
    for n in range(bufsz - 3000, bufsz + 1):
        k = enc_len(n, 255) - bufsz
        if k in (1, 2, 3) and k not in done:
            done.add(k)
            add(["P%d:%d" % (n, 1000 + k)])
    # a full inbuf at flush time (member ~ 2 KiB longer than outbuf), and one byte more (flush_inbuf(false) first)
    add(["P%d:77" % bufsz])
    add(["P%d:78" % (bufsz + 1)], maxout=65536)
    add(["P%d:79" % (bufsz - 1), "H00"], finrun=1)
    # exactly two inbufs
    add(["R%d:9" % bufsz, "P%d:80" % bufsz], blk=64)
    return out
