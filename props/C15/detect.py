"""C15 tool level: the format-detection step of tar_open_stream as a small matrix.

    header flavour   v7 (no magic) | POSIX "ustar\\0" "00" | GNU "ustar  \\0" | POSIX behind a leading zero record
  x arrival          plain | gzip | xz | zstd | bzip2
  x first member     a neutral name | names that begin with each codec's magic bytes (so that the first bytes of the
                     UNCOMPRESSED archive look like a compressed stream) | near misses of those magics

Every cell must give the same image - or the same refusal - as the plain POSIX archive of the same entries: the
arrival is transparent (C15) and the detection step must not mistake a plain archive for a compressed one.

One family of cells is ambiguous by construction and is NOT compared (recorded in the coverage only): a header
without the "ustar" magic (v7) arriving PLAIN whose first bytes are a codec magic cannot be told from a compressed
stream by any prefix test (the documented mechanism is "probe for 'ustar', else magic-based codec detection").
"""
import os

NUL = b"\0"

MAGIC_NAMES = [
    ("neutral", b"a.txt"),
    ("bzip2", b"BZhang_report.txt"),
    ("bzip2-full", b"BZh91AY&SY.bin"),
    ("gzip", b"\x1f\x8b\x08notes"),
    ("xz", b"\xfd7zXZ"),                    # the sixth magic byte is the NUL that ends the name field
    ("zstd", b"(\xb5/\xfdzstd-named"),      # 28 b5 2f fd: a directory "(\xb5" with a file below it
    ("near-bzip2", b"BZip.txt"),
    ("near-xz", b"\xfd7zXZ.txt"),
    ("near-gzip", b"\x1f\x8bx"),
]

FLAVOURS = ["posix", "gnu", "v7", "posix-zero-record"]
ARRIVALS = ["plain", "gzip", "xz", "zstd", "bzip2"]


def header(name, typ, size, flavour, mode):
    def octal(v, n):
        return ("%0*o" % (n - 1, v)).encode() + NUL
    h = bytearray(512)
    assert len(name) <= 100
    h[0:len(name)] = name
    h[100:108] = octal(mode, 8)
    h[108:116] = octal(0, 8)
    h[116:124] = octal(0, 8)
    h[124:136] = octal(size, 12)
    h[136:148] = octal(1000000, 12)
    h[156:157] = typ
    if flavour == "gnu":
        h[257:265] = b"ustar  \0"
    elif flavour == "v7":
        pass
    else:
        h[257:263] = b"ustar\0"
        h[263:265] = b"00"
    h[148:156] = b" " * 8
    h[148:156] = ("%06o" % sum(h)).encode() + b"\0 "
    return bytes(h)


def archive(first_name, flavour):
    fl = "posix" if flavour == "posix-zero-record" else flavour
    out = b"\0" * 512 if flavour == "posix-zero-record" else b""
    entries = [(first_name, b"0", b"quarterly numbers\n" * 3, 0o644),
               (b"d/", b"5", b"", 0o755),
               (b"d/a.txt", b"0", b"hello world\n" * 50, 0o644),
               (b"d/BZh", b"0", bytes(range(256)) * 5, 0o600)]
    for name, typ, data, mode in entries:
        out += header(name, typ, len(data), fl, mode) + data + b"\0" * ((-len(data)) % 512)
    return out + b"\0" * 1024


def detect_matrix(S, compress_member, tar2sqfs_image, rnd, b64, only=None):
    """-> (bad, stats); bad = [(signature, text, replay dict)]."""
    from concurrent.futures import ThreadPoolExecutor
    bad, cells = [], []
    refs = {}
    for tag, name in MAGIC_NAMES:
        refs[tag] = archive(name, "posix")
        for fl in FLAVOURS:
            tar = archive(name, fl)
            for arr in ARRIVALS:
                if only and (only.get("flavour"), only.get("arrival"), only.get("first_name")) != (fl, arr, tag):
                    continue
                z = tar if arr == "plain" else compress_member(arr, tar, rnd, S.refzstd)
                cells.append((tag, name, fl, arr, tar, z))

    def run_ref(tag):
        rc, h, err, img = tar2sqfs_image(S, refs[tag], timeout=40)
        if img:
            os.unlink(img)
        return tag, (rc, h, err)

    def run_cell(c):
        rc, h, err, img = tar2sqfs_image(S, c[5], timeout=40)
        if img:
            os.unlink(img)
        return rc, h, err
    with ThreadPoolExecutor(max_workers=8) as ex:
        ref_res = dict(ex.map(run_ref, sorted(set(c[0] for c in cells))))
        res = list(ex.map(run_cell, cells))
    stats = dict(cells=len(cells), compared=0, ambiguous_not_compared=0, accepted=0, refused=0,
                 reference_runs=len(ref_res))
    magic_tags = ("bzip2", "bzip2-full", "gzip", "xz", "zstd")
    # a reference (plain POSIX) that is refused although some compressed arrival of the very same archive converts is
    # itself the failing input: reported once, the other cells of that first name are not compared with it
    ref_odd = set()
    for (tag, name, fl, arr, tar, z), (rc, h, err) in zip(cells, res):
        if fl == "posix" and arr != "plain" and rc == 0 and ref_res[tag][0] != 0 and tag not in ref_odd:
            ref_odd.add(tag)
            rc0, h0, err0 = ref_res[tag]
            bad.append(("detect-differs:tar2sqfs:posix:plain:" + tag,
                        "format detection: the plain POSIX archive whose first member is named %r is refused (%s) while its %s "
                        "arrival is converted" % (name, err0[-160:].strip(), arr),
                        dict(kind="tool-detect", flavour="posix", arrival="plain", first_name=tag, first_name_hex=name.hex(),
                             tar_b64=b64(tar), input_b64=b64(tar), converted_input_b64=b64(z), rc=str(rc0), stderr=err0[-300:])))
    for (tag, name, fl, arr, tar, z), (rc, h, err) in zip(cells, res):
        rc0, h0, err0 = ref_res[tag]
        if tag in ref_odd:
            continue
        rep = dict(kind="tool-detect", flavour=fl, arrival=arr, first_name=tag, first_name_hex=name.hex(),
                   tar_b64=b64(tar), input_b64=b64(z), reference_tar_b64=b64(refs[tag]), rc=str(rc), reference_rc=str(rc0),
                   stderr=err[-300:])
        sig = "%s:%s:%s" % (fl, arr, tag)
        if rc == "HANG":
            bad.append(("hang:tar2sqfs:detect:" + sig, "tar2sqfs does not terminate on the %s arrival of a %s-flavour archive "
                        "whose first member is named %r" % (arr, fl, name), rep))
            continue
        if isinstance(rc, int) and (rc < 0 or rc > 1) or "Sanitizer" in err:
            bad.append(("crash:tar2sqfs:detect:" + sig, "tar2sqfs died (rc=%s) on the %s arrival of a %s-flavour archive whose "
                        "first member is named %r: %s" % (rc, arr, fl, name, err[-200:]), rep))
            continue
        if fl == "v7" and arr == "plain" and tag in magic_tags:
            stats["ambiguous_not_compared"] += 1
            continue
        stats["compared"] += 1
        stats["accepted" if rc == 0 else "refused"] += 1
        if (rc == 0) != (rc0 == 0):
            bad.append(("detect-differs:tar2sqfs:" + sig,
                        "format detection: the %s arrival of a %s-flavour archive whose first member is named %r is %s "
                        "(%s) while the plain POSIX archive of the same entries is %s"
                        % (arr, fl, name, "converted" if rc == 0 else "refused", err[-160:].strip(),
                           "converted" if rc0 == 0 else "refused (%s)" % err0[-100:].strip()), rep))
        elif rc == 0 and h != h0:
            bad.append(("detect-image-differs:tar2sqfs:" + sig,
                        "format detection: the %s arrival of a %s-flavour archive whose first member is named %r gives an "
                        "image that differs from the image of the plain POSIX archive of the same entries" % (arr, fl, name), rep))
    # at most two reports per (kind, flavour, arrival): one changed detection step shows up once per magic
    seen, out = {}, []
    for b in bad:
        k = ":".join(b[0].split(":")[:4])
        seen[k] = seen.get(k, 0) + 1
        if seen[k] <= 2 and len(out) < 8:
            out.append(b)
    return out, stats
