"""C15 tool level: "... and in any chunking" with SMALL FIRST chunks (session 3 strengthening, seed C15-5).

Every arrival of one archive (plain; gzip, xz, zstd, bzip2 as a single member and as two concatenated members) is fed to tar2sqfs
through a pipe by a writer that emits a first chunk of 1, 2, 3, 5 or 7 bytes (shorter than / around every codec magic: gzip 3, bzip2 3,
zstd 4, xz 6 bytes), WAITS UNTIL THE READER HAS TAKEN IT, then goes on in chunks of 1 / 511 / 4096 bytes (the next few chunks are handed
over one by one in the same way, the rest free-running).  A second family puts the chunk boundary inside the first 512 byte header of a
PLAIN archive whose first member name begins with a codec magic (the cells of detect.py): first chunk of 3 / 6 / 100 / 256 / 257 / 262 /
263 / 511 bytes, i.e. before, inside and behind the "ustar" magic the probe looks for at offset 257.

Every run must give the image of the REGULAR-FILE arrival of the plain archive (stdin redirected from a file).

No timing in either direction: the writer does not sleep for a guessed time, it polls FIONREAD on the pipe until the reader's read() has
consumed the chunk (the read that took it cannot have seen more, because nothing more was written yet), so the reader's first read()
returns exactly `first` bytes on every tree; a reader that keeps reading until it has what it asked for (the unchanged precache()) then
blocks until the next chunk arrives, however long that takes.  If the reader never takes the chunk within 10 s the feeder goes on anyway
(the run is then merely less discriminating, never wrong)."""
import fcntl
import os
import subprocess
import termios
import time
from concurrent.futures import ThreadPoolExecutor

FIRST = [1, 2, 3, 5, 7]
REST = [1, 511, 4096]
HDR_FIRST = [3, 6, 100, 256, 257, 262, 263, 511]
NSYNC = 12                   # chunks handed over one by one (the first one included)


def _unread(fd):
    buf = bytearray(4)
    fcntl.ioctl(fd, termios.FIONREAD, buf)
    return int.from_bytes(buf, "little")


def _wait_taken(fd, p, limit=10.0):
    t_end = time.time() + limit
    while time.time() < t_end:
        try:
            if _unread(fd) == 0:
                return True
        except OSError:
            return False
        if p.poll() is not None:
            return False
        time.sleep(0.0005)
    return False


def feed(cmd, data, first, rest, env, timeout=40):
    """-> (rc | 'HANG', stderr text, first chunk taken alone?)"""
    p = subprocess.Popen(cmd, stdin=subprocess.PIPE, stdout=subprocess.DEVNULL, stderr=subprocess.PIPE, env=env)
    fd = p.stdin.fileno()
    taken = False
    try:
        pos, k = 0, 0
        while pos < len(data):
            n = first if k == 0 else rest
            os.write(fd, data[pos:pos + n])
            pos += n
            if k < NSYNC:
                ok = _wait_taken(fd, p)
                if k == 0:
                    taken = ok
            k += 1
    except (BrokenPipeError, OSError):
        pass
    try:
        p.stdin.close()
    except OSError:
        pass
    p.stdin = None
    try:
        _, err = p.communicate(timeout=timeout)
    except subprocess.TimeoutExpired:
        p.kill()
        p.communicate()
        return "HANG", "", taken
    return p.returncode, err.decode("utf-8", "replace"), taken


def image_from(S, sha, env, data=None, path=None, first=None, rest=None):
    """tar2sqfs image hash for `data` fed through the chunked pipe, or for the regular file `path`"""
    img = os.path.join(S.ctx.scratch, "cf.%d.%d.sqfs" % (os.getpid(), S.next_id()))
    cmd = [S.tools["tar2sqfs"], "-q", "-f", "-j", "1", img]
    taken = None
    if path is not None:
        with open(path, "rb") as f:
            try:
                r = subprocess.run(cmd, stdin=f, stdout=subprocess.DEVNULL, stderr=subprocess.PIPE, env=env, timeout=40)
                rc, err = r.returncode, r.stderr.decode("utf-8", "replace")
            except subprocess.TimeoutExpired:
                rc, err = "HANG", ""
    else:
        rc, err, taken = feed(cmd, data, first, rest, env)
    h = None
    if rc == 0 and os.path.exists(img):
        h = sha(open(img, "rb").read())
    if os.path.exists(img):
        os.unlink(img)
    return rc, h, err, taken


def matrix(S, D, compress_member, compress_split, mk_tar, sha, b64, env, rnd, only=None):
    """-> (bad, stats).  D = the detect module (hand-written archives whose first name begins with a codec magic)."""
    files = [("d", None), ("d/a.txt", b"hello world\n" * 40), ("d/r.bin", rnd.randbytes(3000)), ("d/z", b"\0" * 2000),
             ("e.txt", b"x" * 513)]
    tar = mk_tar(files)
    cells = []          # (family, arrival label, reference key, bytes, first, rest)
    refs = {"main": tar}
    arrivals = [("plain", "single", tar)]
    for codec in ("gzip", "xz", "zstd", "bzip2"):
        arrivals.append((codec, "single", compress_member(codec, tar, rnd, S.refzstd)))
        cut = rnd.choice([700, 512 * 3, len(tar) // 2 + 17])
        arrivals.append((codec, "concat", compress_split(codec, tar, rnd, S.refzstd, [cut])))
    for codec, shape, z in arrivals:
        for first in FIRST:
            for rest in REST:
                cells.append(("first-chunk", "%s:%s" % (codec, shape), "main", z, first, rest))
    tags = [t for t in D.MAGIC_NAMES if t[0] in ("bzip2", "gzip", "xz", "zstd", "near-xz")]
    for tag, name in tags:
        for fl in ("posix", "gnu"):
            a = D.archive(name, fl)
            key = "hdr:%s:%s" % (fl, tag)
            refs[key] = a
            for first in HDR_FIRST:
                cells.append(("header-chunk", "plain:%s:%s" % (fl, tag), key, a, first, rnd.choice(REST)))
    if only:
        z = only["input"]
        refs = {"main": only["tar"]}
        cells = [(only.get("family", "first-chunk"), only.get("arrival", "replay"), "main", z, only["first"], only["rest"])]

    # the regular-file arrival of every distinct input (and of the plain archive: the reference image)
    paths = {}

    def as_file(b):
        k = sha(b)
        if k not in paths:
            p = os.path.join(S.ctx.scratch, "cf-in-%s" % k[:16])
            open(p, "wb").write(b)
            paths[k] = p
        return paths[k]

    ref_jobs = {k: as_file(v) for k, v in refs.items()}
    file_jobs = {}
    for c in cells:
        file_jobs[sha(c[3])] = (as_file(c[3]), c)
    with ThreadPoolExecutor(max_workers=12) as ex:
        ref_res = dict(zip(ref_jobs, ex.map(lambda p: image_from(S, sha, env, path=p), ref_jobs.values())))
        file_res = dict(zip(file_jobs, ex.map(lambda pc: image_from(S, sha, env, path=pc[0]), file_jobs.values())))
        res = list(ex.map(lambda c: image_from(S, sha, env, data=c[3], first=c[4], rest=c[5]), cells))
    stats = dict(cells=len(cells), regular_file_runs=len(ref_res) + len(file_res), compared=0, first_chunk_taken_alone=0,
                 reference_refused=0, first=FIRST, rest=REST, header_first=HDR_FIRST)
    bad = []

    def rep(c, rc, err):
        return dict(kind="tool-chunked", family=c[0], arrival=c[1], first=c[4], rest=c[5], tar_b64=b64(refs[c[2]]), input_b64=b64(c[3]),
                    rc=str(rc), stderr=err[-300:],
                    how="write the first `first` bytes of input to tar2sqfs' stdin pipe, wait until they are read, then the rest in "
                        "chunks of `rest` bytes; compare with `tar2sqfs img < tar`")
    # regular-file arrival of each input vs. the plain archive's (transparency itself; normally reported by the other tool legs too)
    for k, (rc, h, err, _) in file_res.items():
        c = file_jobs[k][1]
        rc0, h0, err0, _ = ref_res[c[2]]
        if rc0 != 0:
            continue
        if rc != 0 or h != h0:
            bad.append(("chunked-pipe:regular-file:%s" % c[1], "tar2sqfs < file: the %s arrival %s while the plain archive converts" % (
                c[1], ("fails (%s)" % err[-160:].strip()) if rc != 0 else "gives a different image"), rep(c, rc, err)))
    for c, (rc, h, err, taken) in zip(cells, res):
        rc0, h0, err0, _ = ref_res[c[2]]
        if rc0 != 0:
            stats["reference_refused"] += 1           # the plain archive itself is refused from a regular file: nothing to compare
            continue
        stats["compared"] += 1
        if taken:
            stats["first_chunk_taken_alone"] += 1
        sig = "%s:%s" % (c[0], c[1])
        what = "%s arrival through a pipe, first chunk %d byte%s, then chunks of %d" % (c[1], c[4], "" if c[4] == 1 else "s", c[5])
        if rc == "HANG":
            bad.append(("chunked-pipe:hang:tar2sqfs:" + sig, "tar2sqfs does not terminate: " + what, rep(c, rc, err)))
        elif isinstance(rc, int) and (rc < 0 or rc > 1) or "Sanitizer" in err:
            bad.append(("chunked-pipe:crash:tar2sqfs:" + sig, "tar2sqfs died (rc=%s): %s: %s" % (rc, what, err[-200:]), rep(c, rc, err)))
        elif rc != 0:
            bad.append(("chunked-pipe:false-error:tar2sqfs:" + sig,
                        "tar2sqfs fails (%s) although the same bytes from a regular file convert: %s" % (err[-160:].strip(), what),
                        rep(c, rc, err)))
        elif h != h0:
            bad.append(("chunked-pipe:image-differs:tar2sqfs:" + sig,
                        "the image differs from the one of the regular-file arrival: " + what, rep(c, rc, err)))
    # one report per (kind, family, codec/flavour), at most 8
    seen, out = set(), []
    for b in bad:
        k = ":".join(b[0].split(":")[:5])
        if k not in seen and len(out) < 8:
            seen.add(k)
            out.append(b)
    return out, stats
