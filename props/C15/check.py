"""C15 -- stream compression of tar input/output is transparent.

Theorems: coq/Properties_C15.v (istream_xfrm / ostream_xfrm / the four driver loops over an abstract
codec library).  Tie: the working tree's gzip.c, xz.c, bzip2.c, zstd.c compiled on top of a toy codec
library (fake/*.h + toy.h) and driven through the working tree's istream.c / ostream.c on memory
streams, compared *exactly* (trace) with the extracted model instantiated with the Gallina twin of the toy
codec.  Search: (a) component level, real codec libraries, results judged by reference decompressors
(Python zlib/lzma/bz2, system libzstd through refzstd.c); (b) tool level, tar2sqfs image hashes for
plain vs wrapped input, sqfs2tar -c X | reference == sqfs2tar, truncated / corrupted input must fail."""
import base64
import bz2
import hashlib
import io
import json
import lzma
import os
import random
import re
import resource
import subprocess
import sys
import tarfile
import time
import zlib
from concurrent.futures import ThreadPoolExecutor

from vlib import build as B
from vlib import core

HERE = os.path.dirname(os.path.abspath(__file__))
sys.path.insert(0, HERE)
import toygen as TG  # noqa: E402

LEVEL = "proof"
DRIVERS = ["gzip", "xz", "bzip2", "zstd"]
HSRC = ["h_toy.c", "d_gzip.c", "d_xz.c", "d_bzip2.c", "d_zstd.c", "w_istream.c", "w_ostream.c", "w_probe.c"]
HHDR = ["toy.h", "fake/zlib.h", "fake/lzma.h", "fake/bzlib.h", "fake/zstd.h"]
ENV = dict(os.environ, ASAN_OPTIONS="detect_leaks=0:abort_on_error=0", SOURCE_DATE_EPOCH="0")


# ----------------------------------------------------------------------------
# generated constants: the decoder limits the working tree really passes to liblzma / zlib / libbz2 / libzstd
# (runs when ./check imports this file, i.e. before the proofs are compiled)
# ----------------------------------------------------------------------------
LIMITS = {}


def regen_limits():
    import shutil
    import tempfile
    d = tempfile.mkdtemp(prefix="verif-c15gen.")
    try:
        src = os.path.join(HERE, "gen_limits.c")
        inc = ["-I" + os.path.join(B.REPO, "include"), "-I" + os.path.dirname(B.config_h_path()), "-I" + B.REPO]
        objs = []
        procs = []
        for w in ("XZ", "GZIP", "BZIP2", "ZSTD", "MAIN"):
            o = os.path.join(d, w + ".o")
            objs.append(o)
            procs.append(subprocess.Popen(["gcc", "-w", "-c", "-DGEN_" + w] + inc + [src, "-o", o],
                                          stdout=subprocess.PIPE, stderr=subprocess.STDOUT, text=True))
        outs = [p.communicate()[0] for p in procs]
        if any(p.returncode != 0 for p in procs):
            return "gen_limits.c does not compile against the current lib/xfrm/src: " + " ".join(outs)[-800:]
        exe = os.path.join(d, "g")
        rc, out = core.sh(["gcc"] + objs + ["-o", exe, "-llzma", "-lz", "-lbz2", "-lzstd"])
        if rc != 0:
            return "gen_limits does not link: " + out[-800:]
        r = subprocess.run([exe], capture_output=True, text=True, timeout=30)
        if r.returncode != 0:
            return "gen_limits failed: " + r.stderr[-400:]
        txt = r.stdout
        for m in re.finditer(r"Definition c_(\w+) : N := (\d+)\.", txt):
            LIMITS[m.group(1)] = int(m.group(2))
        dst = os.path.join(core.COQ, "C15", "GenC15Limits.v")
        with core.Lock("coq"):
            old = open(dst).read() if os.path.exists(dst) else None
            if old != txt:
                open(dst, "w").write(txt)
        return None
    except Exception as e:      # noqa
        return "gen_limits: %r" % (e,)
    finally:
        shutil.rmtree(d, ignore_errors=True)


GEN_ERROR = regen_limits()


# ----------------------------------------------------------------------------
# building
# ----------------------------------------------------------------------------
def build_harness(info):
    hh = hashlib.sha256()
    for f in HHDR:
        hh.update(open(os.path.join(HERE, f), "rb").read())
    return B.compile_harness(info, [os.path.join(HERE, f) for f in HSRC], "h_c15",
                             extra=["-DC15_HDR_" + hh.hexdigest()[:12]],
                             includes=["-I" + os.path.join(HERE, "fake"), "-I" + os.path.join(B.REPO, "lib/tar/src")])


def build_refzstd():
    out = os.path.join(core.CACHE, "extract", "C15-refzstd")
    os.makedirs(out, exist_ok=True)
    src = os.path.join(HERE, "refzstd.c")
    key = hashlib.sha256(open(src, "rb").read()).hexdigest()
    exe = os.path.join(out, "refzstd")
    stamp = os.path.join(out, "KEY")
    if os.path.exists(exe) and os.path.exists(stamp) and open(stamp).read() == key:
        return exe
    tmp = exe + ".tmp%d" % os.getpid()
    r = subprocess.run(["gcc", "-O1", "-w", src, "-lzstd", "-o", tmp], capture_output=True, text=True)
    if r.returncode != 0:
        raise RuntimeError("refzstd.c does not build: " + r.stderr[-1000:])
    os.rename(tmp, exe)
    open(stamp, "w").write(key)
    return exe


def setup():
    with core.Lock("extract-C15"):
        core.build_model_driver("C15", "ExtractC15.v", os.path.join(HERE, "driver.ml"))
    build_refzstd()


# ----------------------------------------------------------------------------
# running line-oriented case processors with hang / crash detection
# ----------------------------------------------------------------------------
def _unlimit_stack():
    try:
        resource.setrlimit(resource.RLIMIT_STACK, (resource.RLIM_INFINITY, resource.RLIM_INFINITY))
    except (ValueError, OSError):
        pass


def run_lines(exe, lines, scratch, tag, hang_timeout=8.0, total_timeout=300.0, max_restarts=6, big_stack=False,
              prefix_lines=()):
    """Feed `lines` to `exe`; return list of result strings (same length); a case during which the
    process hung / died is 'HANG' / 'CRASH ...'; cases never reached are 'SKIPPED'."""
    res = [None] * len(lines)
    start = 0
    restarts = 0
    t_end = time.time() + total_timeout
    while start < len(lines):
        inp = os.path.join(scratch, "%s.%d.in" % (tag, start))
        outp = os.path.join(scratch, "%s.%d.out" % (tag, start))
        errp = os.path.join(scratch, "%s.%d.err" % (tag, start))
        with open(inp, "w") as f:
            for l in prefix_lines:
                f.write(l + "\n")
            for l in lines[start:]:
                f.write(l + "\n")
        fi = open(inp, "rb")
        fo = open(outp, "wb")
        fe = open(errp, "wb")
        p = subprocess.Popen([exe], stdin=fi, stdout=fo, stderr=fe, env=ENV,
                             preexec_fn=_unlimit_stack if big_stack else None)
        last_size = -1
        last_change = time.time()
        hung = False
        while True:
            try:
                p.wait(timeout=0.05)
                break
            except subprocess.TimeoutExpired:
                pass
            sz = os.path.getsize(outp)
            now = time.time()
            if sz != last_size:
                last_size = sz
                last_change = now
            elif now - last_change > hang_timeout or now > t_end:
                p.kill()
                p.wait()
                hung = True
                break
        fi.close()
        fo.close()
        fe.close()
        got = open(outp, "rb").read().decode("utf-8", "replace").split("\n")
        if got and got[-1] == "":
            got.pop()
        elif got and (hung or p.returncode != 0):
            got.pop()          # partial last line
        got = got[len(prefix_lines):]
        for i, g in enumerate(got):
            if start + i < len(lines):
                res[start + i] = g
        k = start + len(got)
        if k >= len(lines):
            break
        if hung:
            res[k] = "HANG"
        else:
            err = open(errp, "rb").read().decode("utf-8", "replace")
            res[k] = "CRASH rc=%s %s" % (p.returncode, err[-400:].replace("\n", " | "))
        start = k + 1
        restarts += 1
        if restarts > max_restarts or time.time() > t_end:
            break
    return [r if r is not None else "SKIPPED" for r in res]


# ----------------------------------------------------------------------------
# reference decompressors (whole member sequences)
# ----------------------------------------------------------------------------
def ref_decompress(codec, data, refzstd):
    """-> (plain bytes produced, status) ; status ok | trunc | bad"""
    out = bytearray()
    if codec == "zstd":
        r = subprocess.run([refzstd, "d"], input=data, capture_output=True)
        st = {0: "ok", 3: "trunc"}.get(r.returncode, "bad")
        return r.stdout, st
    rest = data
    while rest:
        if codec == "gzip":
            d = zlib.decompressobj(31)
        elif codec == "xz":
            d = lzma.LZMADecompressor(format=lzma.FORMAT_XZ)
        else:
            d = bz2.BZ2Decompressor()
        try:
            out += d.decompress(rest)
        except Exception:
            return bytes(out), "bad"
        if not d.eof:
            return bytes(out), "trunc"
        rest = d.unused_data
    return bytes(out), "ok"


def compress_member(codec, data, rnd, refzstd, flush_at=()):
    if codec == "gzip":
        c = zlib.compressobj(rnd.choice([1, 6, 9]), zlib.DEFLATED, 31)
        out = bytearray()
        pos = 0
        for o in flush_at:
            if pos < o < len(data):
                out += c.compress(data[pos:o]) + c.flush(zlib.Z_FULL_FLUSH)
                pos = o
        out += c.compress(data[pos:]) + c.flush()
        return bytes(out)
    if codec == "xz":
        return lzma.compress(data, format=lzma.FORMAT_XZ, preset=rnd.choice([0, 1, 6]),
                             check=rnd.choice([lzma.CHECK_CRC32, lzma.CHECK_CRC64, lzma.CHECK_NONE]))
    if codec == "bzip2":
        return bz2.compress(data, rnd.choice([1, 9]))
    chk = rnd.choice([0, 1])
    r = subprocess.run([refzstd, "c", str(rnd.choice([1, 3, 9])), str(chk)] + [str(o) for o in sorted(flush_at)],
                       input=data, capture_output=True)
    if r.returncode != 0:
        raise RuntimeError("refzstd c failed")
    return r.stdout


def compress_split(codec, data, rnd, refzstd, offsets, flush_at=()):
    """concatenation of members, one per piece of data cut at `offsets`"""
    cuts = [0] + sorted(o for o in set(offsets) if 0 < o < len(data)) + [len(data)]
    out = bytearray()
    for a, b in zip(cuts, cuts[1:]):
        out += compress_member(codec, data[a:b], rnd, refzstd, [o - a for o in flush_at if a < o < b])
    return bytes(out)


# ----------------------------------------------------------------------------
# archives
# ----------------------------------------------------------------------------
def mk_tar(files, fmt=tarfile.USTAR_FORMAT):
    bio = io.BytesIO()
    with tarfile.open(fileobj=bio, mode="w", format=fmt) as t:
        for name, data in files:
            if data is None:
                ti = tarfile.TarInfo(name)
                ti.type = tarfile.DIRTYPE
                ti.mode = 0o755
                ti.mtime = 1000000
                t.addfile(ti)
            else:
                ti = tarfile.TarInfo(name)
                ti.size = len(data)
                ti.mtime = 1000000
                ti.mode = 0o644
                t.addfile(ti, io.BytesIO(data))
    return bio.getvalue()


def tar_boundaries(files):
    """plain offsets where a header starts / file data ends (ustar, no long names)"""
    offs = []
    pos = 0
    for name, data in files:
        offs.append(pos)
        pos += 512
        if data is not None:
            pos += (len(data) + 511) // 512 * 512
    offs.append(pos)
    return [o for o in offs if o > 0]


def gen_archive(rnd, bufsz, size_class):
    """-> (files, description)"""
    files = [("d", None), ("d/a.txt", b"hello world\n" * rnd.randint(1, 50))]
    if size_class == "small":
        for i in range(rnd.randint(1, 5)):
            k = rnd.random()
            n = rnd.choice([0, 1, 511, 512, 513, 3000, 20000])
            files.append(("d/f%d" % i, rnd.randbytes(n) if k < 0.6 else bytes([rnd.getrandbits(8)]) * n))
    else:
        # total tar size around k*bufsz with an incompressible tail
        k = rnd.choice([1, 2, 2, 3]) if size_class == "big" else 1
        hdrs = 512 * (len(files) + 1)
        used = hdrs + 512          # a.txt occupies one record (<= 600 bytes -> maybe two)
        used = sum(512 + ((len(d) + 511) // 512 * 512 if d is not None else 0) for _, d in files)
        target = k * bufsz + rnd.choice([-1024, -512, 0, 0, 512, 1024]) - 1024   # - trailer
        n = max(target - used - 512, 1)
        n -= rnd.choice([0, 0, 1, 192, 511])
        if rnd.random() < 0.3:
            files.append(("d/zeros", b"\0" * rnd.choice([512, 100000])))
            n = max(n - 512 - (len(files[-1][1]) + 511) // 512 * 512, 1)
        files.append(("d/rnd.bin", rnd.randbytes(n)))
    return files


# ----------------------------------------------------------------------------
# the check
# ----------------------------------------------------------------------------
class State:
    pass


def sha(b):
    return hashlib.sha256(b).hexdigest()


def b64(b):
    return base64.b64encode(b).decode()


def run_tool(cmd, data=None, timeout=60, chunks=None, stdout_path=None):
    """-> (rc, stdout bytes, stderr text) ; rc = 'HANG' on timeout"""
    try:
        if chunks is None:
            r = subprocess.run(cmd, input=data, stdout=subprocess.PIPE, stderr=subprocess.PIPE, env=ENV, timeout=timeout)
            return r.returncode, r.stdout, r.stderr.decode("utf-8", "replace")
        p = subprocess.Popen(cmd, stdin=subprocess.PIPE, stdout=subprocess.PIPE, stderr=subprocess.PIPE, env=ENV)
        t0 = time.time()
        pos = 0
        try:
            for c in chunks:
                p.stdin.write(data[pos:pos + c])
                p.stdin.flush()
                pos += c
                if pos >= len(data):
                    break
            if pos < len(data):
                p.stdin.write(data[pos:])
            p.stdin.close()
        except (BrokenPipeError, OSError):
            pass
        try:
            p.wait(timeout=max(1, timeout - (time.time() - t0)))
        except subprocess.TimeoutExpired:
            p.kill()
            p.wait()
            return "HANG", b"", ""
        return p.returncode, p.stdout.read(), p.stderr.read().decode("utf-8", "replace")
    except subprocess.TimeoutExpired:
        return "HANG", b"", ""


def tar2sqfs_image(S, data, chunks=None, timeout=60):
    img = os.path.join(S.ctx.scratch, "img.%d.%d.sqfs" % (os.getpid(), S.next_id()))
    rc, out, err = run_tool([S.tools["tar2sqfs"], "-q", "-f", "-j", "1", img], data, timeout, chunks)
    h = None
    if rc == 0 and os.path.exists(img):
        h = sha(open(img, "rb").read())
    keep = img if rc == 0 else None
    if keep is None and os.path.exists(img):
        os.unlink(img)
    return rc, h, err, keep


# ---------------- toy tie -----------------------------------------------
def toy_property_judgement(line, info, result):
    """Evaluate C15 on the implementation's result for a toy component case.
    -> None (fine) or (signature-stem, text)"""
    kind = line[0]
    drv = line.split(" ")[1]
    if result == "HANG":
        return ("hang:%sstream:%s" % ("i" if kind == "I" else "o", drv),
                "the real %s loop on the toy codec never returned" % drv)
    if result.startswith("CRASH"):
        return ("crash:%sstream:%s" % ("i" if kind == "I" else "o", drv), "harness died: " + result[:200])
    if result == "SKIPPED":
        return None
    f = result.split(" ")
    if kind == "I":
        m = re.match(r"I (\w+) n=(\d+) h=(\d+)\.(\d+)", result)
        if not m:
            return ("garbled:istream:" + drv, "unparsable result " + result[:100])
        end, n = m.group(1), int(m.group(2))
        exp = info["plain"] + info["part"]
        ok_prefix = n <= len(exp) and TG_hash(exp[:n]) == (int(m.group(3)), int(m.group(4)))
        if not ok_prefix:
            return ("wrong-bytes:istream:" + drv, "delivered %d bytes that are not a prefix of the decoded input" % n)
        if info["status"] == "ok":
            if end == "ERR":
                return ("false-error:istream:" + drv, "valid member sequence reported as an error after %d bytes" % n)
            if end == "EOF" and n != len(info["plain"]):
                return ("short-eof:istream:" + drv, "EOF after %d of %d bytes" % (n, len(info["plain"])))
        else:
            if end == "EOF":
                return ("truncated-accepted:istream:" + drv,
                        "input ends inside a member / is malformed (%s) but the stream reported a clean EOF after %d bytes"
                        % (info["status"], n))
        return None
    if kind == "O":
        if f[1] != "OK":
            return ("false-error:ostream:" + drv, "writer reported an error")
        # the bytes themselves are judged by the caller (needs the dump); here only the flush marker
        if not result.rstrip().endswith("f,"):
            return ("no-flush:ostream:" + drv, "wrapped stream was not flushed")
    return None


def TG_hash(b):
    a, c = 7, 11
    for v in b:
        a = (a * 31337 + v + 1) % 2147483647
        c = (c * 65599 + v + 1) % 2147483629
    return (a, c)


def toy_tie(S):
    ctx = S.ctx
    rnd = random.Random(ctx.seed * 1000003 + 15)
    quick = ctx.tier == "quick"
    n_small_i, n_big_i = (110, 5) if quick else (1500, 40)
    n_small_o, n_big_o = (50, 3) if quick else (600, 25)
    n_magic = 300 if quick else 5000
    batches = {}
    infos = {}
    if S.replay_lines is not None:
        for l in S.replay_lines:
            d = l.split(" ")[1] if l[0] in "IO" else "magic"
            batches.setdefault(d, []).append(l)
    else:
        for drv in DRIVERS:
            ls = []
            for l in S.corpus:
                if l[0] in "IO" and l.split(" ")[1] == drv:
                    ls.append(l)
            for line, info in TG.directed_istream(S.bufsz_i, drv) + TG.directed_ostream(S.bufsz_o, drv):
                ls.append(line)
                infos[line] = info
            for i in range(n_small_i + n_big_i):
                line, info = TG.gen_istream_case(rnd, S.bufsz_i, drv, i >= n_small_i)
                ls.append(line)
                infos[line] = info
            for i in range(n_small_o + n_big_o):
                line, info = TG.gen_ostream_case(rnd, S.bufsz_o, drv, i >= n_small_o)
                ls.append(line)
                infos[line] = info
            batches[drv] = ls
        batches["magic"] = [TG.gen_magic_case(rnd)[0] for _ in range(n_magic)]
    for d, ls in batches.items():
        for l in ls:
            if l not in infos and l[0] == "I":
                z = TG.spec_bytes(l.split(" ")[5])
                plain, stop, status, part = TG.ref_decode(z)
                infos[l] = dict(z=z, plain=plain, part=part, status=status, kind="corpus", total=len(plain) + len(part))
            elif l not in infos and l[0] == "O":
                infos[l] = dict(plain=b"".join(TG.spec_bytes(c) for c in l.split(" ")[7].split(";")))

    NCH = 3     # the model side of a driver's batch is split into NCH processes (big cases cost seconds each)

    def job(arg):
        d, side, k = arg
        ls = batches[d]
        if side == "c":
            return arg, run_lines(S.harness, ls, ctx.scratch, "c-" + d, hang_timeout=6.0, total_timeout=150)
        part = ls[k::NCH]
        return arg, run_lines(S.model, part, ctx.scratch, "m%d-%s" % (k, d), hang_timeout=200.0, total_timeout=600,
                              big_stack=True, prefix_lines=["B %d %d" % (S.bufsz_i, S.bufsz_o)])

    out = {}
    jobs = [(d, "c", 0) for d in batches] + [(d, "m", k) for d in batches for k in range(NCH)]
    parts = {}
    with ThreadPoolExecutor(max_workers=14) as ex:
        for arg, r in ex.map(job, jobs):
            parts[arg] = r
    for d in batches:
        out[(d, "c")] = parts[(d, "c", 0)]
        merged = [None] * len(batches[d])
        for k in range(NCH):
            for j, r in enumerate(parts[(d, "m", k)]):
                merged[k + j * NCH] = r
        out[(d, "m")] = merged
    n_eval = 0
    nontriv = 0
    tie_bad = []
    prop_bad = []
    slow_model = []
    dist = dict(I=0, O=0, M=0, eof=0, err=0, more=0, status_ok=0, status_trunc=0, status_bad=0,
                crossed_bufsz=0, multi_member=0)
    samples = []
    for d, ls in batches.items():
        rc, rm = out[(d, "c")], out[(d, "m")]
        for i, l in enumerate(ls):
            n_eval += 1
            kind = l[0]
            dist[kind] = dist.get(kind, 0) + 1
            info = infos.get(l)
            if kind == "I" and info:
                dist["status_" + info["status"]] += 1
                if info["total"] >= S.bufsz_i:
                    dist["crossed_bufsz"] += 1
                if info["z"].count(bytes([TG.MAGIC])) > 1:
                    dist["multi_member"] += 1
                if rc[i].startswith("I EOF"):
                    dist["eof"] += 1
                elif rc[i].startswith("I ERR"):
                    dist["err"] += 1
                else:
                    dist["more"] += 1
                if info["total"] > 0:
                    nontriv += 1
            elif kind == "O" and info:
                if len(info["plain"]) >= S.bufsz_o:
                    dist["crossed_bufsz"] += 1
                if info["plain"]:
                    nontriv += 1
            elif kind == "M":
                if not rc[i].startswith("M -1 0"):
                    nontriv += 1
            if len(samples) < 3 and i == len(ls) // 2:
                samples.append(dict(case=l[:160], impl=rc[i][:160], model=rm[i][:160]))
            if rc[i] == "SKIPPED" or rm[i] == "SKIPPED":
                continue
            if rm[i] == "HANG" and rc[i] != "HANG":
                # the extracted model is structurally recursive (it cannot loop); no output for 200 s means that the
                # list-based model is too slow on this case, not that it disagrees: judge the implementation only
                slow_model.append(l[:120])
                j = toy_property_judgement(l, info, rc[i]) if kind in "IO" and info else None
                if j:
                    prop_bad.append((l, j, rc[i], rm[i]))
                continue
            j = toy_property_judgement(l, info, rc[i]) if kind in "IO" and info else None
            if j:
                prop_bad.append((l, j, rc[i], rm[i]))
            if rc[i] != rm[i]:
                tie_bad.append((l, rc[i], rm[i]))
    # O cases: decode what the implementation wrote with the Python reference decoder of the toy format
    o_lines = [(d, i, l) for d, ls in batches.items() for i, l in enumerate(ls)
               if l[0] == "O" and out[(d, "c")][i].startswith("O OK") and len(infos[l]["plain"]) < 1200000]
    if o_lines:
        dumps = []
        lines2 = []
        for k, (d, i, l) in enumerate(o_lines):
            p = os.path.join(ctx.scratch, "odump.%d" % k)
            dumps.append(p)
            lines2.append(l + " >" + p)
        r2 = run_lines(S.harness, lines2, ctx.scratch, "c-odump", hang_timeout=6.0, total_timeout=100)
        for k, (d, i, l) in enumerate(o_lines):
            if not r2[k].startswith("O OK") or not os.path.exists(dumps[k]):
                continue
            z = open(dumps[k], "rb").read()
            plain, stop, status, part = TG.ref_decode(z)
            drv = l.split(" ")[1]
            if status != "ok" or plain != infos[l]["plain"]:
                prop_bad.append((l, ("wrong-bytes:ostream:" + drv,
                                     "bytes written by ostream_xfrm decode to %d bytes (%s), %d were appended"
                                     % (len(plain), status, len(infos[l]["plain"]))), r2[k], ""))
    if slow_model:
        ctx.notes.append("toy tie: the extracted model produced no answer within 200 s on %d case(s) (implementation judged by the "
                         "property oracle only): %s" % (len(slow_model), "; ".join(slow_model[:3])))
    ctx.coverage["evaluations"] += n_eval
    ctx.coverage["distinct_nontrivial"] += nontriv
    ctx.coverage["traces_validated_against_impl"] += n_eval - len(tie_bad) - len(slow_model)
    ctx.coverage.setdefault("distribution", {})["toy"] = dist
    ctx.add_samples(samples)
    return tie_bad, prop_bad


# ---------------- real codecs, component level ----------------------------
def real_component(S):
    ctx = S.ctx
    rnd = random.Random(ctx.seed * 7919 + 151)
    quick = ctx.tier == "quick"
    n_dec = 6 if quick else 60
    n_enc = 4 if quick else 40
    lines = []
    meta = []
    k = 0
    for codec in DRIVERS:
        for i in range(n_dec):
            big = i % 3 == 0
            size = (S.bufsz_i * rnd.choice([1, 2]) + rnd.choice([-513, -1, 0, 1, 700])) if big else rnd.choice([0, 1, 100, 5000, 70000])
            plain = bytearray()
            while len(plain) < size:
                n = min(size - len(plain), rnd.choice([1, 512, 4096, 100000]))
                plain += rnd.randbytes(n) if rnd.random() < 0.6 else bytes([rnd.getrandbits(8)]) * n
            plain = bytes(plain)
            nsplit = rnd.choice([0, 0, 1, 2])
            z = compress_split(codec, plain, rnd, S.refzstd, [rnd.randint(0, max(size, 1)) for _ in range(nsplit)])
            mut = rnd.random()
            if mut < 0.25 and len(z) > 2:
                z = z[:rnd.randint(1, len(z) - 1)]
            elif mut < 0.4 and len(z) > 12:
                zz = bytearray(z)
                zz[rnd.randrange(10, len(zz))] ^= 1 << rnd.randrange(8)
                z = bytes(zz)
            elif mut < 0.45:
                z += b"trailing garbage"
            p = os.path.join(ctx.scratch, "rc.%d.z" % k)
            d = os.path.join(ctx.scratch, "rc.%d.out" % k)
            open(p, "wb").write(z)
            ws = TG.sched(rnd, rnd.randint(0, 3), 30)
            w = rnd.choice([1, 512, 4096, 65536, S.bufsz_i])
            t = rnd.choice([w, w, max(1, w // 3)])
            nops = len(plain) // t + 6
            lines.append("I r%s 0 0 0 F%s %s %s >%s" % (codec, p, ",".join(map(str, ws)) or "-",
                                                       ",".join(["%d:%d" % (w, t)] * nops), d))
            meta.append(("dec", codec, z, d, None))
            k += 1
        # directed: incompressible data filling inbuf exactly / to one byte at flush time (the stream does not fit
        # outbuf: drain-on-finish), and two full inbufs
        for spec in ("P%d:4242" % S.bufsz_o, "P%d:4243" % (S.bufsz_o - 1), "P%d:4244;P%d:4245" % (S.bufsz_o, S.bufsz_o)):
            d = os.path.join(ctx.scratch, "rc.%d.out" % k)
            lines.append("O r%s 0 0 0 0 0 %s >%s" % (codec, spec, d))
            meta.append(("enc", codec, b"".join(TG.spec_bytes(c) for c in spec.split(";")), d, spec))
            k += 1
        for i in range(n_enc):
            big = i % 2 == 0
            size = (S.bufsz_o * rnd.choice([1, 2]) + rnd.choice([-512, 0, 0, 512, 1])) if big else rnd.choice([1, 100, 5000, 140000])
            chunks = []
            total = 0
            while total < size:
                n = min(size - total, rnd.choice([1, 512, 1024, 131072, S.bufsz_o]))
                # incompressible tail
                if total + n >= size - 1024 or rnd.random() < 0.6:
                    chunks.append("P%d:%d" % (n, rnd.randint(1, 10 ** 6)))
                elif rnd.random() < 0.5:
                    chunks.append("Z%d" % n)
                else:
                    chunks.append("R%d:%d" % (n, rnd.getrandbits(8)))
                total += n
            d = os.path.join(ctx.scratch, "rc.%d.out" % k)
            lines.append("O r%s 0 0 0 0 0 %s >%s" % (codec, ";".join(chunks), d))
            meta.append(("enc", codec, b"".join(TG.spec_bytes(c) for c in chunks), d, ";".join(chunks)))
            k += 1
    if S.replay_real is not None:
        lines, meta = S.replay_real
    res = run_lines(S.harness, lines, ctx.scratch, "c-real", hang_timeout=10.0, total_timeout=200)
    bad = []
    for l, m, r in zip(lines, meta, res):
        kind, codec, data, dump, spec = m
        ctx.coverage["evaluations"] += 1
        ctx.coverage["distinct_nontrivial"] += 1 if data else 0
        if r == "SKIPPED":
            continue
        if r == "HANG" or r.startswith("CRASH"):
            bad.append(("%s:%sstream:%s" % ("hang" if r == "HANG" else "crash", "i" if kind == "dec" else "o", codec),
                        "%s_xfrm on the real %s library: %s" % ("istream" if kind == "dec" else "ostream", codec, r[:200]),
                        dict(kind="real-" + kind, codec=codec, line=l, data_b64=b64(data) if len(data) < 3000000 else None)))
            continue
        got = open(dump, "rb").read() if os.path.exists(dump) else b""
        if kind == "dec":
            refout, st = ref_decompress(codec, data, S.refzstd)
            end = r.split(" ")[1]
            why = None
            sig = None
            n = min(len(got), len(refout))
            if got[:n] != refout[:n]:
                sig, why = "wrong-bytes", "delivered bytes differ from the reference decompressor's output"
            elif st == "ok":
                if end == "ERR":
                    sig, why = "false-error", "the reference decompressor accepts the input, istream_xfrm reports an error"
                elif end == "EOF" and got != refout:
                    sig, why = "short-eof", "EOF after %d of %d bytes" % (len(got), len(refout))
            elif end == "EOF":
                sig, why = "truncated-accepted", "reference decompressor: %s; istream_xfrm: clean EOF after %d bytes" % (st, len(got))
            if why:
                bad.append(("%s:istream:%s" % (sig, codec), "real %s library: %s" % (codec, why),
                            dict(kind="real-dec", codec=codec, line=l, data_b64=b64(data), result=r[:200])))
        else:
            refout, st = ref_decompress(codec, got, S.refzstd)
            if not r.startswith("O OK"):
                bad.append(("false-error:ostream:" + codec, "ostream_xfrm on real %s reported an error" % codec,
                            dict(kind="real-enc", codec=codec, line=l, chunks=spec)))
            elif st != "ok" or refout != data:
                bad.append(("wrong-bytes:ostream:" + codec,
                            "output of ostream_xfrm(%s) expands to %d bytes (%s) with the reference decompressor, %d were appended"
                            % (codec, len(refout), st, len(data)),
                            dict(kind="real-enc", codec=codec, line=l, chunks=spec)))
    return bad


# ---------------- tool level ----------------------------------------------
def streaming_lengths(codec, z):
    """cumulative plain length after every compressed byte (single member; zstd not supported)"""
    if codec == "gzip":
        d = zlib.decompressobj(31)
    elif codec == "xz":
        d = lzma.LZMADecompressor(format=lzma.FORMAT_XZ)
    elif codec == "bzip2":
        d = bz2.BZ2Decompressor()
    else:
        return None
    out = []
    total = 0
    try:
        for i in range(len(z)):
            total += len(d.decompress(z[i:i + 1]))
            out.append(total)
    except Exception:
        pass
    return out


def tool_oracle(S):
    ctx = S.ctx
    rnd = random.Random(ctx.seed * 104729 + 1515)
    quick = ctx.tier == "quick"
    bad = []
    tasks = []
    n_arch = 3 if quick else 14
    classes = ["small", "edge", "big"] * 10
    archives = []
    if S.replay_tool is not None:
        archives = S.replay_tool
    else:
        for i in range(n_arch):
            files = gen_archive(rnd, S.bufsz_i, classes[i])
            archives.append((files, mk_tar(files), classes[i]))
    runs = 0
    for ai, (files, tar, cls) in enumerate(archives):
        rc0, h0, err0, img0 = tar2sqfs_image(S, tar)
        runs += 1
        if rc0 != 0:
            # the plain archive itself is refused: not C15's business, skip it
            ctx.notes.append("tool oracle: generated archive %d refused by tar2sqfs (%s)" % (ai, err0[:100]))
            continue
        bounds = tar_boundaries(files)
        jobs = []
        for codec in DRIVERS:
            arnd = random.Random(rnd.getrandbits(64))
            # (a) single member, (b) concatenated members (cuts inside headers, at record boundaries, anywhere),
            # (c) chunked pipe
            variants = [("single", [])]
            b = arnd.choice(bounds)
            variants.append(("split", sorted(set([b + arnd.choice([-512, -300, 0, 1, 100, 257]),
                                                  arnd.randint(1, len(tar) - 1)]))))
            if not quick:
                variants.append(("split3", [arnd.randint(1, len(tar) - 1) for _ in range(3)]))
            for vname, offs in variants:
                z = compress_split(codec, tar, arnd, S.refzstd, offs)
                jobs.append((codec, vname, z, None))
            z1 = compress_member(codec, tar, arnd, S.refzstd)
            jobs.append((codec, "chunked", z1, [arnd.choice([1, 7, 512, 4096, 65536, 100000]) for _ in range(200)]))
            # truncations: at places where the decoder has delivered exactly up to a header boundary, and anywhere
            cuts = set()
            if codec in ("gzip", "zstd"):
                fb = [o for o in bounds if 0 < o < len(tar) - 1024]
                if fb:
                    o = arnd.choice(fb)
                    zf = compress_member(codec, tar, arnd, S.refzstd, flush_at=[o])
                    # the flush point: shortest prefix that decodes to exactly o bytes
                    if codec == "gzip":
                        lens = streaming_lengths(codec, zf)
                        c = next((i + 1 for i, n in enumerate(lens) if n >= o), None)
                        if c and lens[c - 1] == o:
                            # extend over the sync marker so that nothing is pending
                            while c < len(lens) and lens[c] == o:
                                c += 1
                            jobs.append((codec, "cut-at-header", zf[:c], "trunc"))
                    else:
                        lo, hi = 1, len(zf)
                        # binary search on prefix length whose reference output reaches o
                        while lo < hi:
                            mid = (lo + hi) // 2
                            if len(ref_decompress(codec, zf[:mid], S.refzstd)[0]) >= o:
                                hi = mid
                            else:
                                lo = mid + 1
                        out, st = ref_decompress(codec, zf[:lo], S.refzstd)
                        if len(out) == o and st == "trunc":
                            jobs.append((codec, "cut-at-header", zf[:lo], "trunc"))
            elif cls == "small" or not quick:
                lens = streaming_lengths(codec, z1) if len(z1) < 40000 else None
                if lens:
                    hit = [i + 1 for i, n in enumerate(lens) if n in bounds and i + 1 < len(z1) - 8]
                    if hit:
                        jobs.append((codec, "cut-at-header", z1[:arnd.choice(hit)], "trunc"))
            for _ in range(1 if quick else 3):
                c = arnd.randint(1, len(z1) - 1)
                jobs.append((codec, "cut-random", z1[:c], "trunc"))
            jobs.append((codec, "cut-last-byte", z1[:-1], "trunc"))
            # bit flips (only where the format carries a checksum over the data)
            zc = z1
            if codec == "zstd":
                r = subprocess.run([S.refzstd, "c", "3", "1"], input=tar, capture_output=True)
                zc = r.stdout
            if codec == "xz":
                zc = lzma.compress(tar, format=lzma.FORMAT_XZ, preset=1, check=lzma.CHECK_CRC32)
            for _ in range(1 if quick else 4):
                zz = bytearray(zc)
                zz[arnd.randrange(12, len(zz))] ^= 1 << arnd.randrange(8)
                jobs.append((codec, "bitflip", bytes(zz), "flip"))
            jobs.append((codec, "garbage", z1 + b"\x01garbage" * 3, "garbage"))

        def run_job(j):
            codec, vname, z, extra = j
            if isinstance(extra, list):
                rc, h, err, img = tar2sqfs_image(S, z, chunks=extra, timeout=40)
            else:
                rc, h, err, img = tar2sqfs_image(S, z, timeout=40)
            if img:
                os.unlink(img)
            return j, rc, h, err

        with ThreadPoolExecutor(max_workers=12) as ex:
            results = list(ex.map(run_job, jobs))
        for (codec, vname, z, extra), rc, h, err in results:
            runs += 1
            rep = dict(kind="tool-tar2sqfs", codec=codec, variant=vname, tar_b64=b64(tar) if len(tar) < 2500000 else None,
                       input_b64=b64(z) if len(z) < 2500000 else None, rc=str(rc), stderr=err[-300:])
            if rc == "HANG":
                bad.append(("hang:tar2sqfs:%s:%s" % (codec, vname), "tar2sqfs does not terminate on %s input (%s)" % (codec, vname), rep))
            elif isinstance(rc, int) and (rc < 0 or rc > 1) or "Sanitizer" in err:
                bad.append(("crash:tar2sqfs:%s:%s" % (codec, vname), "tar2sqfs died (rc=%s) on %s input (%s): %s" % (rc, codec, vname, err[-200:]), rep))
            elif extra in ("trunc",):
                if rc == 0:
                    bad.append(("truncated-accepted:tar2sqfs:%s:%s" % (codec, vname),
                                "tar2sqfs exits 0 on a %s stream that ends inside a member (%s; image %s the full one)"
                                % (codec, vname, "equals" if h == h0 else "differs from"), rep))
            elif extra in ("flip", "garbage"):
                if rc == 0 and h != h0:
                    bad.append(("corrupt-accepted:tar2sqfs:%s:%s" % (codec, vname),
                                "tar2sqfs exits 0 with a different image on corrupted %s input (%s)" % (codec, vname), rep))
            else:
                if rc != 0:
                    bad.append(("false-error:tar2sqfs:%s:%s" % (codec, vname),
                                "tar2sqfs fails on a valid %s-wrapped archive (%s): %s" % (codec, vname, err[-200:]), rep))
                elif h != h0:
                    bad.append(("image-differs:tar2sqfs:%s:%s" % (codec, vname),
                                "image from %s-wrapped archive (%s) differs from the image of the plain archive" % (codec, vname), rep))
        # sqfs2tar -c X
        rc, ref, err = run_tool([S.tools["sqfs2tar"], img0], timeout=40)
        runs += 1
        if rc == 0:
            def s2t(codec):
                return codec, run_tool([S.tools["sqfs2tar"], "-c", codec, img0], timeout=25)
            with ThreadPoolExecutor(max_workers=4) as ex:
                rs = list(ex.map(s2t, DRIVERS))
            for codec, (rc, out, err) in rs:
                runs += 1
                rep = dict(kind="tool-sqfs2tar", codec=codec, tar_b64=b64(tar) if len(tar) < 2500000 else None, rc=str(rc),
                           plain_len=len(ref), stderr=err[-300:])
                if rc == "HANG":
                    bad.append(("hang:sqfs2tar:" + codec, "sqfs2tar -c %s does not terminate (uncompressed output is %d bytes)" % (codec, len(ref)), rep))
                    continue
                if rc != 0:
                    bad.append(("false-error:sqfs2tar:" + codec, "sqfs2tar -c %s failed: %s" % (codec, err[-200:]), rep))
                    continue
                dec, st = ref_decompress(codec, out, S.refzstd)
                if st != "ok" or dec != ref:
                    bad.append(("wrong-bytes:sqfs2tar:" + codec,
                                "sqfs2tar -c %s output expands to %d bytes (%s) with the reference decompressor, plain output has %d"
                                % (codec, len(dec), st, len(ref)), rep))
        if img0 and os.path.exists(img0):
            os.unlink(img0)
    ctx.coverage["evaluations"] += runs
    ctx.coverage["distinct_nontrivial"] += runs
    ctx.coverage.setdefault("distribution", {})["tool"] = dict(archives=len(archives), tool_runs=runs,
                                                               sizes=[len(a[1]) for a in archives])
    return bad


# ---------------- format detection matrix (props/C15/detect.py) -------------
def _load_detect():
    import importlib.util
    sp = importlib.util.spec_from_file_location("c15_detect", os.path.join(HERE, "detect.py"))
    m = importlib.util.module_from_spec(sp)
    sp.loader.exec_module(m)
    return m


def detect_oracle(S):
    """header flavour x arrival x first member names that begin with a codec magic: same image (or same refusal)
    as the plain POSIX archive of the same entries."""
    D = _load_detect()
    rnd = random.Random(S.ctx.seed * 7919 + 15)
    bad, stats = D.detect_matrix(S, compress_member, tar2sqfs_image, rnd, b64, only=S.replay_detect)
    S.ctx.coverage["evaluations"] = S.ctx.coverage.get("evaluations", 0) + stats["cells"] + stats["reference_runs"]
    S.ctx.coverage["distinct_nontrivial"] = S.ctx.coverage.get("distinct_nontrivial", 0) + stats["compared"]
    S.ctx.coverage.setdefault("distribution", {})["format_detection_matrix"] = dict(
        stats, flavours=D.FLAVOURS, arrivals=D.ARRIVALS, first_names=[t for t, _ in D.MAGIC_NAMES])
    return bad


# ---------------- chunked pipe with small first chunks (props/C15/chunkfeed.py) ---------
def chunk_oracle(S):
    """every arrival through a pipe whose first chunk is shorter than / around the codec magics, and plain archives with a
    magic-like first name cut inside the first header: same image as the regular-file arrival"""
    import chunkfeed as CF
    D = _load_detect()
    rnd = random.Random(S.ctx.seed * 6151 + 155)
    only = None
    if S.replay_chunk is not None:
        rp = S.replay_chunk
        only = dict(tar=base64.b64decode(rp["tar_b64"]), input=base64.b64decode(rp["input_b64"]), first=rp["first"], rest=rp["rest"],
                    family=rp.get("family"), arrival=rp.get("arrival"))
    bad, stats = CF.matrix(S, D, compress_member, compress_split, mk_tar, sha, b64, ENV, rnd, only=only)
    S.ctx.coverage["evaluations"] = S.ctx.coverage.get("evaluations", 0) + stats["cells"] + stats["regular_file_runs"]
    S.ctx.coverage["distinct_nontrivial"] = S.ctx.coverage.get("distinct_nontrivial", 0) + stats["compared"]
    S.ctx.coverage.setdefault("distribution", {})["chunked_pipe_matrix"] = stats
    return bad


# ---------------- decoder-side resource limits (props/C15/declimits.py) ---------
def limits_oracle(S):
    """valid streams at the extremes of what a decoder must provide (xz dictionary up to 96 MiB, zstd window up to 2^27, deflate
    distances up to 32 KiB / window bits 9..15, bzip2 block sizes 1..9, xz filter chains and checks): image of the plain archive;
    beyond the must-accept set: the answer of the admission model (coq/C15/DecLimits.v) for the tree's own constants"""
    import declimits as DL
    rnd = random.Random(S.ctx.seed * 3571 + 158)
    lim = dict(LIMITS)
    lim.setdefault("xz_dec_memlimit", 128 << 20)
    lim.setdefault("zstd_dec_wlogmax", 27)
    bad, stats = DL.run_matrix(S, lim, mk_tar, ref_decompress, tar2sqfs_image, b64, rnd, only=S.replay_limits)
    S.ctx.coverage["evaluations"] = S.ctx.coverage.get("evaluations", 0) + stats["cases"]
    S.ctx.coverage["distinct_nontrivial"] = S.ctx.coverage.get("distinct_nontrivial", 0) + stats["compared"] + stats["tie_cases"]
    S.ctx.coverage.setdefault("distribution", {})["decoder_limits_matrix"] = stats
    return bad


# ---------------- main ------------------------------------------------------
def load_corpus():
    p = os.path.join(HERE, "corpus.txt")
    if not os.path.exists(p):
        return []
    return [l.rstrip("\n") for l in open(p) if l.strip() and not l.startswith("#")]


def run(ctx):
    S = State()
    S.ctx = ctx
    if GEN_ERROR:
        ctx.proof_broken.append("C15/GenC15Limits.v: " + GEN_ERROR)
    counter = [0]

    def next_id():
        counter[0] += 1
        return counter[0]
    S.next_id = next_id
    info = B.build("asan")
    S.tools = info["tools"]
    S.harness = build_harness(info)
    with core.Lock("extract-C15"):
        S.model = core.build_model_driver("C15", "ExtractC15.v", os.path.join(HERE, "driver.ml"))
    S.refzstd = build_refzstd()
    ctx.log("build done")
    ctx.trusted += [
        "props/C15/h_toy.c, w_*.c, d_*.c, driver.ml (case parsing, memory streams, hashing glue)",
        "props/C15/toy.h: toy codec library, C twin of coq/C15/ToyCodec.v (compared exactly against it by the tie; the Coq side is "
        "PROVED to meet dec_contract / enc_contract); fake/{zlib,lzma,bzlib,zstd}.h adapters (error codes rotate through every "
        "code of the library, a failed stream stays failed)",
        "codec contract (coq/C15/XfrmSpec.v: dec_contract / enc_contract): the real zlib/liblzma/libbz2/libzstd are ASSUMED to meet it; "
        "their behaviour is only sampled (component + tool oracle against Python zlib/lzma/bz2 and the system libzstd via refzstd.c)",
        "reference decompressors: CPython zlib/lzma/bz2 modules, system libzstd (props/C15/refzstd.c)",
        "props/C15/gen_limits.c (interception of lzma_stream_decoder / inflateInit2 / BZ2_bzDecompressInit / ZSTD_DCtx_setParameter in the "
        "tree's sources -> coq/C15/GenC15Limits.v); props/C15/declimits.py: hand-written xz / zstd containers and the Python twins of "
        "lzma2_dict_size / zstd_window_size (same numbers as the Examples of Properties_C15.v); liblzma's decoder overhead < 1 MiB",
        "extraction with nat -> OCaml int (ExtrOcamlNatInt); ASan/UBSan verdicts; wall-clock hang detection (no output for "
        "6-10 s / tool timeout 25-40 s)",
    ]
    ctx.assumptions += [
        "wrapped streams never fail (I/O errors are C13); memory allocation succeeds",
        "xz.c is modelled by the gzip.c loop (lazy re-initialisation = reset at END); FLUSH_SYNC is modelled but unused by the wrappers",
        "tool level: identical images follow from the stream theorems only together with the tar layer (C04) and the raw file "
        "istream (C12); searched here, not proved",
    ]
    r = subprocess.run([S.harness], input=b"B\n", capture_output=True, env=ENV)
    m = re.match(rb"B (\d+) (\d+)", r.stdout)
    if not m:
        raise RuntimeError("harness does not answer: " + r.stderr.decode()[-500:])
    S.bufsz_i, S.bufsz_o = int(m.group(1)), int(m.group(2))
    S.corpus = load_corpus()
    S.replay_lines = None
    S.replay_real = None
    S.replay_tool = None
    S.replay_detect = None
    S.replay_chunk = None
    S.replay_limits = None
    do_toy = do_real = do_tool = do_detect = do_chunk = do_limits = True
    if ctx.replay:
        rp = json.load(open(ctx.replay))
        k = rp.get("kind", "")
        do_toy = do_real = do_tool = do_detect = do_chunk = do_limits = False
        if k == "tool-limits" and rp.get("tar_b64") and rp.get("input_b64"):
            S.replay_limits = rp
            do_limits = True
        elif k == "tool-chunked":
            S.replay_chunk = rp
            do_chunk = True
        elif k == "tool-detect":
            S.replay_detect = rp
            do_detect = True
        elif k.startswith("toy") and rp.get("line"):
            S.replay_lines = [rp["line"]]
            do_toy = True
        elif k.startswith("real") and rp.get("line"):
            # re-create the input file the line refers to
            line = rp["line"]
            mm = re.search(r" F(\S+?)[ +]", line)
            data = base64.b64decode(rp["data_b64"]) if rp.get("data_b64") else b""
            dump = os.path.join(ctx.scratch, "replay.out")
            if mm:
                p = os.path.join(ctx.scratch, "replay.z")
                open(p, "wb").write(data)
                line = line.replace("F" + mm.group(1), "F" + p)
            line = re.sub(r" >\S+$", " >" + dump, line)
            codec = rp.get("codec")
            if k == "real-enc":
                data = b"".join(TG.spec_bytes(c) for c in rp.get("chunks", "").split(";"))
            S.replay_real = ([line], [("dec" if k == "real-dec" else "enc", codec, data, dump, rp.get("chunks"))])
            do_real = True
        elif k.startswith("tool") and rp.get("tar_b64"):
            tar = base64.b64decode(rp["tar_b64"])
            files = []
            with tarfile.open(fileobj=io.BytesIO(tar)) as t:
                for ti in t:
                    files.append((ti.name, None if ti.isdir() else t.extractfile(ti).read()))
            S.replay_tool = [(files, tar, "replay")]
            do_tool = True
        else:
            do_toy = do_real = do_tool = do_detect = do_chunk = do_limits = True

    parts = os.environ.get("C15_PARTS")
    if parts:
        do_toy, do_real, do_tool = ("toy" in parts and do_toy), ("real" in parts and do_real), ("tool" in parts and do_tool)
        do_detect = "detect" in parts and do_detect
        do_chunk = "chunk" in parts and do_chunk
        do_limits = "limits" in parts and do_limits
    tie_bad, prop_bad = ([], [])
    if do_toy:
        tie_bad, prop_bad = toy_tie(S)
        ctx.log("toy tie done: %d tie mismatches, %d property failures" % (len(tie_bad), len(prop_bad)))
        for l, rc, rm in tie_bad[:4]:
            ctx.log("  tie mismatch: %s\n      impl : %s\n      model: %s" % (l[:300], rc[:200], rm[:200]))
        for l, j, rc, rm in prop_bad[:4]:
            ctx.log("  property failure %s: %s\n      impl : %s" % (j[0], l[:300], rc[:200]))
    real_bad = real_component(S) if do_real else []
    ctx.log("real-codec component oracle done: %d failures" % len(real_bad))
    tool_bad = tool_oracle(S) if do_tool else []
    ctx.log("tool oracle done: %d failures" % len(tool_bad))
    detect_bad = detect_oracle(S) if do_detect else []
    ctx.log("format detection matrix done: %d failures" % len(detect_bad))
    chunk_bad = chunk_oracle(S) if do_chunk else []
    ctx.log("chunked pipe matrix done: %d failures" % len(chunk_bad))
    limits_bad = limits_oracle(S) if do_limits else []
    ctx.log("decoder limits matrix done: %d failures (limits of the tree: %s)" % (len(limits_bad), LIMITS))
    tie_limits = [t for t in limits_bad if t[0].startswith("tie-declimit:")]
    limits_bad = [t for t in limits_bad if not t[0].startswith("tie-declimit:")]
    tool_bad = limits_bad + chunk_bad + detect_bad + tool_bad

    seen = set()
    for l, (sig, why), rc, rm in prop_bad:
        if sig in seen:
            continue
        seen.add(sig)
        ctx.violation(sig, "component (toy codec under the real driver loop): %s" % why,
                      dict(kind="toy", line=l if len(l) < 200000 else l[:200000], impl=rc[:300], model=rm[:300]))
    for sig, why, rep in real_bad + tool_bad:
        if sig in seen:
            continue
        seen.add(sig)
        ctx.violation(sig, why, rep)
    # a tie mismatch is reported unless the same case already is a concrete property failure (core.finish drops the
    # no-input report when a concrete, not yet known violation exists; failures matching a recorded finding must not
    # hide a broken correspondence)
    bad_lines = set(l for l, _, _, _ in prop_bad)
    tie_only = [t for t in tie_bad if t[0] not in bad_lines]
    if tie_only:
        l, rc, rm = tie_only[0]
        ctx.violation("tie-toy:" + l.split(" ")[0] + ":" + (l.split(" ")[1] if l[0] in "IO" else "magic"),
                      "correspondence model vs. working tree broken (%d of the cases): impl=%s model=%s; the property oracle "
                      "(toy reference decoder, real-codec component oracle, tool oracle) found no failing input"
                      % (len(tie_only), rc[:120], rm[:120]),
                      dict(kind="toy", line=l if len(l) < 200000 else l[:200000], impl=rc[:300], model=rm[:300],
                           correspondence="props/C15: extracted XfrmModel+ToyCodec = istream.c/ostream.c/{gzip,xz,bzip2,zstd}.c on toy.h (exact trace)"),
                      no_input=True)
    if tie_limits and not limits_bad:
        sig, why, rep = tie_limits[0]
        rep = dict(rep, correspondence="props/C15: admission model coq/C15/DecLimits.v with the constants of C15/GenC15Limits.v = tar2sqfs on "
                                       "hand-written xz / zstd headers beyond the must-accept set")
        ctx.violation(sig, why + "; every must-accept input still converts", rep, no_input=True)
    ctx.coverage["rule"] = (
        "seed %d. toy tie per driver (gzip,xz,bzip2,zstd): 17 directed istream + 6 directed ostream cases at the proofs' case splits "
        "(plain size BUFSZ-1/BUFSZ/BUFSZ+1 and cuts before/inside the end marker, final run longer than the buffer so that END comes from a call "
        "without input, member boundary exactly at the buffer boundary with 1-byte windows, empty member, lone magic byte, trailing garbage, "
        "want=0 after a consumed buffer (F24, repaired); member 1/2/3 bytes longer than outbuf at finish, inbuf full / full+1 / two inbufs); "
        "random istream cases = 0-3 toy members (literal/run blocks, checksum or "
        "final-run ending), plain size small or k*BUFSZ+{-515..4097}, mutations truncate/bit-flip/garbage/zero-pad (46%%), "
        "window schedules {all,1-4,mixed,7|131072}, reader (want,take) styles incl. 0/BUFSZ+-1/2*BUFSZ, codec knobs "
        "max-in/max-out per call and BUF-on-finish; ostream cases = chunk lists (random/run/zero-fill/empty) totalling small or "
        "k*BUFSZ+{-512..511}, block size 1..255, greedy/final-run/throttle knobs; magic/tar_probe cases around every table entry and "
        "offsets 257/769.  real codecs: same harness with the real libraries, compressed by Python zlib/lzma/bz2 + libzstd at random levels, "
        "0-2 member splits, 45%% mutated.  tools: archives small / ~BUFSZ / k*BUFSZ with incompressible tail; single, split (inside headers), "
        "chunked pipe, cut at header boundary (flush point), random cuts, last byte, bit flips, trailing garbage; sqfs2tar -c X vs reference.  "
        "format detection matrix: header flavour {v7, POSIX, GNU, POSIX behind a zero record} x arrival {plain,gzip,xz,zstd,bzip2} x first member "
        "name {neutral, 5 names beginning with a codec magic, 3 near misses} = 180 cells against the plain POSIX archive of the same entries "
        "(5 v7/plain/magic cells are ambiguous by construction and not compared). "
        "chunked pipe matrix: arrival {plain, gzip/xz/zstd/bzip2 x single/two members} x first chunk {1,2,3,5,7} bytes handed over alone "
        "(writer polls FIONREAD until the reader took it) x later chunks {1,511,4096}, and plain POSIX/GNU archives whose first name "
        "begins with a codec magic x first chunk {3,6,100,256,257,262,263,511} (inside the first header, around the ustar probe): image "
        "equal to the regular-file arrival of the plain archive. "
        "decoder limits matrix: two archives (200 KB with 3000-byte repeats at distance ~32 KiB; 1.28 MB with > 900 kB of text) x "
        "xz {stored LZMA2 chunks under a hand-written header announcing dictionary bits 0..26 (one per run), 28 = 64 MiB, 29 = 96 MiB "
        "(two blocks), python lzma with dict_size 64 MiB+1 / 96 MiB, delta+lzma2, x86+lzma2, sha256 / no check, lc/lp/pb extremes}, zstd "
        "{raw-block frames announcing windows 1 KiB, 2^27, 120 MiB, one random descriptor, with frame content size; libzstd "
        "windowLog 27 + long distance matching}, gzip {window bits 9 and 15, stored, fixed Huffman, members of mixed window bits}, bzip2 "
        "{block size 1, 5, 9, nine members of levels 1..9}: each first restored by the reference decompressor, then image equal to the "
        "plain archive's; beyond the must-accept set (xz 128 MiB, zstd 144 MiB): answer predicted by coq/C15/DecLimits.v from the "
        "constants measured on the tree (gen_limits.c). "
        "non-trivial = non-empty plain data / magic hit" % ctx.seed)


if __name__ == "__main__":
    setup()
