"""C19 - copies of libsquashfs objects are independent, equivalent, safely destroyable.

Theorems: coq/Properties_C19.v (layer (ii) heap model of the copy/destroy hooks, layer (i) machines).
Tie: the ASan+UBSan+LeakSanitizer harness h_objcopy.c (+ probes p_*.c) executes scripted
  create; history; copy; interleaved ops on original and copy; drop x2 (both orders)
through the public API for every copyable kind and prints answers; compared with
  (t1) layer (ii): the extracted sqfs_copy/sqfs_drop run on a model heap built from the shape the probe
       reports for the original: object graph of the copy (fresh / alias / NULL per field, headers,
       internal pointers), reference counts of file and compressor after the copy and after every drop;
  (t2) layer (i): the extracted id-table / fragment-table / xattr-writer machines predict every answer of
       original and copy.
Search oracle (the property itself, on the implementation): every answer of the original equals the
answer of a twin that was never copied, every answer of the copy equals the answer of a twin with the
copy's history; no sanitizer report, signal, leak or descriptor leak; shared refcounts restored.
"""
import json
import os
import random
import re
import struct
import subprocess

import sys

from vlib import build as B
from vlib import core

HERE = os.path.dirname(os.path.abspath(__file__))
if HERE not in sys.path:
    sys.path.insert(0, HERE)
import util_tie as U      # noqa: E402  (containers leg: coq/Util models vs lib/util/src)
import cmp_census as CC   # noqa: E402  (census of the comparators handed to rbtree_init / qsort)
LEVEL = "proof"

COMPRESSORS = ["gzip", "xz", "lzma", "lz4", "zstd"]
COMP_ID = {"gzip": 1, "lzma": 2, "lzo": 3, "xz": 4, "lz4": 5, "zstd": 6}
MODEL_KIND = {"idtbl": "id", "fragtbl": "frag", "xwr": "xwr", "file": "file", "meta": "meta",
              "dir": "dir", "data": "data", "xrd": "xrd"}
COMP_MODEL = {1: "gzip", 2: "lzma", 4: "xz", 5: "lz4", 6: "zstd"}
ENV_KINDS = ("meta", "dir", "data", "xrd")


def hx(b):
    return b.hex() if b else "-"


# --------------------------------------------------------------------------- images
class Image:
    def __init__(self, path, comp, files, dirs, seed):
        self.path, self.comp, self.files, self.dirs, self.seed = path, comp, files, dirs, seed
        d = open(path, "rb").read()
        (self.magic, self.inode_count, _mt, self.block_size, self.frag_count, self.comp_id, _bl,
         self.flags, self.id_count, _vj, _vn, self.root_ref, self.bytes_used, self.id_start,
         self.xattr_start, self.inode_start, self.dir_start, self.frag_start,
         self.export_start) = struct.unpack("<IIIIIHHHHHHQQQQQQQQ", d[:96])
        self.meta_blocks = {0: self._walk(d, self.inode_start, self.dir_start),
                            1: self._walk(d, self.dir_start, min(self.frag_start, self.id_start))}
        self.has_xattr = not (self.flags & 0x200) and self.xattr_start != 0xFFFFFFFFFFFFFFFF
        self.xattr_ids = 0
        if self.xattr_start != 0xFFFFFFFFFFFFFFFF and self.xattr_start + 16 <= len(d):
            self.xattr_ids = struct.unpack("<I", d[self.xattr_start + 8:self.xattr_start + 12])[0]

    @staticmethod
    def _walk(d, start, end):
        out, off = [], start
        while off + 2 <= end and len(out) < 64:
            out.append(off)
            off += 2 + (struct.unpack("<H", d[off:off + 2])[0] & 0x7FFF)
        return out


def gen_tree(rnd, root, bs):
    """a small tree with every file shape the data reader distinguishes; returns (files, dirs, xattr text)"""
    files, dirs = [], []
    os.makedirs(root)

    def put(rel, data):
        p = os.path.join(root, rel)
        os.makedirs(os.path.dirname(p), exist_ok=True)
        open(p, "wb").write(data)
        files.append(rel)

    rb = lambda n: bytes(rnd.getrandbits(8) for _ in range(n))
    rep = lambda n: (b"squashfs " * (n // 9 + 1))[:n]
    put("empty", b"")
    put("small.txt", rep(rnd.randint(1, 200)))
    put("frag2", rb(rnd.randint(1, 300)))
    put("big.bin", rb(3 * bs + rnd.randint(1, bs - 1)))
    put("rep.txt", rep(5 * bs + rnd.randint(0, 50)))
    put("exact.bin", rep(bs) + rb(bs))
    put("sparse.bin", bytes(3 * bs) + rb(rnd.randint(1, 100)))
    ndirs = rnd.randint(2, 6)
    for i in range(ndirs):
        d = "d%d" % i
        if i % 2 and i > 0:
            d = "d%d/d%d" % (i - 1, i)
        os.makedirs(os.path.join(root, d), exist_ok=True)
        dirs.append(d)
        for j in range(rnd.randint(0, 3)):
            put("%s/f%d" % (d, j), rb(rnd.randint(0, 400)))
    try:
        os.symlink("../rep.txt", os.path.join(root, dirs[0], "lnk"))
    except OSError:
        pass
    big = rb(40).hex()
    xa = []
    for i, f in enumerate(rnd.sample(files, min(len(files), 5))):
        xa.append("# file: %s" % f)
        xa.append('user.idx="%d"' % (i % 3))
        if i % 2 == 0:
            xa.append("user.big=0x%s" % big)
        if i == 1:
            xa.append('trusted.t="%s"' % ("v" * rnd.randint(1, 30)))
        xa.append("")
    xa += ["# file: %s" % dirs[0], 'user.dir="yes"', "user.big=0x%s" % big, ""]
    return files, dirs, "\n".join(xa) + "\n"


def make_images(ctx, info, comps, rnd, with_xattr=True):
    out = []
    env = dict(os.environ, ASAN_OPTIONS="detect_leaks=0")
    for i, comp in enumerate(comps):
        seed = rnd.randint(0, 2 ** 30)
        r2 = random.Random(seed)
        root = os.path.join(ctx.scratch, "tree%d" % i)
        files, dirs, xa = gen_tree(r2, root, 4096)
        xf = os.path.join(ctx.scratch, "xattr%d.txt" % i)
        open(xf, "w").write(xa)
        img = os.path.join(ctx.scratch, "img%d.%s.sqfs" % (i, comp))
        cmd = [info["tools"]["gensquashfs"], "-q", "-f", "-c", comp, "-b", "4096", "-D", root]
        if with_xattr and (i % 4 != 3):
            cmd += ["-A", xf]
        r = subprocess.run(cmd + [img], stdout=subprocess.PIPE, stderr=subprocess.PIPE, env=env)
        if r.returncode != 0:
            raise RuntimeError("gensquashfs failed: " + r.stderr.decode()[-500:])
        out.append(Image(img, comp, files, dirs, seed))
    return out


# --------------------------------------------------------------------------- cases
class Case:
    """script lines with tags: (line, group) - answers of lines in one group must be equal"""

    def __init__(self, cid, kind, args, sub=""):
        self.cid, self.kind, self.args, self.sub = cid, kind, args, sub
        self.lines = []      # (text, group or None, slot or None)
        self.group = 0
        self.history = []    # ops (token lists) applied before the copy
        self.ops = {"O": [], "C": []}
        self.copied = False
        self.dropped = set()
        self.twin_only = False

    def header(self):
        return "CASE %d %s %s" % (self.cid, self.kind, " ".join(str(a) for a in self.args))

    def op(self, who, toks):
        """who: 'H' history (O,P,Q) | 'O' | 'C'"""
        text = " ".join(str(t) for t in toks)
        self.group += 1
        if who == "H":
            for s in "OPQ":
                self.lines.append(("%s %s" % (s, text), self.group, s))
            self.history.append(list(map(str, toks)))
        elif who == "O":
            self.lines.append(("O " + text, self.group, "O"))
            self.lines.append(("P " + text, self.group, "P"))
            self.ops["O"].append(list(map(str, toks)))
        else:
            self.lines.append(("C " + text, self.group, "C"))
            self.lines.append(("Q " + text, self.group, "Q"))
            self.ops["C"].append(list(map(str, toks)))

    def copy(self):
        self.lines.append(("COPY", None, None))
        if self.kind == "data":
            self.lines.append(("Q sclose", None, None))
        self.copied = True

    def drop(self, who):
        self.lines.append(("DROP " + who, None, None))
        self.lines.append(("DROP " + ("P" if who == "O" else "Q"), None, None))
        self.dropped.add(who)

    def script(self):
        return [self.header()] + [l[0] for l in self.lines] + ["END"]

    def to_json(self):
        return dict(cid=self.cid, kind=self.kind, sub=self.sub, script=self.script())


def comp_configs(rnd, tier):
    """(id, flags, level, bs, a, b, c, d) for every back end, compress and uncompress"""
    cfgs = []
    bs = 8192
    for unc in (0, 0x8000):
        cfgs.append((1, unc, 9, bs, 15, 0, 0, 0))                       # gzip default
        cfgs.append((1, unc | rnd.choice([0x01, 0x0A, 0x1F]), rnd.randint(1, 9), bs, rnd.randint(8, 15), 0, 0, 0))
        cfgs.append((4, unc, 6, bs, bs, 3, 0, 2))                         # xz default
        cfgs.append((4, unc | rnd.choice([0x01, 0x100, 0x108]), rnd.randint(0, 6), bs, 8192 << rnd.randint(0, 2),
                     rnd.randint(0, 2), rnd.randint(0, 2), rnd.randint(0, 4)))
        cfgs.append((2, unc, 5, bs, bs, 3, 0, 2))                         # lzma default
        cfgs.append((2, unc | 1, rnd.randint(0, 6), bs, 8192 << rnd.randint(0, 2), rnd.randint(0, 2),
                     rnd.randint(0, 2), rnd.randint(0, 4)))
        cfgs.append((5, unc, 0, bs, 0, 0, 0, 0))                          # lz4
        cfgs.append((5, unc | 1, 0, bs, 0, 0, 0, 0))                      # lz4 hc
        cfgs.append((6, unc, 15, bs, 0, 0, 0, 0))                         # zstd default
        cfgs.append((6, unc, rnd.randint(1, 19), bs, 0, 0, 0, 0))
    return cfgs


def rand_block(rnd, maxlen):
    n = rnd.choice([0, 1, 7, 64, 500, 1000, maxlen // 2, maxlen - 1, maxlen])
    style = rnd.randint(0, 3)
    if style == 0:
        return bytes(rnd.getrandbits(8) for _ in range(n))
    if style == 1:
        return (b"abcabcabd" * (n // 9 + 1))[:n]
    if style == 2:
        return bytes(n)
    w = [b"the ", b"quick ", b"brown ", b"fox ", bytes([rnd.getrandbits(8)])]
    out = b""
    while len(out) < n:
        out += rnd.choice(w)
    return out[:n]


def comp_options(rnd, cid):
    """bytes a compressor's read_options finds behind the super block: mostly valid, sometimes not"""
    if cid == 1:
        body = struct.pack("<IHH", rnd.choice([1, 1, 5, 9, 0, 12]), rnd.choice([8, 12, 15, 15, 7]), rnd.choice([0, 0, 1, 0x1F, 0x40]))
    elif cid == 4:
        body = struct.pack("<II", rnd.choice([8192, 16384, 1 << 20, 12288, 5000]), rnd.choice([0, 1, 0x108, 0x1000]))
    elif cid == 5:
        body = struct.pack("<II", rnd.choice([1, 1, 2]), rnd.choice([0, 1]))
    elif cid == 6:
        body = struct.pack("<I", rnd.choice([1, 15, 22]))
    else:
        body = struct.pack("<I", 0)
    hdr = 0x8000 | len(body)
    if rnd.random() < 0.1:
        hdr = rnd.choice([len(body), 0x8000 | (len(body) + 4), 0])
    return struct.pack("<H", hdr) + body


XKEYS = [b"user.a", b"user.b", b"user.long_key_name", b"trusted.x", b"security.s", b"user.", b"bogus.k", b"user.c"]


def gen_ops(rnd, c, img, n, who, state):
    """append n random ops of the case's kind for `who`"""
    k = c.kind
    for _ in range(n):
        if k == "idtbl":
            r = rnd.random()
            if r < 0.6:
                c.op(who, ["i2x", rnd.choice([0, 1, 1000, 65534, 4294967295] + list(range(10, 10 + state["idpool"])))])
            elif r < 0.92:
                c.op(who, ["x2i", rnd.randint(0, 12)])
            else:
                c.op(who, ["wr"])
        elif k == "fragtbl":
            r = rnd.random()
            if r < 0.4:
                c.op(who, ["app", rnd.choice([96, 4096, 2 ** 40 + 5, 2 ** 61 + 3]), rnd.choice([0, 100, 4096, (1 << 24) | 77])])
            elif r < 0.55:
                c.op(who, ["set", rnd.randint(0, 6), rnd.randint(0, 10 ** 6), rnd.randint(0, 2 ** 25)])
            elif r < 0.8:
                c.op(who, ["get", rnd.randint(0, 8)])
            elif r < 0.92:
                c.op(who, ["size"])
            else:
                c.op(who, ["wr"])
        elif k == "xwr":
            r = rnd.random()
            if r < 0.85:
                c.op(who, ["begin"])
                for _i in range(rnd.randint(0, 4)):
                    val = rnd.choice([b"", b"1", b"2", b"0123456789abcdef", bytes(rnd.getrandbits(8) for _ in range(rnd.randint(1, 20)))])
                    c.op(who, ["add", hx(rnd.choice(XKEYS)), hx(val)])
                if rnd.random() < 0.9:
                    c.op(who, ["end"])
                    if rnd.random() < 0.15:     # a second begin without adds: empty block
                        c.op(who, ["begin"])
                        c.op(who, ["end"])
            else:
                c.op(who, ["flush"])
        elif k == "comp":
            unc = state["unc"]
            r = rnd.random()
            if r < 0.7:
                data = rand_block(rnd, state["maxblk"])
                outsz = rnd.choice([len(data), len(data), max(len(data), 16) * 2, max(1, len(data) // 2), state["maxblk"]])
                c.op(who, ["ublk" if unc else "blk", hx(data), max(outsz, 1)])
            elif r < 0.8:
                c.op(who, ["cfg"])
            elif r < 0.9:
                c.op(who, ["wopt"])
            else:
                c.op(who, ["ropt", hx(comp_options(rnd, state["cid"]))])
        elif k == "file" and not state["ro"]:
            r = rnd.random()
            if r < 0.5:
                c.op(who, ["wr", rnd.choice([0, 5, 100]), hx(bytes(rnd.getrandbits(8) for _ in range(rnd.randint(0, 20))))])
            elif r < 0.8:
                c.op(who, ["rd", rnd.choice([0, 1, 50, 200]), rnd.choice([0, 1, 10, 96])])
            else:
                c.op(who, ["size"])
        elif k == "file":
            r = rnd.random()
            sz = state["size"]
            if r < 0.7:
                c.op(who, ["rd", rnd.choice([0, 1, 96, max(0, sz - 10), sz, sz + 5]), rnd.choice([0, 1, 10, 96, 4096])])
            elif r < 0.85:
                c.op(who, ["size"])
            else:
                c.op(who, ["name"])
        elif k == "meta":
            blocks = img.meta_blocks[state["which"]]
            r = rnd.random()
            if r < 0.4:
                blk = rnd.choice(blocks) if blocks and rnd.random() < 0.85 else rnd.randint(0, img.bytes_used + 10)
                c.op(who, ["seek", blk, rnd.choice([0, 0, 1, 17, 100, 2000, 8191, 8192])])
            elif r < 0.85:
                c.op(who, ["rd", rnd.choice([1, 2, 16, 32, 100, 500, 9000])])
            else:
                c.op(who, ["pos"])
        elif k == "dir":
            r = rnd.random()
            if r < 0.15:
                c.op(who, ["root"])
            elif r < 0.35:
                c.op(who, ["open", rnd.choice([0, 0, 1])])
            elif r < 0.65:
                c.op(who, ["read"])
            elif r < 0.8:
                c.op(who, ["get"])
            elif r < 0.9:
                p = rnd.choice(img.dirs + img.files + ["", "/", "nope", img.dirs[0] + "/.", img.dirs[-1] + "/.."])
                c.op(who, ["path", hx(p.encode())])
            elif r < 0.96:
                c.op(who, ["inum", rnd.randint(0, img.inode_count + 2)])
            else:
                c.op(who, ["geti", rnd.choice([img.root_ref, 0, 5, 1 << 20])])
        elif k == "data":
            r = rnd.random()
            if r < 0.2:
                c.op(who, ["ino", hx(rnd.choice(img.files + [img.dirs[0]]).encode())])
            elif r < 0.5:
                c.op(who, ["read", rnd.choice([0, 1, 100, 4095, 4096, 4097, 9000, 12288, 20000, 30000]),
                           rnd.choice([1, 10, 100, 4096, 5000, 20000])])
            elif r < 0.65:
                c.op(who, ["blk", rnd.randint(0, 6)])
            elif r < 0.78:
                c.op(who, ["frag"])
            elif r < 0.86:
                c.op(who, ["sopen"])
            elif r < 0.96:
                c.op(who, ["sget", rnd.choice([1, 100, 4096, 10000])])
            else:
                c.op(who, ["sclose"])
        elif k == "xrd" and not state["loaded"]:
            # seek/read on a reader without tables dereference NULL inside the library (API misuse,
            # nothing to do with copies): only the calls that check for it
            n_ids = img.xattr_ids
            if rnd.random() < 0.5:
                c.op(who, ["desc", rnd.choice(list(range(0, n_ids + 2)) + [0xFFFFFFFF])])
            else:
                # not index 0: read_all(0) on a reader without tables passes get_desc and then
                # dereferences the NULL kv reader in seek_kv (library robustness issue, see NOTES.md)
                c.op(who, ["all", rnd.choice(list(range(1, n_ids + 3)) + [0xFFFFFFFF])])
        elif k == "xrd":
            r = rnd.random()
            n_ids = img.xattr_ids
            if r < 0.3:
                c.op(who, ["desc", rnd.choice(list(range(0, n_ids + 2)) + [0xFFFFFFFF])])
            elif r < 0.45:
                c.op(who, ["seek"])
            elif r < 0.6:
                c.op(who, ["rkey"])
            elif r < 0.7:
                c.op(who, ["rval"])
            elif r < 0.8:
                c.op(who, ["rkv"])
            else:
                c.op(who, ["all", rnd.choice(list(range(0, n_ids + 2)) + [0xFFFFFFFF])])


def gen_ropt_case(rnd, cid, cfg, tier):
    """directed: options are read into a compressor, then it is copied, then both compress the same blocks"""
    c = Case(cid, "comp", list(cfg), sub=COMP_MODEL[cfg[0]] + ("-unc" if cfg[1] & 0x8000 else "") + "-ropt")
    c.img = None
    unc = bool(cfg[1] & 0x8000)
    for _ in range(rnd.randint(1, 2)):
        o = comp_options(rnd, cfg[0])
        c.op("H", ["ropt", hx(o)])
    c.op("H", ["cfg"])
    c.copy()
    for i in range(3):
        data = [(b"the quick brown fox jumps over the lazy dog " * 60)[:2500], rand_block(rnd, 4096), rand_block(rnd, 4096)][i]
        for who in "OC":
            c.op(who, ["ublk" if unc else "blk", hx(data), max(len(data), 1)])
    for who in "OC":
        c.op(who, ["cfg"])
        c.op(who, ["wopt"])
    c.drop(rnd.choice("OC"))
    return c


def gen_case(rnd, cid, kind, images, tier, comp_cfg=None):
    img = rnd.choice(images) if images else None
    state = {}
    sub = ""
    if kind in ("idtbl", "fragtbl"):
        use_img = img is not None and rnd.random() < 0.25
        c = Case(cid, kind, [img.path if use_img else "-"])
        state["idpool"] = rnd.randint(1, 6)
        if use_img:
            c.twin_only = True
            c.op("H", ["load"])
    elif kind == "xwr":
        c = Case(cid, kind, [])
    elif kind == "comp":
        cfg = comp_cfg
        c = Case(cid, kind, list(cfg), sub=COMP_MODEL[cfg[0]] + ("-unc" if cfg[1] & 0x8000 else ""))
        state["unc"] = bool(cfg[1] & 0x8000)
        state["cid"] = cfg[0]
        state["maxblk"] = 4096 if tier == "quick" else 8192
    elif kind == "file":
        ro = 1 if rnd.random() < 0.85 else 0
        path = img.path if ro else os.path.join(os.path.dirname(img.path), "rw%d.bin" % cid)
        c = Case(cid, kind, [path, ro], sub="ro" if ro else "rw")
        state["size"] = img.bytes_used
        state["ro"] = bool(ro)
    elif kind == "meta":
        state["which"] = rnd.randint(0, 1)
        c = Case(cid, kind, [img.path, state["which"]], sub=img.comp)
    elif kind == "dir":
        c = Case(cid, kind, [img.path, rnd.choice([0, 1, 1])], sub=img.comp)
    elif kind == "data":
        c = Case(cid, kind, [img.path], sub=img.comp)
        if rnd.random() < 0.9:
            c.op("H", ["loadfrag"])
    elif kind == "xrd":
        c = Case(cid, kind, [img.path], sub=img.comp)
        state["loaded"] = False
        if rnd.random() < 0.9:
            c.op("H", ["load"])
            state["loaded"] = img.has_xattr
    else:
        raise ValueError(kind)
    c.img = img
    gen_ops(rnd, c, img, rnd.randint(0, 8), "H", state)
    if kind in ("meta", "dir") and cid % 3 == 0:
        # "last holder" life cycle: the creator drops its own references to file and compressor before the
        # copy, so original and copy hold the LAST ones and the second drop runs the destroy hooks of file and
        # compressor (release_safe_general; decided by the case number, not by rnd: the other cases are unchanged)
        c.lines.append(("RELENV", None, None))
    c.copy()
    order = rnd.choice(["OC", "CO", "O", "C", ""])
    # interleaved ops, first drop, ops on the survivor, second drop
    sides = "O" if (kind == "file" and c.sub == "rw") else "OC"      # a writable file has no copy
    for _ in range(rnd.randint(0, 8)):
        gen_ops(rnd, c, img, 1, rnd.choice(sides), state)
    if order:
        c.drop(order[0])
        survivor = "C" if order[0] == "O" else "O"
        if survivor in sides:
            gen_ops(rnd, c, img, rnd.randint(0, 5), survivor, state)
        if kind == "data" and rnd.random() < 0.5:
            # the stream of the dropped reader is still usable
            c.op(order[0], ["sget", 100])
        if len(order) > 1:
            c.drop(order[1])
    return c


# --------------------------------------------------------------------------- running
def run_harness(exe, cases, timeout):
    """returns {cid: (out_lines, crashed, stderr)}; restarts after a crash"""
    res = {}
    todo = list(cases)
    env = dict(os.environ, ASAN_OPTIONS="detect_leaks=1:abort_on_error=0:allocator_may_return_null=1",
               LSAN_OPTIONS="print_suppressions=0", UBSAN_OPTIONS="print_stacktrace=1")
    while todo:
        data = "\n".join("\n".join(c.script()) for c in todo) + "\n"
        try:
            r = subprocess.run([exe], input=data.encode(), stdout=subprocess.PIPE, stderr=subprocess.PIPE,
                               env=env, timeout=timeout)
            out, err, rc = r.stdout.decode("utf-8", "replace"), r.stderr.decode("utf-8", "replace"), r.returncode
        except subprocess.TimeoutExpired as e:
            out = (e.stdout or b"").decode("utf-8", "replace")
            err, rc = "[timeout]", 124
        cur, buf = None, {}
        for line in out.split("\n"):
            if line.startswith("CASE "):
                cur = int(line.split()[1])
                buf[cur] = []
            if cur is not None and line != "":
                buf[cur].append(line)
        done = [cid for cid, ls in buf.items() if ls and ls[-1].startswith("END ")]
        order = [c.cid for c in todo]
        leaky = [cid for cid in order if cid in done and "leak=1" in buf[cid][-1]]
        if leaky:
            # LeakSanitizer keeps reporting an old leak at every later check of the same process:
            # only the first leaking case is attributed, everything after it runs again in a fresh process
            cut = order.index(leaky[0])
            done = [cid for cid in done if order.index(cid) <= cut]
        for cid in done:
            # LeakSanitizer reports go to stderr without killing the process: attach them
            res[cid] = (buf[cid], False, err if "leak=1" in buf[cid][-1] else "")
        rest = [c for c in todo if c.cid not in done]
        if not rest:
            break
        if leaky:
            todo = rest
            continue
        # the first unfinished case is the one that killed the process (or hit the timeout)
        bad = rest[0]
        res[bad.cid] = (buf.get(bad.cid, []), True, err[-6000:] + "\n[exit status %d]" % rc)
        todo = rest[1:]
    return res


def classify_crash(err):
    if "pc 0x000000000000" in err or "Hint: pc points to the zero page" in err:
        return "null-call"
    m = re.search(r"ERROR: (?:AddressSanitizer|LeakSanitizer): (attempting )?([A-Za-z-]+)", err)
    if m:
        return m.group(2).lower()
    if "runtime error" in err:
        return "ubsan"
    if "[timeout]" in err:
        return "timeout"
    return "died"


def executing(c, lines):
    """the script line the harness was executing when its output stopped"""
    n = len(lines) - 1          # lines after the CASE header
    for (text, _g, _s) in c.lines:
        if text == "COPY":
            k = 3               # SHAPE, COPY, RC (the copy itself happens after SHAPE)
            if n < k:
                return text
        elif text.startswith("DROP "):
            k = 2 if text[5] in "OC" else 1
            if n < k:
                return text
        else:
            k = 1
            if n < 1 or (n == 1 and lines[-1].endswith(" : ")):
                return text
        n -= k
    return "END (final releases)"


def parse_case(c, lines):
    """align the harness output with the script; returns dict"""
    out = dict(answers={}, shape=None, copy=None, rcs=[], final=None, end=None, complete=False, created=None)
    it = iter(lines)
    first = next(it, "")
    m = re.match(r"CASE \d+ \S+ created=(\d+)", first)
    out["created"] = m.group(1) if m else None
    for (text, group, slot) in c.lines:
        if text == "COPY":
            l = next(it, None)
            if l is None:
                return out
            if l.startswith("SHAPE "):
                out["shape"] = l[6:]
                l = next(it, None)
                if l is None:
                    return out
            out["copy"] = l[5:] if l.startswith("COPY ") else l
            l = next(it, None)
            if l is None:
                return out
            out["rcs"].append(("COPY", l))
        elif text == "RELENV":
            if next(it, None) is None:
                return out
        elif text.startswith("DROP "):
            l = next(it, None)
            if l is None:
                return out
            if text[5] in "OC":
                l2 = next(it, None)
                if l2 is None:
                    return out
                out["rcs"].append((text, l2))
        else:
            l = next(it, None)
            if l is None:
                return out
            ans = l.split(" : ", 1)[1] if " : " in l else l
            if group is not None:
                out["answers"].setdefault(group, []).append((slot, text, ans))
            if text == "Q sclose":
                pass
            out.setdefault("by_slot", {}).setdefault(slot or "Q", []).append((text, ans))
    l = next(it, None)
    if l and l.startswith("FINAL "):
        out["final"] = l[6:]
        l = next(it, None)
    if l and l.startswith("END "):
        out["end"] = l
        out["complete"] = True
    return out


def model_events(c, parsed):
    """events for the layer-(ii) model from the script and the observed stream opens"""
    ev = []
    stream = {"O": False, "C": False}
    live = {"O": True, "C": False}
    # stream state of O at copy time is in the shape (rc); track later opens from answers
    seen_copy = False
    idx = {"O": 0, "C": 0, "P": 0, "Q": 0}
    by_slot = parsed.get("by_slot", {})
    for (text, group, slot) in c.lines:
        if text == "COPY":
            ev.append("COPY")
            seen_copy = True
            live["C"] = parsed["copy"] not in (None, "null", "dead")
            # O's stream, if open, is already counted in rc=
            continue
        if text == "RELENV":
            continue        # before the copy: its effect is in the counts of the SHAPE line
        if text.startswith("DROP "):
            w = text[5]
            if w in "OC" and live.get(w):
                ev.append("DROP_" + w)
                live[w] = False
            continue
        if slot in ("O", "C"):
            seq = by_slot.get(slot, [])
            i = idx[slot]
            idx[slot] += 1
            if i >= len(seq):
                break
            ans = seq[i][1]
            op = text.split()[1]
            if not seen_copy:
                if slot == "O" and op == "sopen" and ans.startswith("ret=0"):
                    stream["O"] = True
                if slot == "O" and op == "sclose":
                    stream["O"] = False
                continue
            if op == "sopen":
                if ans.startswith("ret=0"):
                    if not stream[slot]:
                        ev.append("REF_" + slot)
                    stream[slot] = True
                elif not ans.startswith("nofile") and not ans.startswith("dead"):
                    if stream[slot]:
                        ev.append("UNREF_" + slot)
                    stream[slot] = False
            elif op == "sclose":
                if stream[slot]:
                    ev.append("UNREF_" + slot)
                stream[slot] = False
        elif slot in ("P", "Q"):
            idx[slot] += 1
    # END: per slot close the stream, then drop
    for w in "OC":
        if stream[w]:
            ev.append("UNREF_" + w)
        if live[w]:
            ev.append("DROP_" + w)
    return ev


def l1_request(c, who):
    ops = [o for o in c.history] + [o for o in c.ops[who]]
    return "L1 %d%s %s %s" % (c.cid, who, c.kind, " | ".join(" ".join(o) for o in ops))


MODELLED_L1 = {"idtbl": ("i2x", "x2i"), "fragtbl": ("app", "set", "get", "size"), "xwr": ("begin", "add", "end")}


def run_model(drv, reqs):
    r = subprocess.run([drv], input=("\n".join(reqs) + "\n").encode(), stdout=subprocess.PIPE, stderr=subprocess.PIPE)
    out, cur = {}, None
    for line in r.stdout.decode().split("\n"):
        if line.startswith("CASE "):
            cur = line.split()[1]
            out[cur] = [line]
        elif cur is not None and line:
            out[cur].append(line)
    return out, r.stderr.decode()


# --------------------------------------------------------------------------- the check
def evaluate(ctx, cases, results, drv, hooks="fixed"):
    """property oracle + ties for the executed cases; returns (prop_violations, tie_violations, stats)"""
    prop_bad, tie_bad = [], []
    stats = dict(cases=0, answers=0, copies=0, l2=0, l1=0, nontrivial=set())
    reqs, pend = [], []
    parsed_all = {}
    for c in cases:
        if c.cid not in results:
            continue
        lines, crashed, err = results[c.cid]
        p = parse_case(c, lines)
        parsed_all[c.cid] = p
        stats["cases"] += 1
        tag = c.kind + (":" + c.sub if c.sub else "")
        # ---- property oracle -------------------------------------------------
        if crashed:
            cls = classify_crash(err)
            prop_bad.append((c, "%s:%s" % (c.kind, cls), "sanitizer report / signal (%s) in case %d [%s] while executing '%s'"
                             % (cls, c.cid, tag, executing(c, lines)[:80]), err))
        elif p["complete"]:
            m = re.match(r"END leak=(\d) fds=(-?\d+)", p["end"])
            if m and m.group(1) != "0":
                prop_bad.append((c, "%s:leak" % c.kind, "LeakSanitizer reports a leak after case %d [%s]" % (c.cid, tag), err))
            if m and m.group(2) != "0":
                prop_bad.append((c, "%s:fd-leak" % c.kind, "%s file descriptors left open after case %d [%s]" % (m.group(2), c.cid, tag), ""))
        for g, members in sorted(p["answers"].items()):
            stats["answers"] += len(members)
            ref = {"O": "P", "C": "Q"}
            by = dict((s, (t, a)) for s, t, a in members)
            for s, tw in ref.items():
                if s in by and tw in by and by[s][1] != by[tw][1]:
                    side = "original" if s == "O" else "copy"
                    prop_bad.append((c, "%s:answer-differs:%s" % (c.kind, side),
                                     "case %d [%s]: %s answers '%s' to '%s' but the never-copied twin answers '%s'"
                                     % (c.cid, tag, side, by[s][1][:120], by[s][0][:70], by[tw][1][:120]), ""))
                    break
            if "P" in by and "Q" in by and "O" not in by and "C" not in by:
                pass
        if p["copy"] is not None:
            stats["copies"] += 1
            expect_null = (c.kind == "file" and c.sub == "rw")
            if expect_null != (p["copy"] == "null") and p["created"] and p["created"][0] == "1":
                prop_bad.append((c, "%s:copy-null" % c.kind,
                                 "case %d [%s]: sqfs_copy returned %s" % (c.cid, tag, p["copy"][:60]), ""))
            if p["copy"] not in ("null", "dead") and not p["copy"].startswith("H[1 1 1]"):
                prop_bad.append((c, "%s:copy-header" % c.kind,
                                 "case %d [%s]: header of the copy is %s (destroy/copy NULL or refcount != 1)"
                                 % (c.cid, tag, p["copy"][:9]), ""))
        # the data reader cases keep an auxiliary directory reader (2 meta readers) for path lookups
        want_final = "RC file=3 cmp=3" if c.kind == "data" else "RC file=1 cmp=1"
        if any(t == "RELENV" for t, _g, _s in c.lines):
            want_final = "RC file=0 cmp=0"      # the objects held the last references: both are gone
            stats["lastholder"] = stats.get("lastholder", 0) + 1
        if p["final"] is not None and c.kind in ENV_KINDS and p["final"] != want_final:
            prop_bad.append((c, "%s:shared-refcount" % c.kind,
                             "case %d [%s]: after releasing everything file/compressor refcounts are %s"
                             % (c.cid, tag, p["final"]), ""))
        # ---- ties --------------------------------------------------------------
        if p["shape"] is not None and p["copy"] not in (None, "null", "dead"):
            mk = COMP_MODEL[c.args[0]] if c.kind == "comp" else MODEL_KIND[c.kind]
            ev = model_events(c, p)
            reqs.append("L2 %d %s %s %s ; %s" % (c.cid, mk, hooks, p["shape"], " ".join(ev)))
            pend.append(("L2", c))
            stats["nontrivial"].add((c.kind, c.sub, p["shape"]))
        if c.kind in MODELLED_L1 and not c.twin_only:
            for who in ("O", "C"):
                reqs.append(l1_request(c, who))
                pend.append(("L1" + who, c))
    model_out, model_err = run_model(drv, reqs) if reqs else ({}, "")
    for what, c in pend:
        p = parsed_all[c.cid]
        tag = c.kind + (":" + c.sub if c.sub else "")
        if what == "L2":
            mo = model_out.get(str(c.cid))
            if not mo:
                tie_bad.append((c, "L2", "model driver gave no answer for case %d: %s" % (c.cid, model_err[-300:])))
                continue
            stats["l2"] += 1
            if "copyable=true" not in mo[0]:
                tie_bad.append((c, "L2", "case %d [%s]: the model heap built from shape '%s' does not satisfy the theorems' hypotheses (%s)"
                                % (c.cid, tag, p["shape"], mo[0])))
                continue
            impl = ["COPY " + p["copy"]] + [l for _, l in p["rcs"]]
            if c.kind not in ENV_KINDS:
                impl = [l if not l.startswith("RC ") else "RC -" for l in impl]
            exp = [l for l in mo[1:] if not l.startswith(("FINAL", "LIVE", "END"))]
            # the model also executes the releases the harness performs at END (no RC line there; their
            # effect is compared through FINAL); if the implementation died only the prefix exists
            exp = exp[:len(impl)]
            if impl != exp:
                k = next((i for i in range(min(len(impl), len(exp))) if impl[i] != exp[i]), min(len(impl), len(exp)))
                tie_bad.append((c, "L2", "case %d [%s]: object graph / refcounts differ at step %d: impl '%s' model '%s'"
                                % (c.cid, tag, k, impl[k] if k < len(impl) else "<none>", exp[k] if k < len(exp) else "<none>")))
            fin = [l for l in mo if l.startswith("FINAL ")]
            if p["final"] is not None and c.kind in ENV_KINDS and fin and fin[0][6:] != p["final"]:
                tie_bad.append((c, "L2", "case %d [%s]: final refcounts impl '%s' model '%s'" % (c.cid, tag, p["final"], fin[0][6:])))
        else:
            who = what[2]
            mo = model_out.get("%d%s" % (c.cid, who))
            if not mo:
                tie_bad.append((c, "L1", "model driver gave no answer for case %d%s" % (c.cid, who)))
                continue
            stats["l1"] += 1
            pred = [l for l in mo[1:] if l != "END"]
            ops = c.history + c.ops[who]
            seq = p.get("by_slot", {}).get(who, [])
            if who == "C":
                seq = p.get("by_slot", {}).get("Q", [])[:len(c.history)] + seq
            for i, op in enumerate(ops):
                if i >= len(seq) or i >= len(pred):
                    break
                if op[0] in MODELLED_L1[c.kind] and seq[i][1] != pred[i] and seq[i][1] != "dead":
                    tie_bad.append((c, "L1", "case %d [%s]: %s answers '%s' to '%s', the layer-(i) machine predicts '%s'"
                                    % (c.cid, tag, "original" if who == "O" else "copy", seq[i][1], " ".join(op), pred[i])))
                    break
    return prop_bad, tie_bad, stats


def build_all(ctx, variant_pool=False):
    if variant_pool:
        # the library's own node allocator (mem pools) instead of calloc per node
        info = B.build("plain", extra_cflags=B.SAN, tag="c19pool")
    else:
        info = B.build("asan")
    srcs = [os.path.join(HERE, "h_objcopy.c")] + sorted(
        os.path.join(HERE, f) for f in os.listdir(HERE) if re.match(r"p_.*\.c$", f))
    exe = B.compile_harness(info, srcs, "h_objcopy", includes=["-I" + HERE])
    # private copies: the shared build cache may be pruned by a concurrent check while this one runs
    import shutil
    tag = "pool" if variant_pool else "asan"
    priv = os.path.join(ctx.scratch, "h_objcopy." + tag)
    shutil.copy2(exe, priv)
    gsq = os.path.join(ctx.scratch, "gensquashfs." + tag)
    shutil.copy2(info["tools"]["gensquashfs"], gsq)
    info = dict(info, tools=dict(info["tools"], gensquashfs=gsq))
    return info, priv


def run_util(ctx, info, prop_bad, tag=""):
    """h_util.c: rbtree / str_table / array copies (search oracle, no model prediction involved)"""
    exe = B.compile_harness(info, [os.path.join(HERE, "h_util.c")], "h_util_c19", includes=["-I" + HERE])
    rounds = 3 if ctx.tier == "quick" else 60
    env = dict(os.environ, ASAN_OPTIONS="detect_leaks=1:abort_on_error=0:allocator_may_return_null=1",
               UBSAN_OPTIONS="halt_on_error=1:print_stacktrace=1")
    try:
        r = subprocess.run([exe, str(ctx.seed), str(rounds)], stdout=subprocess.PIPE, stderr=subprocess.PIPE,
                           timeout=600, env=env)
        out, err, rc = r.stdout.decode("utf-8", "replace"), r.stderr.decode("utf-8", "replace"), r.returncode
    except subprocess.TimeoutExpired:
        out, err, rc = "", "timeout", 124
    st = dict(rc=rc, checks=0)
    m = re.search(r"^OK (\d+)", out, re.M)
    if rc == 0 and m:
        st["checks"] = int(m.group(1))
        ctx.coverage.setdefault("distribution", {})["container_copy_checks" + tag] = st["checks"]
        return st
    what = (re.search(r"^FAIL (.*)$", out, re.M).group(1) if re.search(r"^FAIL (.*)$", out, re.M)
            else "sanitizer report / signal / leak: " + err[-700:])
    kind = what.split(":")[0].split(" ")[0] if what.startswith(("rbtree", "str_table", "array")) else "crash"
    ctx.violation("util:%s%s" % (kind, tag),
                  "container copy violates C19 (h_util seed %d, %d rounds)%s: %s" % (ctx.seed, rounds, tag, what),
                  dict(kind="util", cmd="h_util %d %d" % (ctx.seed, rounds), stdout=out[-500:], stderr=err[-1500:]))
    return st


def generate(ctx, rnd, images, n_cases):
    kinds = ["idtbl", "fragtbl", "xwr", "file", "meta", "dir", "data", "xrd"]
    cases = []
    cid = 0
    cfgs = comp_configs(rnd, ctx.tier)
    for cfg in cfgs:
        cid += 1
        cases.append(gen_case(rnd, cid, "comp", images, ctx.tier, comp_cfg=cfg))
        cid += 1
        cases.append(gen_ropt_case(rnd, cid, cfg, ctx.tier))
    while len(cases) < n_cases:
        for k in kinds:
            cid += 1
            cases.append(gen_case(rnd, cid, k, images, ctx.tier))
    return cases


def refresh_util_constants(ctx):
    """coq/Util/GenUtil.v follows the working tree (hash_sizes[], struct sizes, array growth): when it changes the
    theorems of the containers section are re-checked against the new values"""
    changed, err = U.regen_util_constants()
    if err:
        ctx.proof_broken.append("Util/GenUtil.v: " + err)
    if changed:
        ctx.log("Util/GenUtil.v changed -> re-checking the proofs")
        ctx.proof_broken = [b for b in ctx.proof_broken if not b.startswith("theorem")]
        with core.Lock("coq"):
            rc, log = core.coq_make(core.prop_deps("C19"))
        core.prepare_proofs(ctx)
        if rc != 0:
            m = re.search(r'File "\./(Util/[A-Za-z0-9_]+\.v)", line (\d+)[^\n]*\n(Error:.*?)(?:\nmake|\Z)', log, re.S)
            ctx.proof_broken.insert(0, "a constant of lib/util/src (hash_sizes[] / struct layout / array growth) changed and a "
                                       "lemma of coq/Util that relies on it no longer checks: %s"
                                    % ((m.group(1) + " line " + m.group(2) + ": " + m.group(3)[:400]) if m else log[-600:]))


def run(ctx):
    refresh_util_constants(ctx)
    info, exe = build_all(ctx)
    drv = core.build_model_driver("C19", "ExtractC19.v", os.path.join(HERE, "driver.ml"))
    ctx.trusted += [
        "props/C19/h_objcopy.c, p_*.c (harness and struct probes), props/C19/driver.ml (token printing glue)",
        "ASan/UBSan/LeakSanitizer verdicts; /proc/self/fd count",
        "layer (ii) of the model is a hand transcription of the C copy/destroy hooks: tied to the code through "
        "the probes' object-graph report at copy time, refcounts, observable answers and sanitizer verdicts only",
    ]
    ctx.trusted += [
        "props/C19/h_utilmodel.c + hu_cmp_dir.c (container harness: #includes lib/util/src/{hash_table,rbtree,str_table,array}.c, "
        "numbers node / bucket allocations, removal = upstream's three assignments), props/C19/driver_util.ml (printing glue), "
        "props/C19/gen_util_constants.c -> coq/Util/GenUtil.v",
        "coq/Util models are hand transcriptions of the four container files, tied by answers and structural dumps of "
        "operation sequences; allocation failure is not modelled",
        "props/C19/cmp_census.py (textual search for calls of rbtree_init / qsort / array_sort_range / bsearch outside test directories; "
        "a comparator reached through a function pointer variable is reported as unresolved), props/C19/census/hc_*.c (one probe per "
        "comparator, #includes the .c file that defines it), props/C19/driver_cmp.ml",
    ]
    ctx.assumptions += [
        "containers: the key comparator is a strict weak order (rbtree theorems; proved for the models of dcache_key_compare, "
        "compare_inum, block_compare, compare_u64 - tied by sign on generated key sets - and checked on adversarial keys for every "
        "comparator the census finds handed to rbtree_init / qsort in the working tree); fewer than 2^30 entries in a hash table (32 bit address arithmetic of the last row of hash_sizes[] "
        "can wrap: hash_table_last_row_wraps); hashes are 32 bit values",
        "operations between copy and release are 'shared-preserving' (touch only the object's own cells, fresh ones and the "
        "scratch / stream cells OWNED by the shared file / compressor, keep header, count and configuration of the shared "
        "objects, keep the object well-formed, are functions of its abstract value and of the shared objects' views): "
        "hypothesis of interleaving_independent_shared / copy_ops_release_shared; proved for the models of the id table "
        "operations, a meta reader seek+read, a data reader block read and an xattr reader lookup under the PROVISO that the compressor's do_block is a "
        "function of (configuration, input) - what seed C10-3 and finding F22 violate; for the C code that proviso is what the "
        "twin comparison of this check and C10's tie observe",
        "the release theorems assume every reference held by the object (pair) is counted (cnt <= refcount) and that the "
        "shared objects are closed well-formed objects disjoint from each other and from the pair (checked by copyable_g on "
        "every model heap); an outside holder of file / compressor is NOT assumed any more (release_safe_general) and the "
        "last-holder life cycles are run on the implementation (RELENV cases of kinds meta and dir)",
        "allocation failure inside a copy hook is outside the property (C13); failure paths are not modelled",
    ]
    rnd = random.Random(ctx.seed * 7919 + 19)

    if ctx.replay:
        rp = json.load(open(ctx.replay))
        return replay(ctx, rp, info, exe, drv)

    # containers first (extracted models of coq/Util vs the real hash_table / rbtree / str_table / array): a defect in
    # lib/util is reported here with a concrete container-level input before the object-level legs meet its consequences
    ustats = U.run_leg(ctx, info)
    ctx.log("container models vs lib/util done: %r" % (ustats,))
    # the hypothesis of the rbtree theorems, for every comparator of the working tree (call sites found at run time)
    cstats = CC.run_leg(ctx, info)
    ctx.log("comparator census done: %r" % ({k: v for k, v in cstats.items() if k != "sites"},))

    comps = COMPRESSORS if ctx.tier == "thorough" else [COMPRESSORS[(ctx.seed + i) % 5] for i in range(3)]
    if ctx.tier == "thorough":
        comps = comps * 2
    images = make_images(ctx, info, comps, rnd)
    n_cases = 800 if ctx.tier == "quick" else 30000
    cases = generate(ctx, rnd, images, n_cases)
    ctx.log("generated %d cases, %d images" % (len(cases), len(images)))
    results = run_harness(exe, cases, timeout=150 if ctx.tier == "quick" else 1500)
    ctx.log("harness done")
    prop_bad, tie_bad, stats = evaluate(ctx, cases, results, drv)
    ctx.log("model and comparison done")

    # containers the copy hooks are built from (rbtree_copy, str_table_copy, array_init_copy): the property
    # evaluated directly for every key/value size and alignment, with values whose every byte is significant
    util_stats = run_util(ctx, info, prop_bad)
    ctx.log("container copies done: %r" % (util_stats,))

    pool_stats = None
    if ctx.tier == "thorough":
        run_util(ctx, B.build("plain", extra_cflags=B.SAN, tag="c19pool"), prop_bad, tag=":pool-allocator")
        info2, exe2 = build_all(ctx, variant_pool=True)
        res2 = run_harness(exe2, cases[:6000], timeout=900)
        pb2, _tb2, pool_stats = evaluate(ctx, cases[:6000], res2, drv)
        for c, sig, what, err in pb2:
            prop_bad.append((c, sig + ":pool-allocator", what + " (library built with its pool allocator)", err))

    ctx.coverage["evaluations"] = stats["cases"]
    ctx.coverage["distinct_nontrivial"] = len(stats["nontrivial"])
    ctx.coverage["traces_validated_against_impl"] = stats["l2"] + stats["l1"] + ustats["cases"]
    ctx.coverage["rule"] = (
        "seed %d: %d op sequences 'create; history; copy; interleaved ops on original and copy; drop x2 (orders OC, CO, "
        "one only, none)' over kinds idtbl fragtbl xwr comp(x%d configurations of gzip/xz/lzma/lz4/zstd, compress and "
        "uncompress) file meta dir data xrd on %d images built by the tree's gensquashfs (%s; block size 4096; files: "
        "empty, fragment-only, blocks+tail, exact multiple, sparse, compressible and random; xattrs with shared values); "
        "non-trivial = distinct (kind, configuration, shape of the original at copy time) whose copy was compared field by "
        "field with the model" % (ctx.seed, len(cases), len(comp_configs(random.Random(0), ctx.tier)), len(images),
                                   ",".join(comps)))
    ctx.coverage["distribution"] = dict(answers_compared_with_twin=stats["answers"], copies=stats["copies"],
                                        layer2_graphs_compared=stats["l2"], layer1_traces_compared=stats["l1"],
                                        last_holder_life_cycles=stats.get("lastholder", 0),
                                        crashed=len([1 for v in results.values() if v[1]]),
                                        pool_allocator_cases=(pool_stats or {}).get("cases", 0))
    ctx.coverage["distribution"]["comparator_census"] = cstats
    ctx.coverage["distribution"]["container_model_cases"] = ustats["by_kind"]
    ctx.coverage["distribution"]["container_model_answers_compared"] = ustats["answers"]
    ctx.coverage["distribution"]["container_model_dumps_compared"] = ustats["dumps"]
    ctx.coverage["distribution"]["container_model_distinct_aims"] = ustats["aims"]
    by_kind = {}
    for c in cases:
        by_kind[c.kind] = by_kind.get(c.kind, 0) + 1
    ctx.coverage["distribution"]["cases_by_kind"] = by_kind
    for c in cases[:400]:
        if c.cid in results and not results[c.cid][1] and c.kind in ("data", "xwr", "dir"):
            p = parse_case(c, results[c.cid][0])
            if p["copy"]:
                ctx.add_samples([dict(kind=c.kind, sub=c.sub, shape=p["shape"], copy=p["copy"], rcs=[l for _, l in p["rcs"]])], limit=6)

    report(ctx, prop_bad, tie_bad, results)


def known_defect_hint(c, sig, results):
    """name the documented defect (props/C19/findings.json, 'fixed') a violation looks like"""
    out = results.get(c.cid, ([], False, ""))[0]
    copy = next((l for l in out if l.startswith("COPY ")), "")
    if "H[0 0 " in copy or (c.kind == "data" and "j{H[0 0 " in copy):
        return " [looks like F19: fixes/F19-table-copy-object-init.patch not applied]"
    if c.kind == "xwr" and " iA" in copy:
        return " [looks like F20: fixes/F20-xattr-writer-copy-relink.patch not applied]"
    if c.kind == "comp" and c.sub.startswith("gzip") and "ropt" in " ".join(c.script()):
        return " [looks like F22: fixes/F22-gzip-copy-stream-state.patch not applied]"
    return ""


def report(ctx, prop_bad, tie_bad, results):
    seen = set()
    for c, sig, what, err in prop_bad:
        if sig in seen:
            continue
        seen.add(sig)
        what = what + known_defect_hint(c, sig, results)
        ctx.violation(sig, what, dict(case=c.to_json(), image=image_spec(c), stderr=err[-4000:],
                                      impl_output=results.get(c.cid, ([], False, ""))[0][-40:]))
    if tie_bad:
        # tie broke => search: did the property itself fail on the implementation for that case?
        concrete = set(c.cid for c, _, _, _ in prop_bad)
        for c, layer, what in tie_bad:
            sig = "tie-%s:%s" % (layer, c.kind)
            if sig in seen:
                continue
            seen.add(sig)
            if c.cid in concrete:
                continue        # reported above with the concrete failure
            ctx.violation(sig, what + " (the property oracle - twin answers, sanitizers, leaks, refcounts - "
                          "found no failure on this case)",
                          dict(case=c.to_json(), image=image_spec(c),
                               correspondence="props/C19: layer %s of the model vs. the implementation" %
                               ("(ii) sqfs_copy/sqfs_drop on the heap model" if layer == "L2" else "(i) pure machines"),
                               impl_output=results.get(c.cid, ([], False, ""))[0][-40:]),
                          no_input=True)


def image_spec(c):
    img = getattr(c, "img", None)
    if img is None:
        return None
    return dict(comp=img.comp, seed=img.seed, path=img.path)


def replay(ctx, rp, info, exe, drv):
    """re-run one stored case: regenerate its image (same tree seed, same compressor), same script"""
    if rp.get("kind") == "utilcase":
        st = U.replay_case(ctx, info, rp) if rp.get("case") else dict(cases=0)
        ctx.coverage["evaluations"] = st.get("cases", 0)
        ctx.coverage["rule"] = "replay of " + ctx.replay
        return
    if rp.get("kind") == "cmpcensus":
        st = CC.run_leg(ctx, info, cases=[rp] if rp.get("tokens") else None)
        ctx.coverage["evaluations"] = st.get("cases", 0)
        ctx.coverage["rule"] = "replay of " + ctx.replay
        return
    if rp.get("kind") == "util":
        ctx.seed = int(rp.get("seed", ctx.seed))
        run_util(ctx, info, [])
        ctx.coverage["evaluations"] = 1
        ctx.coverage["rule"] = "replay of " + ctx.replay
        return
    cj = rp.get("case")
    if not cj:
        ctx.log("replay file has no case")
        return
    spec = rp.get("image")
    script = cj["script"]
    if spec:
        r2 = random.Random(spec["seed"])
        root = os.path.join(ctx.scratch, "tree0")
        _files, _dirs, xa = gen_tree(r2, root, 4096)
        xf = os.path.join(ctx.scratch, "xattr0.txt")
        open(xf, "w").write(xa)
        img = os.path.join(ctx.scratch, "replay.sqfs")
        cmd = [info["tools"]["gensquashfs"], "-q", "-f", "-c", spec["comp"], "-b", "4096", "-D", root, "-A", xf, img]
        subprocess.run(cmd, stdout=subprocess.PIPE, stderr=subprocess.PIPE, env=dict(os.environ, ASAN_OPTIONS="detect_leaks=0"))
        script = [l.replace(spec["path"], img) for l in script]
    c = Case(cj["cid"], cj["kind"], [], sub=cj.get("sub", ""))
    c.script = lambda: script
    if spec:
        # a violation found by this replay is stored with the image recipe again
        c.img = type("ReplayImage", (), dict(comp=spec["comp"], seed=spec["seed"], path=img))()
    hdr = script[0].split()
    c.args = [int(x) if re.fullmatch(r"\d+", x) else x for x in hdr[3:]]
    # rebuild tags from the script: twin lines follow their originals
    group = 0
    prev = None
    for l in script[1:-1]:
        t = l.split()
        if t[0] in ("COPY", "DROP", "RELENV") or l == "Q sclose":
            c.lines.append((l, None, None))
            continue
        body = " ".join(t[1:])
        if t[0] == "O" or (t[0] == "C"):
            group += 1
        c.lines.append((l, group, t[0]))
        if t[0] in ("O", "C"):
            (c.history if not any(x[0] == "COPY" for x in c.lines) else c.ops[t[0]]).append(t[1:])
    c.twin_only = any(l.split()[1:2] == ["load"] for l in script if l[:2] in ("O ",)) and c.kind in ("idtbl", "fragtbl")
    results = run_harness(exe, [c], timeout=120)
    prop_bad, tie_bad, stats = evaluate(ctx, [c], results, drv)
    ctx.coverage["evaluations"] = 1
    ctx.coverage["rule"] = "replay of " + ctx.replay
    ctx.log("\n".join(results.get(c.cid, ([], 0, ""))[0][-30:]))
    report(ctx, prop_bad, tie_bad, results)


def setup():
    core.build_model_driver("C19", "ExtractC19.v", os.path.join(HERE, "driver.ml"))
    core.build_model_driver("C19util", "ExtractC19Util.v", os.path.join(HERE, "driver_util.ml"))
    CC.build_driver()
