(* C19 comparator census, model side: the extracted comparator models (coq/C19/CmpCensus.v, coq/Util/RbModel.v) on the
   key sets of props/C19/cmp_census.py; prints the sign of every pair in the order of props/C19/census/hc_main.c:
     CASE <id> <inum|u32|u64|block> <key tokens>   ->   CASE <id> / signs <n*n of - 0 +> / END *)
open C19_cmp_model

let rec pos_of_int i = if i = 1 then XH else if i land 1 = 1 then XI (pos_of_int (i lsr 1)) else XO (pos_of_int (i lsr 1))
let n_of_int i = if i <= 0 then N0 else Npos (pos_of_int i)
let n10 = n_of_int 10
let n16 = n_of_int 16
(* decimal (or 0x hexadecimal) strings of any size -> N *)
let n_of_string s =
  let r = ref N0 in
  if String.length s > 2 && s.[0] = '0' && (s.[1] = 'x' || s.[1] = 'X') then
    String.iteri (fun i c -> if i >= 2 then
      let d = match c with '0'..'9' -> Char.code c - 48 | 'a'..'f' -> Char.code c - 87 | 'A'..'F' -> Char.code c - 55 | _ -> 0 in
      r := N.add (N.mul !r n16) (n_of_int d)) s
  else
    String.iter (fun c -> if c >= '0' && c <= '9' then r := N.add (N.mul !r n10) (n_of_int (Char.code c - 48))) s;
  !r

let sign = function Z0 -> '0' | Zpos _ -> '+' | Zneg _ -> '-'
let le4 v = List.filteri (fun i _ -> i < 4) (le8 v)

let pair_of s = match String.split_on_char ':' s with [a; b] -> (n_of_string a, n_of_string b) | _ -> failwith "pair"

let matrix cmp keys =
  let b = Buffer.create 4096 in
  List.iter (fun a -> List.iter (fun c -> Buffer.add_char b (sign (cmp a c))) keys) keys;
  Buffer.contents b

let run probe toks =
  match probe with
  | "inum" -> matrix cmp_inum (List.map (fun s -> let (d, i) = pair_of s in inum_key d i) toks)
  | "u32" -> matrix cmp_u32 (List.map (fun s -> le4 (n_of_string s)) toks)
  | "u64" -> matrix cmp_u64 (List.map (fun s -> le8 (n_of_string s)) toks)
  | "block" ->
    let pairs = List.concat_map (fun s -> if s.[0] = 'p' then le8 (n_of_string (String.sub s 1 (String.length s - 1))) else []) toks in
    let keys = List.filter_map (fun s -> if s.[0] = 'k' then Some (pair_of (String.sub s 1 (String.length s - 1))) else None) toks in
    matrix (cmp_block pairs) keys
  | _ -> failwith "probe"

let () =
  try
    while true do
      let l = input_line stdin in
      match List.filter (fun x -> x <> "") (String.split_on_char ' ' l) with
      | "CASE" :: id :: probe :: toks ->
        Printf.printf "CASE %s\n" id;
        (try Printf.printf "signs %s\n" (run probe toks) with Failure m | Invalid_argument m -> Printf.printf "ERROR %s\n" m);
        print_string "END\n"
      | _ -> ()
    done
  with End_of_file -> ()
