"""C19 / Util leg: the containers of lib/util/src (hash_table.c, rbtree.c, str_table.c, array.c).

Theorems: coq/Util/*.v, stated in the section "containers" of coq/Properties_C19.v.
Constants: coq/Util/GenUtil.v is regenerated from the working tree (gen_util_constants.c) on every run.
Tie: operation sequences executed by the real containers (h_utilmodel.c #includes the four .c files of the
  working tree) and by the extracted models (driver_util.ml); the answer of every operation and the structural
  dumps (table row / counters / slot of every entry; tree shape, colours, depth and every byte of every node;
  bucket - hash entry - index array links; allocation order) must be the same text.
Search oracle (model-free, on the C output): a copy's dump equals the original's (modulo allocation ids, which
  must be disjoint), and operations on one side leave the other side's dump unchanged; the directory reader's
  key comparator is a strict weak order on sampled keys (hypothesis of rbtree_refines_map); sanitizers.
"""
import os
import random
import re
import shutil
import subprocess
import tempfile

from vlib import build as B
from vlib import core

HERE = os.path.dirname(os.path.abspath(__file__))
GEN_V = os.path.join(core.COQ, "Util", "GenUtil.v")


# ------------------------------------------------------------------------------------ constants
def regen_util_constants():
    """coq/Util/GenUtil.v from the working tree. Returns (changed, error)."""
    d = tempfile.mkdtemp(prefix="verif-utilconst.")
    try:
        exe = os.path.join(d, "gc")
        shutil.copy(B.config_h_path(), os.path.join(d, "config.h"))
        cmd = ["gcc", "-w", "-O1", "-D_GNU_SOURCE", "-DNO_CUSTOM_ALLOC", "-I" + os.path.join(B.REPO, "include"),
               "-I" + B.REPO, "-I" + d, os.path.join(HERE, "gen_util_constants.c"), "-o", exe]
        rc, out = core.sh(cmd)
        if rc != 0:
            return False, "gen_util_constants.c does not compile against the working tree:\n" + out[-1500:]
        rc, txt = core.sh([exe], timeout=60)
        if rc != 0 or "util_hash_sizes" not in txt:
            return False, "gen_util_constants failed (rc=%d)" % rc
        old = open(GEN_V).read() if os.path.exists(GEN_V) else None
        if old != txt:
            os.makedirs(os.path.dirname(GEN_V), exist_ok=True)
            open(GEN_V, "w").write(txt)
            return True, None
        return False, None
    finally:
        shutil.rmtree(d, ignore_errors=True)


def hash_rows():
    txt = open(GEN_V).read()
    return [tuple(int(x) for x in m) for m in re.findall(r"\((\d+), (\d+), (\d+), (\d+), (\d+)\)", txt)]


# ------------------------------------------------------------------------------------ cases
class UCase:
    def __init__(self, cid, kind, params, aim):
        self.cid, self.kind, self.params, self.aim = cid, kind, params, aim
        self.ops = []

    def add(self, *toks):
        self.ops.append(" ".join(str(t) for t in toks))

    def lines(self):
        return ["CASE %d %s %s" % (self.cid, self.kind, " ".join(str(p) for p in self.params))] + self.ops + ["END"]

    def to_json(self):
        return dict(cid=self.cid, kind=self.kind, aim=self.aim, script=self.lines())


def nz_bytes(rnd, n):
    """every byte non-zero: a byte a copy loses (left 0 by calloc) is visible"""
    return bytes(rnd.randint(1, 255) for _ in range(n))


def gen_ht(rnd, cid, rows, big):
    aim = rnd.choice(["collide", "tomb", "resize", "random", "clone", "bighash"])
    c = UCase(cid, "HT", [], aim)
    live = []                      # (hash, cls) inserted and not removed (per table A; B after clone diverges)
    nid = [0]
    cloned = [False]

    def who():
        return rnd.choice("AB") if cloned[0] else "A"

    def ins(h, cls, w=None):
        nid[0] += 1
        c.add(w or who(), "i", h, nid[0], cls, rnd.randint(1, 10 ** 6))
        live.append((h, cls))

    def maybe_clone():
        if not cloned[0] and rnd.random() < 0.5:
            c.add("A", "d")
            c.add("c")
            c.add("B", "d")
            cloned[0] = True

    row = rnd.randrange(0, 6 if not big else 9)
    mx, size, rehash = rows[row][0], rows[row][1], rows[row][2]
    if aim == "collide":
        # same start address, different / same step; same hash, different class; same hash and class
        base = rnd.randrange(0, size)
        hs = [base + size * rnd.randrange(0, 50) for _ in range(rnd.randint(2, 8))]
        for h in hs:
            ins(h, rnd.randint(1, 4))
        h = rnd.choice(hs)
        ins(h, 1)
        ins(h, 2)
        ins(h, 1)
        # same start and same step: h + size*rehash*k
        ins(base + size * rehash, 7)
        ins(base + 2 * size * rehash, 8)
        maybe_clone()
        for h in hs:
            c.add(who(), "s", h, 0, rnd.randint(1, 4))
    elif aim == "tomb":
        hs = [rnd.randrange(0, 3 * size) for _ in range(rnd.randint(3, mx + 3))]
        for h in hs:
            ins(h, 1)
        for _ in range(rnd.randint(1, len(hs))):
            c.add(who(), "r", rnd.choice(hs), 0, 1)
        c.add("A", "d")
        maybe_clone()
        for h in rnd.sample(hs, min(3, len(hs))):
            c.add(who(), "s", h, 0, 1)          # search across tombstones
        for _ in range(rnd.randint(1, 6)):
            ins(rnd.choice(hs) if rnd.random() < 0.7 else rnd.randrange(0, 3 * size), rnd.choice([1, 1, 2]))
        c.add("A", "d")
        # insert / remove churn: deleted + entries reaches max_entries -> rehash to the same size
        for _ in range(rnd.randint(4, 3 * mx + 6)):
            h = rnd.randrange(0, 2 * size)
            ins(h, 3, "A")
            c.add("A", "r", h, 0, 3)
    elif aim == "resize":
        # exactly max-1, max, max+1 entries of consecutive rows, dumps around the boundary
        target = rows[row][0] + rnd.choice([-1, 0, 1])
        n = 0
        while n < target + 1:
            ins(rnd.randrange(0, 1 << 32) if rnd.random() < 0.5 else n * 7 + 1, n + 10)
            n += 1
            if n >= target - 1:
                c.add("A", "d")
        maybe_clone()
        ins(rnd.randrange(0, 1 << 32), 5)
        for (h, cls) in rnd.sample(live, min(6, len(live))):
            c.add(who(), "s", h, 0, cls)
    elif aim == "bighash":
        for _ in range(rnd.randint(3, 40)):
            ins(rnd.choice([0, 1, (1 << 32) - 1, (1 << 31), (1 << 31) - 1, rnd.randrange(0, 1 << 32)]), rnd.randint(1, 3))
            if rnd.random() < 0.2:
                h, cls = rnd.choice(live)
                c.add(who(), "r", h, 0, cls)
        maybe_clone()
    else:
        universe = rnd.choice([8, 40, 1 << 32])
        for _ in range(rnd.randint(5, 120 if not big else 700)):
            r = rnd.random()
            if aim == "clone" and not cloned[0] and rnd.random() < 0.08:
                c.add("A", "d")
                c.add("c")
                c.add("B", "d")
                cloned[0] = True
            if r < 0.55 or not live:
                ins(rnd.randrange(0, universe), rnd.randint(1, 5))
            elif r < 0.8:
                h, cls = rnd.choice(live)
                c.add(who(), "s", h if rnd.random() < 0.8 else rnd.randrange(0, universe), 0, cls)
            else:
                h, cls = rnd.choice(live)
                c.add(who(), "r", h, 0, cls)
    c.add("A", "d")
    if cloned[0]:
        c.add("B", "d")
        for _ in range(rnd.randint(0, 6)):
            ins(rnd.randrange(0, 64), rnd.randint(1, 5), "B")
        c.add("A", "d")
        for _ in range(rnd.randint(0, 6)):
            ins(rnd.randrange(0, 64), rnd.randint(1, 5), "A")
        c.add("B", "d")
        c.add("A", "d")
    return c


def gen_rb(rnd, cid, big):
    aim = rnd.choice(["asc", "desc", "random", "u32far", "pad", "dup", "copy"])
    if aim == "u32far" or rnd.random() < 0.3:
        ks, vs, cmpn = 4, rnd.choice([8, 8, 4, 1]), "u32"
    else:
        ks, vs, cmpn = rnd.choice([1, 2, 3, 4, 5, 7, 8, 9, 12, 16, 17, 20]), rnd.choice([1, 2, 4, 5, 8, 12, 16]), "bytes"
    c = UCase(cid, "RB", [ks, vs, cmpn], aim)
    n = rnd.choice([0, 1, 2, 3, 5, 8, 13, 33, 64 if not big else 300])
    if ks == 1:
        n = min(n, 200)
    if cmpn == "u32":
        if aim == "u32far":
            pool = [0, 1, 2, (1 << 31) - 1, 1 << 31, (1 << 31) + 1, (1 << 32) - 1, (1 << 32) - 2, 3 << 30, 1 << 30]
            pool += [rnd.randrange(0, 1 << 32) for _ in range(n)]
            rnd.shuffle(pool)
            vals = pool[:max(n, 6)]
        else:
            vals = rnd.sample(range(0, 1 << 32), n) if aim == "random" else list(range(5, 5 + n))
        keys = [v.to_bytes(4, "little") for v in vals]
        order = sorted(range(len(keys)), key=lambda i: vals[i])
    else:
        seen = set()
        keys = []
        for _ in range(n):
            k = nz_bytes(rnd, ks)
            if k in seen and ks > 1:
                continue
            seen.add(k)
            keys.append(k)
        order = sorted(range(len(keys)), key=lambda i: keys[i])
    if aim == "asc":
        keys = [keys[i] for i in order]
    elif aim == "desc":
        keys = [keys[i] for i in reversed(order)]
    elif aim != "u32far":
        rnd.shuffle(keys)
    if aim != "dup":
        keys = list(dict.fromkeys(keys))
    copied = False
    copy_at = rnd.randint(0, len(keys)) if aim in ("copy", "pad") or rnd.random() < 0.6 else -1
    for i, k in enumerate(keys):
        if i == copy_at:
            c.add("A", "d")
            c.add("c")
            c.add("B", "d")
            copied = True
        c.add(rnd.choice("AB") if copied else "A", "i", k.hex(), nz_bytes(rnd, vs).hex())
        if rnd.random() < 0.3:
            c.add(rnd.choice("AB") if copied else "A", "l", rnd.choice(keys).hex())
        if rnd.random() < 0.15:
            c.add("A", "d")
    if copy_at == len(keys):
        c.add("A", "d")
        c.add("c")
        c.add("B", "d")
        copied = True
    c.add("A", "d")
    if copied:
        c.add("B", "d")
    for k in rnd.sample(keys, min(len(keys), 8)):
        c.add("A", "l", k.hex())
        if copied:
            c.add("B", "l", k.hex())
    c.add("A", "l", nz_bytes(rnd, ks).hex())
    if copied:
        # diverge: only one side, then the other; dumps of the untouched side in between
        for _ in range(rnd.randint(1, 4)):
            c.add("B", "i", nz_bytes(rnd, ks).hex(), nz_bytes(rnd, vs).hex())
        c.add("A", "d")
        for _ in range(rnd.randint(1, 4)):
            c.add("A", "i", nz_bytes(rnd, ks).hex(), nz_bytes(rnd, vs).hex())
        c.add("B", "d")
        first = rnd.choice("AB")
        other = "B" if first == "A" else "A"
        c.add(other, "d")
        c.add(first, "x")
        c.add(other, "d")
        for k in rnd.sample(keys, min(len(keys), 4)):
            c.add(other, "l", k.hex())
        c.add(other, "i", nz_bytes(rnd, ks).hex(), nz_bytes(rnd, vs).hex())
        c.add(other, "d")
    return c


def gen_rb_init(rnd, cid):
    big = rnd.choice([(1 << 64) - 1, (1 << 64) - 3, (1 << 64) - 8, (1 << 32), (1 << 32) - 4, (1 << 64) - 24, (1 << 64) - 25,
                      (1 << 63)])
    vs = rnd.choice([1, 8, (1 << 64) - 1, (1 << 63)])
    if big < (1 << 33) and vs < (1 << 20):
        vs = (1 << 64) - 1
    return UCase(cid, "RB", [big, vs, "bytes"], "init-overflow")


def gen_st(rnd, cid, big):
    aim = rnd.choice(["refs", "grow", "copy", "bytes"])
    c = UCase(cid, "ST", [], aim)
    n = rnd.choice([0, 1, 2, 3, 4, 5, 8, 9, 17, 33, 70 if not big else 400])
    strs = []
    for i in range(n):
        ln = rnd.choice([0, 1, 2, 5, 13, 40]) if aim == "bytes" else rnd.randint(1, 12)
        s = nz_bytes(rnd, ln) if aim == "bytes" else (b"user.k%d" % rnd.randrange(0, 2 * n + 1))
        strs.append(s)
    copied = False
    copy_at = rnd.randint(0, len(strs)) if rnd.random() < 0.8 else -1
    cnt = {"A": 0, "B": 0}

    def side():
        return rnd.choice("AB") if copied else "A"

    def do_copy():
        c.add("A", "d")
        c.add("c")
        c.add("B", "d")
        cnt["B"] = cnt["A"]

    for i, s in enumerate(strs):
        if i == copy_at:
            do_copy()
            copied = True
        w = side()
        c.add(w, "g", s.hex() or "-")
        cnt[w] += 1
        if rnd.random() < 0.5:
            c.add(w, "h", s.hex() or "-")
        for _ in range(rnd.choice([0, 0, 1, 2, 3])):
            w = side()
            c.add(w, rnd.choice("++-"), rnd.randint(0, cnt[w] + 1))
        if rnd.random() < 0.2:
            w = side()
            c.add(w, "s", rnd.randint(0, cnt[w] + 1))
    if copy_at == len(strs):
        do_copy()
        copied = True
    c.add("A", "d")
    if copied:
        c.add("B", "d")
        # del_ref to zero and below on one side, new strings on the other
        for i in range(min(cnt["B"], 4)):
            for _ in range(4):
                c.add("B", "-", i)
        c.add("A", "d")
        c.add("B", "g", b"only-in-the-copy".hex())
        c.add("A", "d")
        c.add("A", "g", b"only-in-the-original".hex())
        c.add("A", "g", b"second".hex())
        c.add("B", "d")
        for s in rnd.sample(strs, min(len(strs), 5)):
            c.add("A", "g", s.hex() or "-")
            c.add("B", "g", s.hex() or "-")
        first = rnd.choice("AB")
        other = "B" if first == "A" else "A"
        c.add(other, "d")
        c.add(first, "x")
        c.add(other, "d")
        c.add(other, "g", b"after-release".hex())
        c.add(other, "s", 0)
        c.add(other, "d")
    return c


def gen_ar(rnd, cid, big):
    aim = rnd.choice(["grow", "cap", "copy", "overflow"])
    if aim == "overflow":
        size, cap = rnd.choice([((1 << 40), (1 << 30)), ((1 << 63), 2), ((1 << 64) - 1, (1 << 64) - 1), ((1 << 32), (1 << 32))])
        return UCase(cid, "AR", [size, cap], aim)
    size = rnd.choice([1, 2, 3, 4, 5, 8, 9, 16])
    cap = rnd.choice([0, 0, 1, 3, 127, 128, 129])
    c = UCase(cid, "AR", [size, cap], aim)
    n = rnd.choice([0, 1, 2, 127, 128, 129, 255, 256, 257, 300]) if aim == "grow" else rnd.randint(0, 40)
    if cap not in (0,):
        n = rnd.choice([cap - 1, cap, cap + 1, 2 * cap, 2 * cap + 1, n])
    n = max(0, n)
    copied = False
    copy_at = rnd.randint(0, n) if rnd.random() < 0.7 else -1
    used = {"A": 0, "B": 0}
    for i in range(n):
        if i == copy_at:
            c.add("A", "d")
            c.add("c")
            c.add("B", "d")
            used["B"] = used["A"]
            copied = True
        w = rnd.choice("AB") if copied else "A"
        c.add(w, "a", nz_bytes(rnd, size).hex())
        used[w] += 1
        r = rnd.random()
        if r < 0.1:
            c.add(w, "g", rnd.randint(0, used[w] + 1))
        elif r < 0.2:
            c.add(w, "s", rnd.randint(0, used[w] + 1), nz_bytes(rnd, size).hex())
        elif r < 0.3 or aim == "cap" and r < 0.5:
            c.add(w, "c", rnd.choice([0, 1, used[w], used[w] + 1, 128, 129, 256, 257, 1000, 4097,
                                       (1 << 64) - 2, (1 << 64) - 1]))
    if copy_at == n:
        c.add("A", "d")
        c.add("c")
        c.add("B", "d")
        copied = True
    c.add("A", "d")
    if copied:
        c.add("B", "d")
        c.add("B", "a", nz_bytes(rnd, size).hex())
        c.add("A", "d")
        c.add("A", "a", nz_bytes(rnd, size).hex())
        c.add("A", "s", 0, nz_bytes(rnd, size).hex())
        c.add("B", "d")
        first = rnd.choice("AB")
        other = "B" if first == "A" else "A"
        c.add(other, "d")
        c.add(first, "x")
        c.add(other, "d")
    return c


def gen_cmp(rnd, cid):
    keys = [0, 1, (1 << 31) - 1, 1 << 31, (1 << 31) + 1, (1 << 32) - 1, 3 << 30]
    keys += [rnd.randrange(0, 1 << 32) for _ in range(12)]
    return UCase(cid, "CMP", ["u32"] + keys, "comparator-order")


def generate(rnd, tier):
    rows = hash_rows()
    big = tier != "quick"
    n = dict(HT=420, RB=420, ST=160, AR=160) if not big else dict(HT=6000, RB=6000, ST=2500, AR=2500)
    cases = []
    cid = 0
    for _ in range(6):
        cid += 1
        cases.append(gen_cmp(rnd, cid))
    for _ in range(8):
        cid += 1
        cases.append(gen_rb_init(rnd, cid))
    for kind, cnt in n.items():
        for i in range(cnt):
            cid += 1
            heavy = big and i % 40 == 0
            if kind == "HT":
                cases.append(gen_ht(rnd, cid, rows, heavy))
            elif kind == "RB":
                cases.append(gen_rb(rnd, cid, heavy))
            elif kind == "ST":
                cases.append(gen_st(rnd, cid, heavy))
            else:
                cases.append(gen_ar(rnd, cid, heavy))
    return cases


# ------------------------------------------------------------------------------------ running
def split_output(txt):
    out, cur = {}, None
    for line in txt.split("\n"):
        if line.startswith("CASE "):
            try:
                cur = int(line.split()[1])
            except ValueError:
                cur = None
                continue
            out[cur] = []
        elif cur is not None and line != "":
            out[cur].append(line)
    return out


def run_impl(exe, cases, timeout):
    """{cid: (lines, crashed, stderr)}; restarts behind a case that killed the process"""
    env = dict(os.environ, ASAN_OPTIONS="detect_leaks=1:abort_on_error=0:allocator_may_return_null=1",
               UBSAN_OPTIONS="print_stacktrace=1")
    res = {}
    todo = list(cases)
    while todo:
        data = "\n".join("\n".join(c.lines()) for c in todo) + "\n"
        try:
            r = subprocess.run([exe], input=data.encode(), stdout=subprocess.PIPE, stderr=subprocess.PIPE, env=env,
                               timeout=timeout)
            out, err, rc = r.stdout.decode("utf-8", "replace"), r.stderr.decode("utf-8", "replace"), r.returncode
        except subprocess.TimeoutExpired as e:
            out, err, rc = (e.stdout or b"").decode("utf-8", "replace"), "[timeout]", 124
        got = split_output(out)
        done = set(cid for cid, ls in got.items() if ls and ls[-1] == "END")
        for cid in done:
            res[cid] = (got[cid][:-1], False, "")
        rest = [c for c in todo if c.cid not in done]
        if not rest:
            if rc != 0:
                # died at exit: LeakSanitizer
                last = todo[-1]
                res[last.cid] = (res[last.cid][0], True, err[-5000:] + "\n[exit status %d at process end]" % rc)
                res["__leak__"] = err[-5000:]
            break
        bad = rest[0]
        res[bad.cid] = (got.get(bad.cid, []), True, err[-5000:] + "\n[exit status %d]" % rc)
        todo = rest[1:]
    return res


def run_model(drv, cases, timeout):
    data = "\n".join("\n".join(c.lines()) for c in cases) + "\n"
    r = subprocess.run([drv], input=data.encode(), stdout=subprocess.PIPE, stderr=subprocess.PIPE, timeout=timeout)
    got = split_output(r.stdout.decode("utf-8", "replace"))
    return dict((cid, ls[:-1] if ls and ls[-1] == "END" else ls) for cid, ls in got.items()), r.stderr.decode("utf-8", "replace")


# ------------------------------------------------------------------------------------ the property, model-free
def norm_dump(kind, line):
    """(dump without allocation ids / capacity, set of ids)"""
    ids = set()
    if kind == "RB":
        head, _, body = line.partition(":")
        toks = []
        for t in body.split():
            p = t.split("/")
            ids.add(p[0])
            toks.append("/".join(p[1:]))
        return head + ":" + " ".join(toks), ids
    if kind == "ST":
        head, _, body = line.partition(":")
        head = re.sub(r"count=\d+", "count=*", head)
        slots, _, arr = body.partition("|")
        toks = []
        for t in slots.split():
            a, _, b = t.partition("=")
            p = b.split("/")
            if len(p) >= 6:
                ids.add(p[1])
                p[1] = "*"
            toks.append(a + "=" + "/".join(p))
        for t in arr.split():
            ids.add(t)
        return head + ":" + " ".join(toks) + " | %d" % len(arr.split()), ids
    if kind == "AR":
        return re.sub(r"count=\d+", "count=*", line), ids
    return line, ids


def oracle(case, lines):
    """C19 on the implementation's own output: (signature, text) of the first failure or None"""
    if case.kind not in ("HT", "RB", "ST", "AR"):
        if case.kind == "CMP" and lines and not re.search(r"antisym_bad=0 trans_bad=0", lines[0]):
            return ("util:comparator-not-an-order",
                    "dcache_key_compare (lib/sqfs/src/dir_reader.c) is not a strict weak order on the sampled keys: %s "
                    "(the rbtree keeps and finds its keys only under this hypothesis: rbtree_refines_map, rbtree_lookup_loses_key_refuted)"
                    % lines[0])
        return None
    ops = case.ops
    skip = 1 if case.kind in ("RB", "ST", "AR") else 0          # init line
    ans = lines[skip:]
    last = {"A": None, "B": None}        # (normalised dump, ids) if nothing happened to the object since
    have = {"A": set(), "B": set()}      # what was stored and not removed: must be found again
    for i, op in enumerate(ops):
        if i >= len(ans):
            break
        t = op.split()
        if t == ["c"] and re.match(r"c (ok|ret=0)$", ans[i]):
            have["B"] = set(have["A"])
        if len(t) >= 3 and case.kind == "RB":
            if t[1] == "i" and ans[i] == "i ret=0":
                have[t[0]].add(t[2])
            elif t[1] == "l" and t[2] in have[t[0]] and ans[i] == "l -":
                return ("util:RB:lost-key",
                        "case %d [%s]: rbtree_lookup does not find key %s that was inserted into %s (%s comparator)"
                        % (case.cid, case.aim, t[2], "the original" if t[0] == "A" else "the copy", case.params[2]))
            elif t[1] == "x":
                have[t[0]] = set()
        if len(t) >= 5 and case.kind == "HT":
            k = (t[2], t[4])
            if t[1] == "i" and ans[i].startswith("i @"):
                have[t[0]].add(k)
            elif t[1] in ("s", "r") and k in have[t[0]] and ans[i].endswith(" -"):
                return ("util:HT:lost-entry",
                        "case %d [%s]: hash_table_search_pre_hashed returns NULL for hash %s / class %s although a live entry "
                        "with that hash and an equal key is in the table (hash_table_search_contract)"
                        % (case.cid, case.aim, t[2], t[4]))
            elif t[1] == "r" and ans[i].startswith("r @"):
                have[t[0]].discard(k)
        if t == ["c"]:
            if not re.match(r"c (ok|ret=0)$", ans[i]):
                if ans[i] not in ("c noobj",):
                    return ("util:%s:copy-failed" % case.kind, "case %d: copy answers '%s'" % (case.cid, ans[i]))
                last["B"] = None
                continue
            last["B"] = ("copy", last["A"])
            continue
        w, o = t[0], t[1]
        if o == "d":
            cur = norm_dump(case.kind, ans[i])
            prev = last[w]
            if prev is not None and prev[0] == "copy":
                src = prev[1]
                if src is not None:
                    if src[0] != cur[0]:
                        return ("util:%s:copy-differs" % case.kind,
                                "case %d [%s]: the copy's content differs from the original's at copy time: original '%s' copy '%s'"
                                % (case.cid, case.aim, src[0][:200], cur[0][:200]))
                    if src[1] & cur[1]:
                        return ("util:%s:copy-shares-nodes" % case.kind,
                                "case %d [%s]: the copy shares allocations %s with the original" % (case.cid, case.aim, sorted(src[1] & cur[1])[:5]))
            elif prev is not None and prev[0] != cur[0]:
                return ("util:%s:not-independent" % case.kind,
                        "case %d [%s]: content of %s changed although only the other object was operated on: before '%s' after '%s'"
                        % (case.cid, case.aim, "the original" if w == "A" else "the copy", prev[0][:200], cur[0][:200]))
            last[w] = cur
        elif (case.kind == "AR" and o == "g") or (case.kind != "AR" and o in ("s", "l", "n", "h")):
            pass                            # queries
        else:
            last[w] = None
    return None


def run_leg(ctx, info, seed=None):
    """the whole leg; returns stats"""
    exe = B.compile_harness(info, [os.path.join(HERE, "h_utilmodel.c"), os.path.join(HERE, "hu_cmp_dir.c")],
                            "h_utilmodel_c19", includes=["-I" + HERE])
    priv = os.path.join(ctx.scratch, "h_utilmodel")
    shutil.copy2(exe, priv)
    try:
        drv = core.build_model_driver("C19util", "ExtractC19Util.v", os.path.join(HERE, "driver_util.ml"))
    except RuntimeError as e:
        # coq/Util does not build (e.g. GenUtil.v changed and a lemma broke: reported as a broken proof obligation):
        # the model-free oracle still runs on the implementation
        ctx.log("container model driver not built (%s): tie skipped, oracle only" % str(e)[:200])
        drv = None
    rnd = random.Random((ctx.seed if seed is None else seed) * 104729 + 7)
    cases = generate(rnd, ctx.tier)
    return evaluate(ctx, cases, priv, drv)


def evaluate(ctx, cases, exe, drv):
    impl = run_impl(exe, cases, timeout=120 if ctx.tier == "quick" else 1500)
    if drv is not None:
        model, merr = run_model(drv, cases, timeout=300 if ctx.tier == "quick" else 3000)
    else:
        model, merr = None, ""
    stats = dict(cases=0, answers=0, dumps=0, crashed=0, by_kind={}, aims=set())
    seen = set()

    def report(sig, what, obj, no_input=False):
        if sig in seen:
            return
        seen.add(sig)
        ctx.violation(sig, what, obj, no_input=no_input)

    for c in cases:
        if c.cid not in impl:
            continue
        lines, crashed, err = impl[c.cid]
        stats["cases"] += 1
        stats["by_kind"][c.kind] = stats["by_kind"].get(c.kind, 0) + 1
        stats["aims"].add((c.kind, c.aim) + tuple(c.params[:3] if c.kind == "RB" else ()))
        prop = oracle(c, lines)
        if crashed:
            stats["crashed"] += 1
            m = re.search(r"ERROR: (?:AddressSanitizer|LeakSanitizer): (attempting )?([A-Za-z-]+)", err)
            cls = m.group(2).lower() if m else ("ubsan" if "runtime error" in err else "died")
            nxt = c.ops[len(lines) - (1 if c.kind in ("RB", "ST", "AR") else 0)] if 0 <= len(lines) - 1 < len(c.ops) else "END"
            report("util:%s:%s" % (c.kind, cls),
                   "container harness: sanitizer report / signal (%s) in case %d [%s %s] around operation '%s'"
                   % (cls, c.cid, c.kind, c.aim, nxt[:60]),
                   dict(kind="utilcase", case=c.to_json(), stderr=err[-3000:], impl_output=lines[-12:]))
            continue
        if prop is not None:
            report(prop[0], "lib/util container: " + prop[1],
                   dict(kind="utilcase", case=c.to_json(), impl_output=lines[-12:]))
        if model is None:
            continue
        mo = model.get(c.cid)
        if mo is None:
            report("util-tie:%s:no-model-answer" % c.kind, "model driver gave no answer for case %d: %s" % (c.cid, merr[-300:]),
                   dict(kind="utilcase", case=c.to_json()), no_input=True)
            continue
        stats["answers"] += len(lines)
        stats["dumps"] += len([l for l in lines if l.startswith("d ")])
        if mo != lines:
            k = next((i for i in range(min(len(mo), len(lines))) if mo[i] != lines[i]), min(len(mo), len(lines)))
            skip = 1 if c.kind in ("RB", "ST", "AR") else 0
            op = c.ops[k - skip] if 0 <= k - skip < len(c.ops) else "(init)"
            what = ("case %d [%s %s]: lib/util container and its Coq model (coq/Util) disagree at step %d, operation '%s': "
                    "implementation '%s' model '%s'" % (c.cid, c.kind, c.aim, k, op[:60],
                                                       (lines[k] if k < len(lines) else "<none>")[:220],
                                                       (mo[k] if k < len(mo) else "<none>")[:220]))
            if prop is None:
                report("util-tie:%s" % c.kind, what + " (the model-free copy oracle found no C19 failure on this case)",
                       dict(kind="utilcase", case=c.to_json(), impl_output=lines[max(0, k - 3):k + 2],
                            model_output=mo[max(0, k - 3):k + 2],
                            correspondence="props/C19: coq/Util models vs lib/util/src containers"), no_input=True)
    if "__leak__" in impl:
        report("util:leak", "container harness: LeakSanitizer reports a leak at exit", dict(kind="utilcase", stderr=impl["__leak__"][-3000:]))
    stats["aims"] = len(stats["aims"])
    return stats


def replay_case(ctx, info, rp):
    cj = rp["case"]
    c = UCase(cj["cid"], cj["kind"], [], cj.get("aim", "replay"))
    script = cj["script"]
    c.params = script[0].split()[3:]
    c.ops = script[1:-1]
    exe = B.compile_harness(info, [os.path.join(HERE, "h_utilmodel.c"), os.path.join(HERE, "hu_cmp_dir.c")],
                            "h_utilmodel_c19", includes=["-I" + HERE])
    drv = core.build_model_driver("C19util", "ExtractC19Util.v", os.path.join(HERE, "driver_util.ml"))
    return evaluate(ctx, [c], exe, drv)
