/* C19 search oracle for the container copies the object copy hooks are built from:
 * rbtree_copy, str_table_copy, array_init_copy (lib/util/src/{rbtree,str_table,array}.c).
 *
 * The property evaluated directly on the implementation: after a copy, every query on the
 * copy answers as the original does (all bytes of keys and values, whatever their size and
 * alignment), later operations on one side never change the answers of the other, and both
 * can be released in either order (ASan + LeakSanitizer build).
 *
 * usage: h_util <seed> <rounds>      prints "OK <checks>" or "FAIL <what>" (first failure)
 */
#include "config.h"
#include "util/rbtree.h"
#include "util/str_table.h"
#include "util/array.h"

#include <stdlib.h>
#include <string.h>
#include <stdio.h>

static unsigned long long rng;
static unsigned rnd(void)
{
	rng = rng * 6364136223846793005ULL + 1442695040888963407ULL;
	return (unsigned)(rng >> 33);
}

static unsigned long checks;

static void fail(const char *what, size_t a, size_t b, size_t c)
{
	printf("FAIL %s (key_size=%zu value_size=%zu entries=%zu)\n", what, a, b, c);
	fflush(stdout);
	exit(1);
}

static size_t g_ks;
static int cmp_bytes(const void *ctx, const void *l, const void *r)
{
	(void)ctx;
	return memcmp(l, r, g_ks);
}

/* every byte non-zero, so that a byte lost by a copy (left zero by calloc) is visible */
static void fill(unsigned char *p, size_t n)
{
	size_t i;
	for (i = 0; i < n; ++i)
		p[i] = (unsigned char)(1 + rnd() % 255);
}

static void check_tree_equal(const rbtree_t *a, const rbtree_t *b, unsigned char *keys, unsigned char *vals,
			     size_t n, size_t ks, size_t vs, const char *when)
{
	size_t i;
	char msg[128];

	for (i = 0; i < n; ++i) {
		rbtree_node_t *na = rbtree_lookup(a, keys + i * ks);
		rbtree_node_t *nb = rbtree_lookup(b, keys + i * ks);

		++checks;
		if (na == NULL || nb == NULL) {
			snprintf(msg, sizeof(msg), "rbtree %s: key %zu not found in %s", when, i, na == NULL ? "original" : "copy");
			fail(msg, ks, vs, n);
		}
		if (na == nb) {
			snprintf(msg, sizeof(msg), "rbtree %s: copy shares node %zu with the original", when, i);
			fail(msg, ks, vs, n);
		}
		if (memcmp(rbtree_node_key(nb), keys + i * ks, ks) != 0 ||
		    memcmp(rbtree_node_value(nb), vals + i * vs, vs) != 0) {
			snprintf(msg, sizeof(msg), "rbtree %s: copy answers key %zu with other key/value bytes than were stored", when, i);
			fail(msg, ks, vs, n);
		}
		if (memcmp(rbtree_node_value(na), vals + i * vs, vs) != 0) {
			snprintf(msg, sizeof(msg), "rbtree %s: original's value of key %zu changed", when, i);
			fail(msg, ks, vs, n);
		}
	}
}

static void test_rbtree(size_t ks, size_t vs, size_t n, int drop_copy_first)
{
	unsigned char *keys = malloc((n + 8) * ks + 1), *vals = malloc((n + 8) * vs + 1);
	unsigned char extra_k[64], extra_v[64];
	rbtree_t a, b;
	size_t i, j, stored = 0;

	g_ks = ks;
	if (rbtree_init(&a, ks, vs, cmp_bytes)) fail("rbtree_init failed", ks, vs, n);

	for (i = 0; i < n; ++i) {
		int dup;
		do {
			fill(keys + stored * ks, ks);
			dup = 0;
			for (j = 0; j < stored; ++j)
				if (memcmp(keys + j * ks, keys + stored * ks, ks) == 0) dup = 1;
		} while (dup && ks > 1);
		if (dup) break;
		fill(vals + stored * vs, vs);
		if (rbtree_insert(&a, keys + stored * ks, vals + stored * vs)) fail("rbtree_insert failed", ks, vs, n);
		++stored;
	}
	n = stored;

	if (rbtree_copy(&a, &b)) fail("rbtree_copy failed", ks, vs, n);
	check_tree_equal(&a, &b, keys, vals, n, ks, vs, "right after the copy");

	/* operate on the copy only: a key the original never saw */
	for (;;) {
		int dup = 0;
		fill(extra_k, ks);
		for (j = 0; j < n; ++j)
			if (memcmp(keys + j * ks, extra_k, ks) == 0) dup = 1;
		if (!dup || ks == 1) break;
	}
	if (rbtree_lookup(&b, extra_k) == NULL) {
		fill(extra_v, vs);
		if (rbtree_insert(&b, extra_k, extra_v)) fail("rbtree_insert into the copy failed", ks, vs, n);
		++checks;
		if (rbtree_lookup(&a, extra_k) != NULL) fail("rbtree: insert into the copy is visible in the original", ks, vs, n);
		if (rbtree_lookup(&b, extra_k) == NULL ||
		    memcmp(rbtree_node_value(rbtree_lookup(&b, extra_k)), extra_v, vs) != 0)
			fail("rbtree: copy does not answer its own insert", ks, vs, n);
	}
	/* overwrite a value in the original through the node: the copy must not see it */
	if (n > 0) {
		rbtree_node_t *na = rbtree_lookup(&a, keys);
		unsigned char save[64];
		memcpy(save, rbtree_node_value(na), vs);
		memset(rbtree_node_value(na), 0, vs);
		++checks;
		if (memcmp(rbtree_node_value(rbtree_lookup(&b, keys)), vals, vs) != 0)
			fail("rbtree: store through the original changed the copy", ks, vs, n);
		memcpy(rbtree_node_value(na), save, vs);
	}
	check_tree_equal(&a, &b, keys, vals, n, ks, vs, "after operating on either side");

	if (drop_copy_first) {
		rbtree_cleanup(&b);
		for (i = 0; i < n; ++i) {
			++checks;
			if (rbtree_lookup(&a, keys + i * ks) == NULL ||
			    memcmp(rbtree_node_value(rbtree_lookup(&a, keys + i * ks)), vals + i * vs, vs) != 0)
				fail("rbtree: original damaged by releasing the copy", ks, vs, n);
		}
		rbtree_cleanup(&a);
	} else {
		rbtree_cleanup(&a);
		for (i = 0; i < n; ++i) {
			++checks;
			if (rbtree_lookup(&b, keys + i * ks) == NULL ||
			    memcmp(rbtree_node_value(rbtree_lookup(&b, keys + i * ks)), vals + i * vs, vs) != 0)
				fail("rbtree: copy damaged by releasing the original", ks, vs, n);
		}
		rbtree_cleanup(&b);
	}
	free(keys);
	free(vals);
}

static void test_str_table(size_t n, int drop_copy_first)
{
	str_table_t a, b;
	char **strs = calloc(n + 1, sizeof(char *));
	size_t *refs = calloc(n + 1, sizeof(size_t));
	size_t i, j, idx;

	if (str_table_init(&a)) fail("str_table_init failed", 0, 0, n);
	for (i = 0; i < n; ++i) {
		size_t len = 1 + rnd() % 40;
		strs[i] = malloc(len + 16);
		for (j = 0; j < len; ++j) strs[i][j] = (char)(1 + rnd() % 255);
		sprintf(strs[i] + len, "#%zu", i);       /* unique */
		if (str_table_get_index(&a, strs[i], &idx) || idx != i) fail("str_table_get_index: unexpected index", 0, 0, n);
		refs[i] = rnd() % 4;
		for (j = 0; j < refs[i]; ++j) str_table_add_ref(&a, i);
	}
	/* as its only caller (xattr_writer_copy) does: the enclosing struct is memcpy'd first, then the
	   container copies re-do the owned parts; str_table_copy itself does not set next_index */
	memcpy(&b, &a, sizeof(b));
	if (str_table_copy(&b, &a)) fail("str_table_copy failed", 0, 0, n);
	for (i = 0; i < n; ++i) {
		const char *s = str_table_get_string(&b, i);
		++checks;
		if (s == NULL || strcmp(s, strs[i]) != 0) fail("str_table: copy returns another string for an index", 0, 0, n);
		if (s == str_table_get_string(&a, i)) fail("str_table: copy shares string storage with the original", 0, 0, n);
		if (str_table_get_index(&b, strs[i], &idx) || idx != i) fail("str_table: copy maps a known string to another index", 0, 0, n);
		if (str_table_get_ref_count(&b, i) != refs[i]) fail("str_table: copy has another reference count", 0, 0, n);
	}
	/* a new string in the copy gets the next index there and is unknown to the original */
	if (str_table_get_index(&b, "only-in-the-copy", &idx) || idx != n) fail("str_table: copy hands out a wrong fresh index", 0, 0, n);
	++checks;
	if (str_table_get_string(&a, n) != NULL) fail("str_table: string added to the copy is visible in the original", 0, 0, n);
	if (n > 0) {
		str_table_add_ref(&b, 0);
		++checks;
		if (str_table_get_ref_count(&a, 0) != refs[0]) fail("str_table: add_ref on the copy changed the original", 0, 0, n);
		str_table_del_ref(&b, 0);
	}
	if (str_table_get_index(&a, "only-in-the-original", &idx) || idx != n) fail("str_table: original hands out a wrong fresh index after the copy", 0, 0, n);
	++checks;
	if (strcmp(str_table_get_string(&b, n), "only-in-the-copy") != 0) fail("str_table: copy's own string was replaced", 0, 0, n);

	if (drop_copy_first) { str_table_cleanup(&b); } else { str_table_cleanup(&a); }
	for (i = 0; i < n; ++i) {
		const char *s = str_table_get_string(drop_copy_first ? &a : &b, i);
		++checks;
		if (s == NULL || strcmp(s, strs[i]) != 0) fail("str_table: survivor damaged by releasing the other side", 0, 0, n);
	}
	if (drop_copy_first) { str_table_cleanup(&a); } else { str_table_cleanup(&b); }
	for (i = 0; i < n; ++i) free(strs[i]);
	free(strs);
	free(refs);
}

static void test_array(size_t es, size_t n, int drop_copy_first)
{
	array_t a, b;
	unsigned char *vals = malloc((n + 2) * es + 1), extra[64];
	size_t i;

	if (array_init(&a, es, rnd() % 3 ? 0 : n / 2)) fail("array_init failed", es, 0, n);
	for (i = 0; i < n; ++i) {
		fill(vals + i * es, es);
		if (array_append(&a, vals + i * es)) fail("array_append failed", es, 0, n);
	}
	memcpy(&b, &a, sizeof(b));
	if (array_init_copy(&b, &a)) fail("array_init_copy failed", es, 0, n);
	++checks;
	if (b.size != es || b.used != n) fail("array: copy has another element size / count", es, 0, n);
	if (n > 0 && b.data == a.data) fail("array: copy shares its storage with the original", es, 0, n);
	if (n > 0 && memcmp(b.data, vals, n * es) != 0) fail("array: copy holds other bytes than the original", es, 0, n);
	fill(extra, es);
	if (array_append(&b, extra)) fail("array_append to the copy failed", es, 0, n);
	++checks;
	if (a.used != n || (n > 0 && memcmp(a.data, vals, n * es) != 0)) fail("array: append to the copy changed the original", es, 0, n);
	if (memcmp((unsigned char *)b.data + n * es, extra, es) != 0 || (n > 0 && memcmp(b.data, vals, n * es) != 0))
		fail("array: copy does not hold its own append", es, 0, n);
	if (drop_copy_first) {
		array_cleanup(&b);
		++checks;
		if (n > 0 && memcmp(a.data, vals, n * es) != 0) fail("array: original damaged by releasing the copy", es, 0, n);
		array_cleanup(&a);
	} else {
		array_cleanup(&a);
		++checks;
		if (n > 0 && memcmp(b.data, vals, n * es) != 0) fail("array: copy damaged by releasing the original", es, 0, n);
		array_cleanup(&b);
	}
	free(vals);
}

int main(int argc, char **argv)
{
	static const size_t ksz[] = { 1, 2, 3, 4, 5, 7, 8, 9, 12, 16, 20 };
	static const size_t vsz[] = { 1, 2, 4, 5, 8, 12, 16 };
	static const size_t cnt[] = { 0, 1, 2, 3, 7, 33 };
	unsigned long seed = argc > 1 ? strtoul(argv[1], NULL, 0) : 1;
	unsigned long rounds = argc > 2 ? strtoul(argv[2], NULL, 0) : 1;
	unsigned long r;
	size_t i, j, k;

	rng = seed * 2654435761ULL + 12345;
	for (r = 0; r < rounds; ++r) {
		for (i = 0; i < sizeof(ksz) / sizeof(ksz[0]); ++i)
			for (j = 0; j < sizeof(vsz) / sizeof(vsz[0]); ++j)
				for (k = 0; k < sizeof(cnt) / sizeof(cnt[0]); ++k)
					test_rbtree(ksz[i], vsz[j], cnt[k], (int)((i + j + k + r) & 1));
		for (k = 0; k < sizeof(cnt) / sizeof(cnt[0]); ++k) {
			test_str_table(cnt[k], (int)((k + r) & 1));
			for (i = 0; i < sizeof(ksz) / sizeof(ksz[0]); ++i)
				test_array(ksz[i], cnt[k], (int)((i + k + r) & 1));
		}
	}
	printf("OK %lu\n", checks);
	return 0;
}
