/* C19 probe: gzip_compressor_t (model fields: [Own strm.state; D]) */
#include "lib/sqfs/src/comp/gzip.c"
#include "probe.h"

void probe_gzip(const void *o, const void *c, FILE *f)
{
	const gzip_compressor_t *a = o, *b = c;

	pr_hdr(f, c);
	fprintf(f, " %s", own_tok(a->strm.state, b->strm.state));
	fputs(a->compress == b->compress && a->block_size == b->block_size &&
	      memcmp(&a->opt, &b->opt, sizeof(a->opt)) == 0 &&
	      a->base.do_block == b->base.do_block &&
	      a->base.get_configuration == b->base.get_configuration &&
	      a->base.write_options == b->base.write_options &&
	      a->base.read_options == b->base.read_options ? " D=" : " D!", f);
}
