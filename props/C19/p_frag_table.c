/* C19 probe: sqfs_frag_table_t (model fields: [D; Own table.data]) */
#include "lib/sqfs/src/frag_table.c"
#include "probe.h"

void sub_frag_table(const void *o, const void *c, FILE *f)
{
	const sqfs_frag_table_t *a = o, *b = c;
	pr_hdr(f, c);
	fputs(a->table.size == b->table.size && a->table.used == b->table.used ? " D= " : " D! ", f);
	fputs(arr_tok(a->table.data, a->table.used, a->table.size,
		      b->table.data, b->table.used, b->table.size), f);
}

void probe_frag_table(const void *o, const void *c, FILE *f)
{
	sub_frag_table(o, c, f);
}

size_t frag_table_used(const void *o)
{
	return ((const sqfs_frag_table_t *)o)->table.used;
}

void shape_frag_table(const void *o, FILE *f)
{
	const sqfs_frag_table_t *a = o;
	fprintf(f, "rc=%zu used=%zu", a->base.refcount, a->table.used);
}
