(* C19 model driver (glue around the extracted Gallina model c19_model.ml).
   stdin, one request per line:
     L2 <id> <kind> <fixed|old> k=v ... ; EVENT ...     layer (ii): object graph of a copy,
         events COPY DROP_O DROP_C REF_O REF_C UNREF_O UNREF_C                reference counts, release
     L1 <id> <idtbl|fragtbl|xwr> op args | op args | ...  layer (i): answers of the pure machines
   stdout: the lines the C harness prints for the same events / operations. *)
open C19_model

let rec pos_of_int i = if i = 1 then XH else if i land 1 = 1 then XI (pos_of_int (i lsr 1)) else XO (pos_of_int (i lsr 1))
let n_of_int i = if i = 0 then N0 else Npos (pos_of_int i)
let rec int_of_pos = function XH -> 1 | XO p -> 2 * int_of_pos p | XI p -> 2 * int_of_pos p + 1
let int_of_n = function N0 -> 0 | Npos p -> int_of_pos p
let int_of_z = function Z0 -> 0 | Zpos p -> int_of_pos p | Zneg p -> - (int_of_pos p)
let rec nat_of_int i = if i <= 0 then O else S (nat_of_int (i - 1))
let rec int_of_nat = function O -> 0 | S n -> 1 + int_of_nat n

let unhex s =
  if s = "-" then [] else
  List.init (String.length s / 2) (fun i -> n_of_int (int_of_string ("0x" ^ String.sub s (2 * i) 2)))

(* ------------------------------------------------------------ layer (ii) *)
let kind_of_string = function
  | "xz" -> KXz | "lz4" -> KLz4 | "lzma" -> KLzma | "gzip" -> KGzip | "zstd" -> KZstd
  | "file" -> KFile | "meta" -> KMeta | "frag" -> KFrag | "id" -> KId | "data" -> KData
  | "dir" -> KDir | "xrd" -> KXrd | "xwr" -> KXwr
  | s -> failwith ("kind " ^ s)

(* which TOwn fields are array_t buffers (printed a.. instead of o.., E when empty) *)
let array_fields = function
  | KFrag | KId -> [1]
  | KXwr -> [0; 4; 8]
  | _ -> []

let has_env = function KMeta | KData | KDir | KXrd -> true | _ -> false

let crash_name = function
  | NullCall -> "NullCall" | UseAfterFree -> "UseAfterFree" | DoubleFree -> "DoubleFree"
  | WildPtr -> "WildPtr" | BadShape -> "BadShape"

let inner_str = function
  | None -> "" | Some INone -> "/t-" | Some IInside -> "/tC" | Some IOutside -> "/tA"

let rec tok_str kind idx = function
  | TkHdr (d, c, rc) -> Printf.sprintf "H[%d %d %d]" (if d then 1 else 0) (if c then 1 else 0) (int_of_n rc)
  | TkData eq -> if eq then "D=" else "D!"
  | TkOwn (st, empty, inner) ->
      let arr = List.mem idx (array_fields kind) in
      let letter = match st with
        | PNull -> if arr then "E" else "N"
        | PFresh -> if arr && empty then "E" else "F"
        | PAlias -> "A" | POther -> "X" in
      (if arr then "a" else "o") ^ letter ^ inner_str inner
  | TkOwnL (n, st, inner) ->
      let letter = match st with PFresh | PNull -> "F" | PAlias -> "A" | POther -> "X" in
      Printf.sprintf "l%d%s%s" (int_of_nat n) letter (inner_str inner)
  | TkObj (st, sub) ->
      (match st with
       | PNull -> "jN" | PAlias -> "jA" | POther -> "jX"
       | PFresh -> "j{" ^ toks_str (sub_kind kind idx) sub ^ "}")
  | TkRef (st, rc) ->
      (match st with PNull -> "rN" | PAlias -> Printf.sprintf "rS%d" (int_of_n rc) | _ -> "rX")
  | TkInt st -> (match st with PNull -> "iN" | PFresh -> "iC" | PAlias -> "iA" | POther -> "i?")
and sub_kind kind _ = match kind with KData -> KFrag | _ -> KMeta
and toks_str kind toks =
  (* the header token has no field index; fields count from 0 *)
  String.concat " " (List.mapi (fun i t -> tok_str kind (i - 1) t) toks)

let shape_get shape key dflt =
  try List.assoc key shape with Not_found -> dflt

let build kind shape =
  let g k = shape_get shape k 0 in
  let gn k = n_of_int (g k) in
  let gb k = g k <> 0 in
  match kind with
  | KXz | KLz4 | KLzma -> mk_flat kind (gn "rc")
  | KGzip | KZstd | KFile -> mk_res kind (gn "rc")
  | KMeta -> mk_meta (gn "rc") (gn "file") (gn "cmp")
  | KFrag | KId -> mk_table kind (gn "rc") (nat_of_int (g "used"))
  | KData -> mk_data (gn "rc") (nat_of_int (g "fragused")) (gb "db") (gb "fb") (gn "file") (gn "cmp")
  | KDir -> mk_dir (gn "rc") (nat_of_int (g "nodes")) (gn "file") (gn "cmp")
  | KXrd -> mk_xrd (gn "rc") (gb "ids") (gb "idrd") (gb "kvrd") (gn "file") (gn "cmp")
  | KXwr -> mk_xwr (gn "rc") (nat_of_int (g "keys")) (nat_of_int (g "values")) (nat_of_int (g "pairs"))
              (nat_of_int (g "nodes"))

let fuel = nat_of_int 6
let depth = nat_of_int 3

let print_rc kind h =
  if has_env kind then
    Printf.printf "RC file=%d cmp=%d\n" (int_of_n (rc_of h a_file)) (int_of_n (rc_of h a_cmp))
  else print_string "RC -\n"

let run_l2 id kind hooks shape events =
  let hk = if hooks = "old" then hK_old else hK_fixed in
  let (h0, o) = build kind shape in
  (* copyable = the hypotheses of the general theorems (copyable_g: shared objects closed, separated,
     every reference counted - the object may hold the LAST references to file and compressor);
     slack = the stronger hypothesis of the first generation of theorems (an outside holder exists) *)
  Printf.printf "CASE %s copyable=%b slack=%b hooks_ok=%b\n" id
    (copyable_g (nat_of_int 1) depth h0 o kind) (copyable depth h0 o kind) (hooks_ok hk);
  let h = ref h0 and c = ref None and dead = ref false in
  let addr_of = function 'O' -> Some o | _ -> !c in
  List.iter (fun ev ->
    if not !dead then
      match ev with
      | "COPY" ->
          (match sqfs_copy hk fuel !h o with
           | Ok (h1, Some ca) ->
               Printf.printf "COPY %s\n" (toks_str kind (classify depth kind h1 o ca));
               h := h1; c := Some ca; print_rc kind !h
           | Ok (_, None) -> print_string "COPY null\n"; print_rc kind !h
           | Crash r -> Printf.printf "CRASH %s\n" (crash_name r); dead := true
           | OutOfFuel -> print_string "CRASH OutOfFuel\n"; dead := true)
      | _ ->
          let l = String.length ev in
          let who = ev.[l - 1] and what = String.sub ev 0 (l - 2) in
          (match addr_of who with
           | None -> print_string "NOOBJ\n"
           | Some a ->
               let r = match what with
                 | "DROP" | "UNREF" -> sqfs_drop dK fuel !h a
                 | "REF" -> sqfs_grab !h a
                 | _ -> failwith ("event " ^ ev) in
               (match r with
                | Ok h1 -> h := h1; if what = "DROP" then print_rc kind !h
                | Crash r -> Printf.printf "CRASH %s\n" (crash_name r); dead := true
                | OutOfFuel -> print_string "CRASH OutOfFuel\n"; dead := true)))
    events;
  if not !dead then begin
    print_string "FINAL "; print_rc kind !h;
    Printf.printf "LIVE %d\n" (int_of_nat (live_count !h))
  end;
  print_string "END\n"

(* ------------------------------------------------------------- layer (i) *)
let run_l1 id kind ops =
  Printf.printf "CASE %s\n" id;
  (match kind with
   | "idtbl" ->
       let t = ref [] in
       List.iter (fun op ->
         match op with
         | ["i2x"; id] ->
             let (t', (ret, idx)) = id_to_index !t (n_of_int (int_of_string id)) in
             t := t'; Printf.printf "ret=%d idx=%d\n" (int_of_z ret) (int_of_n idx)
         | ["x2i"; i] ->
             let (t', (ret, v)) = index_to_id !t (n_of_int (int_of_string i)) in
             t := t'; Printf.printf "ret=%d id=%d\n" (int_of_z ret) (int_of_n v)
         | _ -> print_string "?\n") ops
   | "fragtbl" ->
       let t = ref [] in
       List.iter (fun op ->
         match op with
         | ["app"; loc; sz] ->
             let (t', (ret, idx)) = frag_append !t (n_of_int (int_of_string loc)) (n_of_int (int_of_string sz)) in
             t := t'; Printf.printf "ret=%d idx=%d\n" (int_of_z ret) (int_of_n idx)
         | ["set"; i; loc; sz] ->
             let (t', ret) = frag_set !t (n_of_int (int_of_string i)) (n_of_int (int_of_string loc))
                 (n_of_int (int_of_string sz)) in
             t := t'; Printf.printf "ret=%d\n" (int_of_z ret)
         | ["get"; i] ->
             (match frag_lookup !t (n_of_int (int_of_string i)) with
              | (ret, Some ((loc, sz), pad)) ->
                  Printf.printf "ret=%d start=%d size=%d pad=%d\n" (int_of_z ret) (int_of_n loc) (int_of_n sz) (int_of_n pad)
              | (ret, None) -> Printf.printf "ret=%d\n" (int_of_z ret))
         | ["size"] -> Printf.printf "n=%d\n" (int_of_n (frag_size !t))
         | _ -> print_string "?\n") ops
   | "xwr" ->
       let w = ref xwr_empty in
       List.iter (fun op ->
         match op with
         | ["begin"] -> let (w', ret) = xwr_begin !w in w := w'; Printf.printf "ret=%d\n" (int_of_z ret)
         | ["add"; k; v] ->
             let (w', ret) = xwr_add !w (unhex k) (unhex v) in
             w := w'; Printf.printf "ret=%d\n" (int_of_z ret)
         | ["end"] ->
             let (w', (ret, idx)) = xwr_end !w in
             w := w'; Printf.printf "ret=%d idx=%d\n" (int_of_z ret) (int_of_n idx)
         | _ -> print_string "?\n") ops
   | _ -> ());
  print_string "END\n"

let split_on c s = List.filter (fun x -> x <> "") (String.split_on_char c s)

let () =
  try
    while true do
      let line = input_line stdin in
      try match split_on ' ' line with
      | "L2" :: id :: kind :: hooks :: rest ->
          let rec cut acc = function
            | ";" :: ev -> (List.rev acc, ev)
            | x :: t -> cut (x :: acc) t
            | [] -> (List.rev acc, []) in
          let (sh, ev) = cut [] rest in
          let shape = List.filter_map (fun kv ->
              match String.split_on_char '=' kv with
              | [k; v] -> Some (k, int_of_string v) | _ -> None) sh in
          run_l2 id (kind_of_string kind) hooks shape ev
      | "L1" :: id :: kind :: rest ->
          let ops = List.map (split_on ' ') (String.split_on_char '|' (String.concat " " rest)) in
          run_l1 id kind (List.filter (fun o -> o <> []) ops)
      | _ -> ()
      with Failure m -> Printf.printf "ERROR %s\nEND\n" m
    done
  with End_of_file -> ()
