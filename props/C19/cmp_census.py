"""C19 / containers: census of every comparator the working tree hands to rbtree_init / qsort (strengthening, session 3).

The rbtree theorems of coq/Util (rbtree_insert_preserves_inv, rbtree_lookup_contract, rbtree_refines_map_thm) hold under the
hypothesis "the key comparator is a strict weak order" (sign antisymmetric, <= transitive).  Until now that hypothesis was
checked for ONE caller's comparator (dcache_key_compare of dir_reader.c).  This leg

1. finds, by reading the working tree at run time, every call of rbtree_init / qsort / array_sort_range / bsearch outside
   the test directories and the comparator named there; a call site whose comparator has no registered probe, or whose
   comparator argument cannot be resolved to a function, is reported (so a new tree or sort cannot enter unexamined);
2. for every comparator runs the REAL function (props/C19/census/hc_*.c #include the .c file that holds the static function)
   on adversarial keys of its key type: 0, 1, 2^31-1, 2^31, 2^31+1, 2^32-1, 2^32, 2^47, 2^48-1, 2^63, 2^64-1, values exactly
   2^31 / 2^32 apart, inode references as the formats produce them, random; all pairs and all triples:
   cmp(a,a) = 0, sgn cmp(a,b) = -sgn cmp(b,a), cmp(a,b) <= 0 and cmp(b,c) <= 0 imply cmp(a,c) <= 0, cmp(a,b) = 0 exactly for
   equal keys (where the key type has a notion of equal);
3. for the comparators handed to rbtree_init runs the REAL rbtree with them on the same keys (lookup, insert if absent, as
   the callers do; ascending / descending / random order): every stored key is found again, no two different keys are
   taken for one;
4. ties the Coq models of the comparators (coq/C19/CmpCensus.v: cmp_inum, cmp_u64, cmp_block; coq/Util/RbModel.v: cmp_u32)
   to the code: same sign on every pair of every case (extracted driver props/C19/driver_cmp.ml)."""
import os
import random
import re
import subprocess

from vlib import build as B
from vlib import core

HERE = os.path.dirname(os.path.abspath(__file__))
CENSUS = os.path.join(HERE, "census")

# function -> index of the comparator among its arguments
SINKS = {"rbtree_init": 3, "qsort": 3, "array_sort_range": 3, "bsearch": 4}
# (file, identifier) that is a parameter forwarded to another sink by a wrapper which is itself a sink
FORWARDERS = {("include/util/array.h", "compare_fun"): "array_sort_range"}

INTS = [0, 1, (1 << 31) - 1, 1 << 31, (1 << 31) + 1, (1 << 32) - 1, 1 << 32, 1 << 47, (1 << 48) - 1, 1 << 63, (1 << 64) - 1]


# ---------------------------------------------------------------- 1. the call sites of the working tree
def _args(text, pos):
    """argument strings of the call whose '(' is at text[pos]; None if unbalanced"""
    depth = 0
    cur = []
    out = []
    i = pos
    while i < len(text):
        c = text[i]
        if c == "(":
            depth += 1
            if depth > 1:
                cur.append(c)
        elif c == ")":
            depth -= 1
            if depth == 0:
                out.append("".join(cur).strip())
                return out
            cur.append(c)
        elif c == "," and depth == 1:
            out.append("".join(cur).strip())
            cur = []
        else:
            cur.append(c)
        i += 1
    return None


def _strip_comments(s):
    s = re.sub(r"/\*.*?\*/", lambda m: re.sub(r"[^\n]", " ", m.group(0)), s, flags=re.S)
    return re.sub(r"//[^\n]*", "", s)


def scan(repo):
    """[(file, line, sink, comparator text)] for calls, [(file, line, sink)] for declarations / definitions"""
    calls, decls = [], []
    pat = re.compile(r"\b(%s)\s*\(" % "|".join(SINKS))
    for top in ("lib", "bin", "include", "extras"):
        for dp, dn, fn in os.walk(os.path.join(repo, top)):
            dn[:] = sorted(d for d in dn if d not in ("test", "tests", ".libs", ".deps"))
            for f in sorted(fn):
                if not f.endswith((".c", ".h")):
                    continue
                path = os.path.join(dp, f)
                rel = os.path.relpath(path, repo)
                try:
                    text = _strip_comments(open(path, encoding="utf-8", errors="replace").read())
                except OSError:
                    continue
                for m in pat.finditer(text):
                    a = _args(text, m.end() - 1)
                    line = text.count("\n", 0, m.start()) + 1
                    sink = m.group(1)
                    if a is None or len(a) <= SINKS[sink]:
                        calls.append((rel, line, sink, None))
                        continue
                    c = a[SINKS[sink]]
                    if "(" in c or re.match(r"^(const\s+)?[A-Za-z_]\w*\s+\**\s*[A-Za-z_]\w*$", a[0]):
                        decls.append((rel, line, sink))            # prototype / definition: parameter list with types
                        continue
                    calls.append((rel, line, sink, c))
    return calls, decls


def resolve(repo, rel, ident):
    """'<file>:<function>' of the comparator named `ident` at a call site in `rel`, or None"""
    if ident is None or not re.match(r"^&?\s*[A-Za-z_]\w*$", ident):
        return None
    ident = ident.lstrip("& ")
    defn = re.compile(r"^[ \t]*(?:static\s+)?(?:SQFS_INLINE\s+)?int\s+%s\s*\(" % re.escape(ident), re.M)
    try:
        if defn.search(_strip_comments(open(os.path.join(repo, rel), encoding="utf-8", errors="replace").read())):
            return rel + ":" + ident
    except OSError:
        pass
    for top in ("lib", "bin"):
        for dp, dn, fn in os.walk(os.path.join(repo, top)):
            dn[:] = sorted(d for d in dn if d not in ("test", "tests", ".libs", ".deps"))
            for f in sorted(fn):
                if f.endswith(".c"):
                    p = os.path.join(dp, f)
                    try:
                        if re.search(r"^[ \t]*int\s+%s\s*\(" % re.escape(ident), _strip_comments(open(p, errors="replace").read()), re.M):
                            return os.path.relpath(p, repo) + ":" + ident
                    except OSError:
                        pass
    return None


# ---------------------------------------------------------------- 2. keys
def _ints(rnd, n, bits=64):
    mask = (1 << bits) - 1
    ks = [v & mask for v in INTS]
    base = rnd.randrange(0, 1 << bits)
    ks += [(base + d) & mask for d in (0, 1, 1 << 31, (1 << 31) - 1, 1 << 32, (1 << 32) + 1, 3 << 30)]
    while len(ks) < n + 20:
        ks.append(rnd.choice([rnd.randrange(0, 1 << bits), rnd.randrange(0, 1 << min(bits, 48)), rnd.randrange(0, 1 << 16)]))
    ks = list(dict.fromkeys(ks))
    rnd.shuffle(ks)
    return ks[:n]


def _arrange(rnd, ks, how, key=None):
    if how == "asc":
        return sorted(ks, key=key)
    if how == "desc":
        return sorted(ks, key=key, reverse=True)
    ks = list(ks)
    rnd.shuffle(ks)
    return ks


def inode_refs(rnd, n):
    """inode references as the directory iterator hands them to the hard link filter: (offset of the metadata block in the
    inode table) << 16 | offset in the block; blocks stored uncompressed are 8194 bytes apart, compressed ones closer"""
    step = rnd.choice([8194, 8194, 8194, rnd.randint(1500, 8194)])
    blocks = rnd.sample(range(0, 64), min(n, 24))
    out = []
    for b in blocks:
        out.append(((b * step) << 16) | rnd.randrange(0, 8192))
        if rnd.random() < 0.4:
            out.append(((b * step) << 16) | rnd.randrange(0, 8192))
    return list(dict.fromkeys(out))[:n]


def gen_inum(rnd, i):
    how = ("asc", "desc", "rnd")[i % 3]
    if i % 2 == 0:
        ks = [(0, r) for r in inode_refs(rnd, 40)]
        aim = "inode references, one device, inserted " + how
    else:
        devs = [0, 1, 1 << 32, (1 << 64) - 1, rnd.randrange(0, 1 << 64)]
        ks = [(rnd.choice(devs[:2 + i % 4]), v) for v in _ints(rnd, 40)]
        ks = list(dict.fromkeys(ks))
        aim = "(st_dev, st_ino)-like keys at the 2^31 / 2^32 / 2^48 / 2^63 boundaries, inserted " + how
    ks = _arrange(rnd, ks, how)
    return ["%d:%d" % k for k in ks], aim


def gen_u32(rnd, i):
    how = ("asc", "desc", "rnd")[i % 3]
    return [str(k) for k in _arrange(rnd, _ints(rnd, 40, 32), how)], "32 bit inode numbers, inserted " + how


def gen_u64(rnd, i):
    ks = _ints(rnd, 36)
    ks += [(a << 32) | b for a in (0, 1, 0x7FFFFFFF, 0x80000000, 0xFFFFFFFF) for b in (0, 0x80000000)][:6]
    return [str(k) for k in _arrange(rnd, list(dict.fromkeys(ks)), "rnd")], "(key index << 32 | value index) pairs"


def gen_block(rnd, i):
    """context array with repeated runs; keys = (start, count) incl. equal runs at different places"""
    vals = _ints(rnd, 12) + [(a << 32) | b for a in (0, 1, 255, 256, 0x80000000) for b in (0, 1, 0xFFFFFFFF)]
    arr = []
    runs = []
    for _ in range(10):
        run = [rnd.choice(vals) for _ in range(rnd.randint(1, 4))]
        for _rep in range(rnd.randint(1, 2)):
            runs.append((len(arr), len(run)))
            arr += run
    keys = list(runs)
    for _ in range(12):
        s = rnd.randrange(0, len(arr))
        keys.append((s, rnd.randint(0, min(4, len(arr) - s))))
    keys = list(dict.fromkeys(keys))[:36]
    keys = _arrange(rnd, keys, ("asc", "desc", "rnd")[i % 3])
    return ["p%d" % v for v in arr] + ["k%d:%d" % k for k in keys], "runs of the pair array, equal runs at different offsets, lengths 0..4"


def gen_names(rnd, i):
    alpha = [1, 0x2e, 0x2f, 0x41, 0x61, 0x62, 0x7f, 0x80, 0xc3, 0xfe, 0xff]
    ks = [b"", b"a", b"ab", b"a\xff", b"a\x80", b"\xff", b"\x7f", b"\x80", b"a\x01", b"b"]
    while len(ks) < 40:
        base = rnd.choice(ks)
        ks.append(base[:rnd.randint(0, len(base))] + bytes(rnd.choice(alpha) for _ in range(rnd.randint(0, 3))))
        ks = list(dict.fromkeys(ks))
    rnd.shuffle(ks)
    return [k.hex() if k else "-" for k in ks], "names with bytes >= 0x80, prefixes of each other, the empty name"


def gen_files(rnd, i):
    bs = rnd.choice([4096, 131072, 1 << 20])
    ks = []
    for _ in range(36):
        ext = rnd.random() < 0.4
        size = rnd.choice([0, 1, bs - 1, bs, bs + 1, 2 * bs, 2 * bs + 7, rnd.randrange(0, 4 * bs)])
        fidx = rnd.choice([0xFFFFFFFF, 0, 1, 2, 0x7FFFFFFF, 0x80000000, rnd.randrange(0, 5)])
        foff = rnd.choice([0, 1, bs - 1, bs, 0xFFFFFFFF, rnd.randrange(0, bs)])
        start = rnd.choice([0, 96, (1 << 31) - 1, 1 << 31, (1 << 32) - 1, rnd.randrange(0, 1 << 32)])
        if ext and rnd.random() < 0.5:
            start = rnd.choice([1 << 32, (1 << 32) + 96, 1 << 47, rnd.randrange(0, 1 << 48)])
        ks.append("f%d:%d:%d:%d:%d" % (1 if ext else 0, size, fidx, foff, start))
    return ["b%d" % bs] + list(dict.fromkeys(ks)), "file inodes with / without a tail in a fragment, fragment indices and start blocks up to 2^32 / 2^48"


# comparator -> (key generator, has a Coq model tied by driver_cmp.ml, what it orders)
PROBES = {
    "lib/sqfs/src/io/dir_hl.c:compare_inum": (gen_inum, "inum", "rbtree of the hard link filter, keys (dev, inode reference / st_ino)"),
    "lib/sqfs/src/dir_reader.c:dcache_key_compare": (gen_u32, "u32", "rbtree inode number -> directory inode reference"),
    "lib/sqfs/src/xattr/xattr_writer.c:block_compare": (gen_block, "block", "rbtree of distinct xattr key/value blocks"),
    "lib/sqfs/src/xattr/xattr_writer_record.c:compare_u64": (gen_u64, "u64", "qsort of the xattr pairs of one inode"),
    "lib/sqfs/src/io/dir_unix.c:compare_names": (gen_names, None, "qsort of the names of a scanned directory"),
    "bin/rdsquashfs/src/fill_files.c:compare_files": (gen_files, None, "qsort of the files rdsquashfs unpacks"),
}


def plan(seed, tier):
    rnd = random.Random(seed * 48611 + 3)
    per = 6 if tier == "quick" else 60
    cases = []
    cid = 0
    for pid, (gen, _model, _what) in PROBES.items():
        for i in range(per):
            cid += 1
            toks, aim = gen(random.Random(rnd.getrandbits(64)), i)
            cases.append(dict(kind="cmpcensus", cid=cid, probe=pid, tokens=toks, aim=aim))
    return cases


# ---------------------------------------------------------------- 3. run
def build_harness(info):
    srcs = sorted(os.path.join(CENSUS, f) for f in os.listdir(CENSUS) if f.startswith("hc_") and f.endswith(".c"))
    return B.compile_harness(info, srcs, "h_census_c19", includes=["-I" + CENSUS])


def _run_lines(exe, cases, env=None, timeout=120):
    inp = "".join("CASE %d %s %s\n" % (c["cid"], c["probe"], " ".join(c["tokens"])) for c in cases).encode()
    try:
        r = subprocess.run([exe], input=inp, stdout=subprocess.PIPE, stderr=subprocess.PIPE, env=env, timeout=timeout)
        out, err, rc = r.stdout.decode("utf-8", "replace"), r.stderr.decode("utf-8", "replace"), r.returncode
    except subprocess.TimeoutExpired as e:
        out, err, rc = (e.stdout or b"").decode("utf-8", "replace"), "[timeout]", 124
    res = {}
    cur = None
    for l in out.split("\n"):
        if l.startswith("CASE "):
            cur = int(l.split()[1])
            res[cur] = []
        elif l == "END":
            cur = None
        elif cur is not None:
            res[cur].append(l)
    return res, err, rc


def _keys(c):
    return [t for t in c["tokens"] if not t.startswith(("p", "b"))] if c["probe"].endswith(("block_compare", "compare_files")) else c["tokens"]


def _show(c, i):
    k = _keys(c)[i]
    if c["probe"].endswith("compare_inum"):
        d, n = k.split(":")
        return "(dev %s, inode 0x%x)" % (d, int(n))
    if c["probe"].endswith(("dcache_key_compare", "compare_u64")):
        return "0x%x" % int(k)
    if c["probe"].endswith("compare_names"):
        return repr(bytes.fromhex(k) if k != "-" else b"")
    if c["probe"].endswith("compare_files"):
        e, size, fi, fo, st = k[1:].split(":")
        bs = next((t[1:] for t in c["tokens"] if t.startswith("b")), "?")
        return "{%s file inode: size %s, fragment index 0x%x offset %s, blocks start %s; block size %s}" % (
            "extended" if e == "1" else "basic", size, int(fi), fo, st, bs)
    if c["probe"].endswith("block_compare"):
        st, cnt = k[1:].split(":")
        arr = [int(t[1:]) for t in c["tokens"] if t.startswith("p")]
        return "{start %s, count %s: pairs %s}" % (st, cnt, ["0x%x" % v for v in arr[int(st):int(st) + int(cnt)]])
    return k


def judge(c, lines):
    """(signature suffix, text) or None for one case's harness output"""
    kv = {}
    for l in lines:
        if l.startswith(("cmp ", "tree ")):
            for t in l.split()[1:]:
                if "=" in t:
                    a, b = t.split("=", 1)
                    kv[l.split()[0] + "." + a] = b
    if "cmp.n" not in kv:
        return ("harness", "no answer from the census harness: %r" % (lines[:2],))
    bad = []
    name = c["probe"].split(":")[1]
    if int(kv["cmp.refl_bad"]):
        i = int(kv["cmp.w_refl"])
        bad.append("%s(a, a) != 0 for a = %s" % (name, _show(c, i)))
    if int(kv["cmp.antisym_bad"]):
        w, vals = kv["cmp.w_antisym"].split(":")
        i, j = map(int, w.split(","))
        bad.append("%s(a, b) = %s and %s(b, a) = %s for a = %s, b = %s (%s of %s pairs)" % (
            name, vals.split(",")[0], name, vals.split(",")[1], _show(c, i), _show(c, j), kv["cmp.antisym_bad"], kv["cmp.pairs"]))
    if int(kv["cmp.trans_bad"]):
        w, vals = kv["cmp.w_trans"].split(":")
        i, j, k = map(int, w.split(","))
        v = vals.split(",")
        bad.append("not transitive: cmp(a, b) = %s, cmp(b, c) = %s but cmp(a, c) = %s for a = %s, b = %s, c = %s (%s of %s triples)" % (
            v[0], v[1], v[2], _show(c, i), _show(c, j), _show(c, k), kv["cmp.trans_bad"], kv["cmp.triples"]))
    if int(kv["cmp.eqv_bad"]):
        w, val = kv["cmp.w_eqv"].split(":")
        i, j = map(int, w.split(","))
        bad.append("%s(a, b) = %s although a = %s and b = %s are %s" % (
            name, val, _show(c, i), _show(c, j), "different keys" if val == "0" else "the same key"))
    tree = []
    if "tree.lost" in kv and int(kv["tree.lost"]):
        tree.append("the real rbtree with this comparator no longer finds %s of the %s keys it stores (e.g. %s) after the inserts in the "
                    "given order" % (kv["tree.lost"], kv["tree.inserted"], _show(c, int(kv["tree.first_lost"]))))
    if "tree.merged" in kv and int(kv["tree.merged"]):
        i, j = map(int, kv["tree.first_merged"].split(","))
        tree.append("the real rbtree takes %s for the stored key %s" % (_show(c, i), _show(c, j)))
    if not bad and not tree:
        return None
    return ("not-an-order", "; ".join(bad + tree))


def signs(lines):
    for l in lines:
        if l.startswith("signs "):
            return l.split()[1]
    return None


def build_driver():
    return core.build_model_driver("C19cmp", "ExtractC19Cmp.v", os.path.join(HERE, "driver_cmp.ml"))


def run_leg(ctx, info, cases=None):
    repo = core.REPO if hasattr(core, "REPO") else B.REPO
    stats = dict(call_sites=0, comparators=0, cases=0, pairs=0, triples=0, rbtree_runs=0, model_pairs_compared=0, declarations=0)
    seen = set()

    def report(sig, what, obj, no_input=False):
        if sig not in seen:
            seen.add(sig)
            ctx.violation(sig, what, obj, no_input=no_input)

    # 1. census of the call sites
    calls, decls = scan(repo)
    stats["call_sites"] = len(calls)
    stats["declarations"] = len(decls)
    found = {}
    for rel, line, sink, ident in calls:
        if (rel, ident) in FORWARDERS and FORWARDERS[(rel, ident)] in SINKS:
            continue                        # wrapper: its own callers are call sites of the census
        pid = resolve(repo, rel, ident)
        if pid is None:
            report("census:unresolved-comparator:%s:%s" % (rel, sink),
                   "comparator census: %s:%d calls %s with a comparator (%r) that is not a function defined in the tree; the order "
                   "hypothesis of the container theorems cannot be examined for it - register it in props/C19/cmp_census.py"
                   % (rel, line, sink, ident), dict(kind="cmpcensus", site="%s:%d" % (rel, line), sink=sink), no_input=True)
            continue
        found.setdefault(pid, []).append("%s:%d %s" % (rel, line, sink))
        if pid not in PROBES:
            report("census:unprobed-comparator:%s" % pid,
                   "comparator census: %s:%d hands %s to %s and no order probe is registered for it (props/C19/cmp_census.py PROBES + "
                   "props/C19/census/hc_*.c): the hypothesis 'strict weak order' of rbtree_insert_preserves_inv / rbtree_lookup_contract "
                   "(or of qsort) is unexamined for this comparator" % (rel, line, pid, sink),
                   dict(kind="cmpcensus", site="%s:%d" % (rel, line), sink=sink, comparator=pid), no_input=True)
    stats["comparators"] = len(found)
    stats["sites"] = {k: v for k, v in sorted(found.items())}
    for pid in PROBES:
        if pid not in found:
            ctx.notes.append("comparator census: registered comparator %s is no longer handed to a tree / sort" % pid)

    # 2./3. the probes
    try:
        exe = build_harness(info)
    except Exception as e:        # noqa: BLE001
        report("census:harness-does-not-build", "comparator census: a probe no longer compiles against the working tree (comparator renamed "
               "or its file moved?): %s" % str(e)[-600:], dict(kind="cmpcensus"), no_input=True)
        return stats
    if cases is None:
        cases = plan(ctx.seed, ctx.tier)
    env = dict(os.environ, ASAN_OPTIONS="detect_leaks=1:abort_on_error=0", UBSAN_OPTIONS="halt_on_error=1:print_stacktrace=1")
    res, err, rc = _run_lines(exe, cases, env=env)
    if rc != 0:
        done = set(res)
        nxt = next((c for c in cases if c["cid"] not in done or not res[c["cid"]]), cases[-1])
        report("census:crash:%s" % nxt["probe"], "comparator census: sanitizer report / signal (rc %d) around the case for %s: %s"
               % (rc, nxt["probe"], err[-800:]), dict(nxt, stderr=err[-3000:]))
    for c in cases:
        lines = res.get(c["cid"])
        if not lines:
            continue
        stats["cases"] += 1
        m = re.search(r"pairs=(\d+) triples=(\d+)", lines[0])
        if m:
            stats["pairs"] += int(m.group(1))
            stats["triples"] += int(m.group(2))
        if any(l.startswith("tree ") for l in lines):
            stats["rbtree_runs"] += 1
        v = judge(c, lines)
        if v:
            what = PROBES.get(c["probe"], (None, None, ""))[2]
            report("census:%s:%s" % (v[0], c["probe"]),
                   "comparator census: %s (%s) is not a strict weak order on keys of its type [%s]: %s.  The container theorems "
                   "(coq/Util: rbtree_insert_preserves_inv, rbtree_lookup_contract, rbtree_refines_map_thm) and qsort assume one"
                   % (c["probe"], what, c["aim"], v[1]), dict(c, impl_output=lines[:3], sites=found.get(c["probe"], [])))

    # 4. models of the comparators vs the code: same sign on every pair
    modelled = [c for c in cases if PROBES.get(c["probe"], (None, None))[1] and res.get(c["cid"])]
    try:
        drv = build_driver()
    except RuntimeError as e:
        ctx.log("comparator model driver not built (%s): model tie skipped" % str(e)[:200])
        drv = None
    if drv is not None and modelled:
        mcases = [dict(c, probe=PROBES[c["probe"]][1]) for c in modelled]
        mres, merr, mrc = _run_lines(drv, mcases)
        for c in modelled:
            a, b = signs(res[c["cid"]]), signs(mres.get(c["cid"], []))
            if a is None or b is None:
                report("census-tie:no-answer:%s" % c["probe"], "comparator model driver / harness gave no sign matrix for case %d: %s"
                       % (c["cid"], merr[-300:]), dict(c), no_input=True)
                continue
            stats["model_pairs_compared"] += len(a)
            if a != b:
                k = next(i for i in range(min(len(a), len(b))) if a[i] != b[i]) if len(a) == len(b) else 0
                n = len(_keys(c))
                i, j = divmod(k, n) if n else (0, 0)
                if ("census:not-an-order:" + c["probe"]) not in seen:
                    report("census-tie:%s" % c["probe"],
                           "comparator %s and its Coq model (coq/C19/CmpCensus.v / coq/Util/RbModel.v) disagree in sign on a = %s, b = %s: "
                           "implementation '%s', model '%s' (the order probe found the implementation to be an order on these keys)"
                           % (c["probe"], _show(c, i), _show(c, j), a[k] if k < len(a) else "?", b[k] if k < len(b) else "?"),
                           dict(c, correspondence="props/C19: comparator models vs the static comparators of the working tree"), no_input=True)
    return stats
