(* C19 / Util model driver: glue around the extracted container models (c19_util_model.ml).
   Reads the same case lines as props/C19/h_utilmodel.c and prints the same answer lines:
     CASE <id> <HT|RB|ST|AR> <params> / one operation per line / END *)
open C19_util_model

let rec pos_of_int i = if i = 1 then XH else if i land 1 = 1 then XI (pos_of_int (i lsr 1)) else XO (pos_of_int (i lsr 1))
let n_of_int i = if i <= 0 then N0 else Npos (pos_of_int i)
let rec int_of_pos = function XH -> 1 | XO p -> 2 * int_of_pos p | XI p -> 2 * int_of_pos p + 1
let int_of_n = function N0 -> 0 | Npos p -> int_of_pos p
let int_of_z = function Z0 -> 0 | Zpos p -> int_of_pos p | Zneg p -> - (int_of_pos p)
let rec int_of_nat = function O -> 0 | S n -> 1 + int_of_nat n

(* decimal strings of any size <-> N *)
let n10 = n_of_int 10
let n_of_string s =
  let r = ref N0 in
  String.iter (fun c -> if c >= '0' && c <= '9' then r := N.add (N.mul !r n10) (n_of_int (Char.code c - 48))) s;
  !r
let string_of_n x =
  if x = N0 then "0" else begin
    let b = Buffer.create 24 and cur = ref x and digits = ref [] in
    while !cur <> N0 do
      let (q, r) = N.div_eucl !cur n10 in
      digits := int_of_n r :: !digits; cur := q
    done;
    List.iter (fun d -> Buffer.add_char b (Char.chr (48 + d))) !digits;
    Buffer.contents b
  end

let unhex s =
  if s = "-" then [] else
  List.init (String.length s / 2) (fun i -> n_of_int (int_of_string ("0x" ^ String.sub s (2 * i) 2)))
let hex l = String.concat "" (List.map (fun b -> Printf.sprintf "%02x" (int_of_n b)) l)

let pad_to n l =
  let len = List.length l in
  if len >= n then List.filteri (fun i _ -> i < n) l else l @ List.init (n - len) (fun _ -> N0)

exception Model_fault of string

let which s = if s <> "" && s.[0] = 'B' then 1 else 0

(* ------------------------------------------------------------------ hash table *)
let hkeq (a : n * n) (b : n * n) = N.eqb (snd a) (snd b)

let run_ht next_line =
  let t : (((n * n), n) htab) option array = [| ht_create; None |] in
  let continue = ref true in
  while !continue do
    match next_line () with
    | None | Some ("END" :: _) -> continue := false
    | Some ["c"] -> (match t.(0) with Some x -> t.(1) <- Some (ht_clone x); print_string "c ok\n" | None -> print_string "c null\n")
    | Some (w :: op :: args) ->
      let w = which w in
      (match t.(w) with
       | None -> Printf.printf "%s noobj\n" op
       | Some ht ->
         (match op, args with
          | "i", [h; id; cls; data] ->
            (match ht_insert hkeq ht (n_of_string h) (n_of_string id, n_of_string cls) (n_of_string data) with
             | Ok (ht', Some a) -> t.(w) <- Some ht'; Printf.printf "i @%s\n" (string_of_n a)
             | Ok (ht', None) -> t.(w) <- Some ht'; print_string "i NULL\n"
             | Crash -> print_string "i CRASH\n"
             | OutOfFuel -> print_string "i OUTOFFUEL\n")
          | ("s" | "r"), [h; id; cls] ->
            (match ht_search hkeq ht (n_of_string h) (n_of_string id, n_of_string cls) with
             | Ok (Some a) ->
               (match ht_entry ht a with
                | Some ((eh, (kid, kcls)), d) ->
                  Printf.printf "%s @%s %s %s %s %s\n" op (string_of_n a) (string_of_n eh) (string_of_n kid)
                    (string_of_n kcls) (string_of_n d)
                | None -> Printf.printf "%s BADENTRY\n" op);
               if op = "r" then t.(w) <- Some (ht_remove_entry ht a)
             | Ok None -> Printf.printf "%s -\n" op
             | Crash -> Printf.printf "%s CRASH\n" op
             | OutOfFuel -> Printf.printf "%s OUTOFFUEL\n" op)
          | "d", _ ->
            Printf.printf "d si=%d size=%s rehash=%s max=%s n=%s del=%s :" (int_of_nat ht.ht_size_index)
              (string_of_n ht.ht_size) (string_of_n ht.ht_rehash) (string_of_n ht.ht_max_entries)
              (string_of_n ht.ht_entries) (string_of_n ht.ht_deleted);
            List.iteri (fun i s ->
                match s with
                | SFree -> ()
                | SDeleted -> Printf.printf " %d=D" i
                | SPresent (h, (kid, kcls), d) ->
                  Printf.printf " %d=%s/%s/%s/%s" i (string_of_n h) (string_of_n kid) (string_of_n kcls) (string_of_n d))
              ht.ht_table;
            print_string "\n"
          | _ -> print_string "?\n"))
    | Some _ -> ()
  done

(* ------------------------------------------------------------------ rbtree *)
let run_rb next_line ks vs cmpname =
  let cmp = match cmpname with "u32" -> cmp_u32 | "sub32" -> cmp_sub32 | _ -> cmp_bytes in
  let (ret, t0) = rbtree_init (n_of_string ks) (n_of_string vs) in
  let t : rbtree option array = [| None; None |] in
  let next = ref N0 in
  Printf.printf "init ret=%d" (int_of_z ret);
  if ret = Z0 then begin
    Printf.printf " ks=%s ksp=%s vs=%s" (string_of_n t0.rb_key_size) (string_of_n t0.rb_key_size_padded)
      (string_of_n t0.rb_value_size);
    t.(0) <- Some t0
  end;
  print_string "\n";
  let ksi = int_of_n t0.rb_key_size and vsi = int_of_n t0.rb_value_size in
  let continue = ref true in
  while !continue do
    match next_line () with
    | None | Some ("END" :: _) -> continue := false
    | Some ["c"] ->
      (match t.(0) with
       | None -> print_string "c noobj\n"
       | Some x ->
         (match rbtree_copy x !next with
          | Some (y, nx) -> t.(1) <- Some y; next := nx; print_string "c ret=0\n"
          | None -> t.(1) <- None; print_string "c CRASH\n"))
    | Some (w :: op :: args) ->
      let w = which w in
      (match t.(w) with
       | None -> Printf.printf "%s noobj\n" op
       | Some rb ->
         (match op, args with
          | "i", (k :: rest) ->
            let v = match rest with v :: _ -> v | [] -> "" in
            (match rbtree_insert cmp rb !next (pad_to ksi (unhex k)) (pad_to vsi (unhex v)) with
             | Some (rb', nx) -> t.(w) <- Some rb'; next := nx; print_string "i ret=0\n"
             | None -> print_string "i CRASH\n")
          | "l", [k] ->
            (match rbtree_lookup cmp rb (pad_to ksi (unhex k)) with
             | Leaf -> print_string "l -\n"
             | Node (id, _, red, voff, data, _) ->
               Printf.printf "l id=%s red=%d voff=%s data=%s\n" (string_of_n id) (if red then 1 else 0)
                 (string_of_n voff) (hex data))
          | "d", _ ->
            let d = dump rb.rb_root N0 in
            Printf.printf "d n=%d :" (List.length d);
            List.iter (fun ((((id, red), depth), voff), data) ->
                Printf.printf " %s/%d/%s/%s/%s" (string_of_n id) (if red then 1 else 0) (string_of_n depth)
                  (string_of_n voff) (hex data)) d;
            print_string "\n"
          | "x", _ -> t.(w) <- None; print_string "x\n"
          | _ -> print_string "?\n"))
    | Some _ -> ()
  done

(* ------------------------------------------------------------------ str_table *)
let run_st next_line =
  let h = ref { bh_next = N0; bh_cells = [] } in
  let t : str_table option array = [| None; None |] in
  (match str_table_init with
   | Some (ret, st) -> Printf.printf "init ret=%d\n" (int_of_z ret); if ret = Z0 then t.(0) <- Some st
   | None -> print_string "init NOTABLE\n");
  let continue = ref true in
  let rc st i =
    match str_table_get_ref_count !h st i with
    | SOk r -> "rc=" ^ string_of_n r | SCrash -> "CRASH" | SOutOfFuel -> "OUTOFFUEL" in
  while !continue do
    match next_line () with
    | None | Some ("END" :: _) -> continue := false
    | Some ["c"] ->
      (match t.(0) with
       | None -> print_string "c noobj\n"
       | Some src ->
         (* the caller memcpy's the struct first: dst = src *)
         (match str_table_copy !h src src with
          | SOk ((h', dst), ret) ->
            h := h'; Printf.printf "c ret=%d\n" (int_of_z ret); t.(1) <- (if ret = Z0 then Some dst else None)
          | SCrash -> t.(1) <- None; print_string "c CRASH\n"
          | SOutOfFuel -> t.(1) <- None; print_string "c OUTOFFUEL\n"))
    | Some (w :: op :: args) ->
      let w = which w in
      (match t.(w) with
       | None -> Printf.printf "%s noobj\n" op
       | Some st ->
         let arg0 = match args with a :: _ -> a | [] -> "" in
         (match op with
          | "g" ->
            (match str_table_get_index !h st (unhex arg0) with
             | SOk (((h', st'), ret), idx) ->
               h := h'; t.(w) <- Some st';
               Printf.printf "g ret=%d idx=%s\n" (int_of_z ret) (if ret = Z0 then string_of_n idx else "0")
             | SCrash -> print_string "g CRASH\n"
             | SOutOfFuel -> print_string "g OUTOFFUEL\n")
          | "h" -> Printf.printf "h %s\n" (string_of_n (strhash (unhex arg0)))
          | "s" ->
            (match str_table_get_string !h st (n_of_string arg0) with
             | SOk (Some s) -> Printf.printf "s =%s\n" (hex s)
             | SOk None -> print_string "s -\n"
             | SCrash -> print_string "s CRASH\n"
             | SOutOfFuel -> print_string "s OUTOFFUEL\n")
          | "+" ->
            (match str_table_add_ref !h st (n_of_string arg0) with
             | SOk h' -> h := h'; Printf.printf "+ %s\n" (rc st (n_of_string arg0))
             | _ -> print_string "+ CRASH\n")
          | "-" ->
            (match str_table_del_ref !h st (n_of_string arg0) with
             | SOk h' -> h := h'; Printf.printf "- %s\n" (rc st (n_of_string arg0))
             | _ -> print_string "- CRASH\n")
          | "n" -> Printf.printf "n %s\n" (rc st (n_of_string arg0))
          | "d" ->
            let ht = st.st_ht and a = st.st_arr in
            Printf.printf "d next=%s used=%s count=%s size=%s si=%d n=%s del=%s :" (string_of_n st.st_next_index)
              (string_of_n a.a_used) (string_of_n a.a_count) (string_of_n a.a_size) (int_of_nat ht.ht_size_index)
              (string_of_n ht.ht_entries) (string_of_n ht.ht_deleted);
            List.iteri (fun i s ->
                match s with
                | SFree -> ()
                | SDeleted -> Printf.printf " %d=D" i
                | SPresent (hash, (owner, _), bid) ->
                  (match bh_get !h bid with
                   | Some b ->
                     Printf.printf " %d=%s/%s/%d/%s/%s/%s" i (string_of_n hash) (string_of_n bid)
                       (if owner = Some bid then 1 else 0) (string_of_n b.b_index) (string_of_n b.b_refcount)
                       (hex b.b_string)
                   | None -> Printf.printf " %d=DANGLING" i))
              ht.ht_table;
            print_string " |";
            List.iter (fun bid -> Printf.printf " %s" (string_of_n bid)) a.a_data;
            print_string "\n"
          | "x" -> t.(w) <- None; print_string "x\n"
          | _ -> print_string "?\n"))
    | Some _ -> ()
  done

(* ------------------------------------------------------------------ array *)
let run_ar next_line size cap =
  let (ret, a0) = array_init (n_of_string size) (n_of_string cap) in
  let t : (n list) arr option array = [| None; None |] in
  Printf.printf "init ret=%d size=%s count=%s used=%s\n" (int_of_z ret) (string_of_n a0.a_size)
    (string_of_n a0.a_count) (string_of_n a0.a_used);
  if ret = Z0 then t.(0) <- Some a0;
  let continue = ref true in
  while !continue do
    match next_line () with
    | None | Some ("END" :: _) -> continue := false
    | Some ["c"] ->
      (match t.(0) with
       | None -> print_string "c noobj\n"
       | Some src ->
         let (ret, dst) = array_init_copy src in
         Printf.printf "c ret=%d\n" (int_of_z ret);
         t.(1) <- (if ret = Z0 then Some dst else None))
    | Some (w :: op :: args) ->
      let w = which w in
      (match t.(w) with
       | None -> Printf.printf "%s noobj\n" op
       | Some a ->
         let esz = int_of_n a.a_size in
         (match op, args with
          | "a", _ ->
            let x = match args with x :: _ -> x | [] -> "" in
            let (ret, a') = array_append a (pad_to esz (unhex x)) in
            t.(w) <- Some a'; Printf.printf "a ret=%d\n" (int_of_z ret)
          | "c", [cap] ->
            (match array_set_capacity a (n_of_string cap) with
             | Ok (ret, a') -> t.(w) <- Some a'; Printf.printf "c ret=%d count=%s\n" (int_of_z ret) (string_of_n a'.a_count)
             | Crash -> print_string "c CRASH\n"
             | OutOfFuel -> print_string "c OUTOFFUEL\n")
          | "g", [i] ->
            (match array_get a (n_of_string i) with
             | Some e -> Printf.printf "g =%s\n" (hex e)
             | None -> print_string "g -\n")
          | "s", (i :: rest) ->
            let x = match rest with x :: _ -> x | [] -> "" in
            let (ret, a') = array_set a (n_of_string i) (pad_to esz (unhex x)) in
            t.(w) <- Some a'; Printf.printf "s ret=%d\n" (int_of_z ret)
          | "d", _ ->
            Printf.printf "d size=%s count=%s used=%s :" (string_of_n a.a_size) (string_of_n a.a_count) (string_of_n a.a_used);
            List.iter (fun e -> Printf.printf " %s" (hex e)) a.a_data;
            print_string "\n"
          | "x", _ -> t.(w) <- None; print_string "x\n"
          | _ -> print_string "?\n"))
    | Some _ -> ()
  done

(* ------------------------------------------------------------------ comparator hypotheses *)
let le4 v = [ n_of_int (v land 255); n_of_int ((v lsr 8) land 255); n_of_int ((v lsr 16) land 255); n_of_int ((v lsr 24) land 255) ]
let run_cmp next_line name keys =
  let cmp = match name with "sub32" -> cmp_sub32 | _ -> cmp_u32 in
  let ks = List.map (fun s -> (int_of_string s, le4 (int_of_string s))) keys in
  let bad_a = ref 0 and bad_t = ref 0 in
  let sg z = int_of_z z in
  List.iter (fun (vi, ki) ->
      List.iter (fun (vj, kj) ->
          let a = sg (cmp ki kj) and b = sg (cmp kj ki) in
          if (a < 0) <> (b > 0) || (a > 0) <> (b < 0) || ((vi = vj) <> (a = 0)) then incr bad_a;
          List.iter (fun (_, kl) ->
              let c = sg (cmp kj kl) and d = sg (cmp ki kl) in
              if a <= 0 && c <= 0 && not (d <= 0) then incr bad_t) ks) ks) ks;
  Printf.printf "cmp antisym_bad=%d trans_bad=%d\n" !bad_a !bad_t;
  let continue = ref true in
  while !continue do
    match next_line () with None | Some ("END" :: _) -> continue := false | _ -> ()
  done

let split s = List.filter (fun x -> x <> "") (String.split_on_char ' ' s)

let () =
  let next_line () = try Some (split (input_line stdin)) with End_of_file -> None in
  let go = ref true in
  while !go do
    match next_line () with
    | None -> go := false
    | Some ("CASE" :: id :: kind :: params) ->
      Printf.printf "CASE %s\n" id;
      (try
         (match kind, params with
          | "HT", _ -> run_ht next_line
          | "RB", (ks :: vs :: cmp :: _) -> run_rb next_line ks vs cmp
          | "ST", _ -> run_st next_line
          | "AR", (size :: cap :: _) -> run_ar next_line size cap
          | "CMP", (name :: keys) -> run_cmp next_line name keys
          | _ -> ())
       with Failure m | Invalid_argument m -> Printf.printf "ERROR %s\n" m);
      print_string "END\n"
    | Some _ -> ()
  done
