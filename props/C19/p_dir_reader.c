/* C19 probe: sqfs_dir_reader_t
 * model fields: [Obj meta_dir; Obj meta_inode; D; OwnL dcache nodes; Int dcache.root] */
#include "lib/sqfs/src/dir_reader.c"
#include "probe.h"
#include "p_tree.h"

static void sub_tok(const void *a, const void *b, FILE *f)
{
	if (a == NULL && b == NULL) fputs("jN", f);
	else if (a == NULL || b == NULL) fputs("jX", f);
	else if (a == b) fputs("jA", f);
	else { fputs("j{", f); sub_meta_reader(a, b, f); fputs("}", f); }
}

void probe_dir_reader(const void *o, const void *c, FILE *f)
{
	const sqfs_dir_reader_t *a = o, *b = c;
	nodeset_t na = { 0 }, nb = { 0 };
	size_t i, sz;
	int alias = 0, content = 1, inner = 1, nptr = 0;

	pr_hdr(f, c);
	fputc(' ', f);
	sub_tok(a->meta_dir, b->meta_dir, f);
	fputc(' ', f);
	sub_tok(a->meta_inode, b->meta_inode, f);
	fputs(memcmp(&a->super, &b->super, sizeof(a->super)) == 0 && a->flags == b->flags &&
	      a->dcache.key_size == b->dcache.key_size && a->dcache.value_size == b->dcache.value_size &&
	      a->dcache.key_size_padded == b->dcache.key_size_padded &&
	      a->dcache.key_compare == b->dcache.key_compare ? " D= " : " D! ", f);

	ns_walk(&na, a->dcache.root, 0);
	ns_walk(&nb, b->dcache.root, 0);
	sz = a->dcache.key_size_padded + a->dcache.value_size;
	for (i = 0; i < nb.n; ++i) {
		if (ns_has(&na, nb.v[i])) alias = 1;
		if (nb.v[i]->left != NULL) { ++nptr; if (!ns_has(&nb, nb.v[i]->left) || ns_has(&na, nb.v[i]->left)) inner = 0; }
		if (nb.v[i]->right != NULL) { ++nptr; if (!ns_has(&nb, nb.v[i]->right) || ns_has(&na, nb.v[i]->right)) inner = 0; }
		if (i < na.n && memcmp(na.v[i]->data, nb.v[i]->data, sz) != 0) content = 0;
	}
	if (na.n != nb.n || !content)
		fprintf(f, "l%zuX", nb.n);
	else
		fprintf(f, "l%zu%s", nb.n, alias ? "A" : "F");
	fputs(nptr == 0 ? "/t-" : (inner ? "/tC" : "/tA"), f);

	if (b->dcache.root == NULL) fputs(a->dcache.root == NULL ? " iN" : " i?", f);
	else if (b->dcache.root == a->dcache.root) fputs(" iA", f);
	else fputs(ns_has(&nb, b->dcache.root) ? " iC" : " i?", f);
	free(na.v);
	free(nb.v);
}

void shape_dir_reader(const void *o, FILE *f)
{
	const sqfs_dir_reader_t *a = o;
	nodeset_t na = { 0 };

	ns_walk(&na, a->dcache.root, 0);
	fprintf(f, "rc=%zu nodes=%zu", a->base.refcount, na.n);
	free(na.v);
}
