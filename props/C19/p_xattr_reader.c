/* C19 probe: sqfs_xattr_reader_t
 * model fields: [D; Own id_block_starts; Obj idrd; Obj kvrd] */
#include "lib/sqfs/src/xattr/xattr_reader.c"
#include "probe.h"

static void sub_tok(const void *a, const void *b, FILE *f)
{
	if (a == NULL && b == NULL) fputs("jN", f);
	else if (a == NULL || b == NULL) fputs("jX", f);
	else if (a == b) fputs("jA", f);
	else { fputs("j{", f); sub_meta_reader(a, b, f); fputs("}", f); }
}

void probe_xattr_reader(const void *o, const void *c, FILE *f)
{
	const sqfs_xattr_reader_t *a = o, *b = c;
	const char *t;

	pr_hdr(f, c);
	fputs(a->xattr_start == b->xattr_start && a->xattr_end == b->xattr_end &&
	      a->num_id_blocks == b->num_id_blocks && a->num_ids == b->num_ids ? " D= " : " D! ", f);
	if (a->id_block_starts == NULL && b->id_block_starts == NULL) t = "oN";
	else if (a->id_block_starts == NULL || b->id_block_starts == NULL) t = "oX";
	else if (a->id_block_starts == b->id_block_starts) t = "oA";
	else t = memcmp(a->id_block_starts, b->id_block_starts,
			sizeof(sqfs_u64) * a->num_id_blocks) == 0 ? "oF" : "oX";
	fputs(t, f);
	fputc(' ', f);
	sub_tok(a->idrd, b->idrd, f);
	fputc(' ', f);
	sub_tok(a->kvrd, b->kvrd, f);
}

void shape_xattr_reader(const void *o, FILE *f)
{
	const sqfs_xattr_reader_t *a = o;
	fprintf(f, "rc=%zu ids=%d idrd=%d kvrd=%d", a->base.refcount,
		a->id_block_starts != NULL, a->idrd != NULL, a->kvrd != NULL);
}
