/* C19 probe: sqfs_data_reader_t
 * model fields: [Obj frag_tbl; Ref cmp; Ref file; Own data_block; Own frag_block; D] */
#include "lib/sqfs/src/data_reader.c"
#include "probe.h"

static const char *blk_tok(const sqfs_u8 *o, size_t osz, const sqfs_u8 *c, size_t csz)
{
	if (o == NULL && c == NULL) return "oN";
	if (o == NULL || c == NULL) return "oX";
	if (o == c) return "oA";
	if (osz != csz || memcmp(o, c, osz) != 0) return "oX";
	return "oF";
}

void probe_data_reader(const void *o, const void *c, FILE *f)
{
	const sqfs_data_reader_t *a = o, *b = c;
	int eq;

	pr_hdr(f, c);
	fputc(' ', f);
	if (a->frag_tbl == NULL && b->frag_tbl == NULL) {
		fputs("jN", f);
	} else if (a->frag_tbl == NULL || b->frag_tbl == NULL) {
		fputs("jX", f);
	} else if (a->frag_tbl == b->frag_tbl) {
		fputs("jA", f);
	} else {
		fputs("j{", f);
		sub_frag_table(a->frag_tbl, b->frag_tbl, f);
		fputs("}", f);
	}
	fputc(' ', f);
	ref_tok(f, a->cmp, b->cmp);
	fputc(' ', f);
	ref_tok(f, a->file, b->file);
	fprintf(f, " %s", blk_tok(a->data_block, a->data_blk_size, b->data_block, b->data_blk_size));
	fprintf(f, " %s", blk_tok(a->frag_block, a->frag_blk_size, b->frag_block, b->frag_blk_size));
	eq = a->data_blk_size == b->data_blk_size && a->current_block == b->current_block &&
		a->frag_blk_size == b->frag_blk_size && a->current_frag_index == b->current_frag_index &&
		a->block_size == b->block_size;
	fputs(eq ? " D=" : " D!", f);
}

void shape_data_reader(const void *o, FILE *f)
{
	const sqfs_data_reader_t *a = o;
	fprintf(f, "rc=%zu fragused=%zu db=%d fb=%d", a->obj.refcount,
		frag_table_used(a->frag_tbl), a->data_block != NULL, a->frag_block != NULL);
}
