/* C19 probe: lzma_compressor_t (flat: model fields [D]) */
#include "lib/sqfs/src/comp/lzma.c"
#include "probe.h"

void probe_lzma(const void *o, const void *c, FILE *f)
{
	pr_hdr(f, c);
	fputs(memcmp((const char *)o + sizeof(sqfs_object_t), (const char *)c + sizeof(sqfs_object_t),
		     sizeof(lzma_compressor_t) - sizeof(sqfs_object_t)) == 0 ? " D=" : " D!", f);
}
