/* C19 probe: sqfs_id_table_t (model fields: [D; Own ids.data]) */
#include "lib/sqfs/src/id_table.c"
#include "probe.h"

void probe_id_table(const void *o, const void *c, FILE *f)
{
	const sqfs_id_table_t *a = o, *b = c;
	pr_hdr(f, c);
	fputs(a->ids.size == b->ids.size && a->ids.used == b->ids.used ? " D= " : " D! ", f);
	fputs(arr_tok(a->ids.data, a->ids.used, a->ids.size,
		      b->ids.data, b->ids.used, b->ids.size), f);
}

void shape_id_table(const void *o, FILE *f)
{
	const sqfs_id_table_t *a = o;
	fprintf(f, "rc=%zu used=%zu", a->base.refcount, a->ids.used);
}
