/* census probe: block_compare of lib/sqfs/src/xattr/xattr_writer.c (rbtree of the distinct key/value blocks; the key
 * is a kv_block_desc_t of which (start, count) select a run of 64 bit pairs in xwr->kv_pairs = the comparator's context).
 * tokens: p<u64> appends a pair to the context array, k<start>:<count> is a key */
#include "lib/sqfs/src/xattr/xattr_writer.c"
#include "census.h"

static kv_block_desc_t K[CENSUS_MAX_KEYS];
static sqfs_u64 P[4096];
static size_t np;
static sqfs_xattr_writer_t W;

static int load(int ntok, char **tok)
{
	int n = 0;
	np = 0;
	memset(K, 0, sizeof(K));
	for (int i = 0; i < ntok; ++i) {
		if (tok[i][0] == 'p' && np < 4096) {
			P[np++] = census_u64(tok[i] + 1);
		} else if (tok[i][0] == 'k' && n < CENSUS_MAX_KEYS) {
			char *c = strchr(tok[i], ':');
			if (c == NULL) return -1;
			*c = '\0';
			K[n].start = census_u64(tok[i] + 1);
			K[n].count = census_u64(c + 1);
			if (K[n].start + K[n].count > np) return -1;
			/* fields the comparator must ignore */
			K[n].start_ref = 0x1111111111111111ULL * (unsigned)(n + 1);
			K[n].size_bytes = (size_t)n * 977;
			++n;
		} else {
			return -1;
		}
	}
	memset(&W, 0, sizeof(W));
	W.kv_pairs.size = sizeof(sqfs_u64);
	W.kv_pairs.count = np;
	W.kv_pairs.used = np;
	W.kv_pairs.data = P;
	return n;
}
static int cmp(int i, int j) { return block_compare(&W, &K[i], &K[j]); }
static int same(int i, int j)
{
	return K[i].count == K[j].count && memcmp(P + K[i].start, P + K[j].start, K[i].count * sizeof(sqfs_u64)) == 0;
}
static const void *key(int i) { return &K[i]; }
static void *ctx(void) { return &W; }

const census_probe_t census_xattr_block = { "lib/sqfs/src/xattr/xattr_writer.c:block_compare", load, cmp, same,
					    block_compare, key, sizeof(kv_block_desc_t), ctx };
