/* C19 comparator census, harness: for every comparator the working tree hands to rbtree_init / qsort (one probe per
 * comparator, hc_*.c) evaluate the order axioms on the given keys with the REAL function, and for rbtree comparators
 * run the REAL rbtree (lib/util/src/rbtree.c of the working tree) with it: every inserted key must be found again and
 * no two different keys may be taken for one.
 *
 * stdin : CASE <id> <probe id> <key tokens ...>
 * stdout: CASE <id> / cmp ... / [tree ...] / END */
#include "config.h"
#include <stdio.h>
#include <stdlib.h>
#include <string.h>

#include "util/rbtree.h"
#include "census.h"

unsigned long long census_u64(const char *s) { return strtoull(s, NULL, 0); }

int census_unhex(const char *s, unsigned char *out, int max)
{
	int n = 0;
	for (; s[0] && s[1]; s += 2) {
		unsigned v;
		if (n >= max || sscanf(s, "%2x", &v) != 1) return -1;
		out[n++] = (unsigned char)v;
	}
	return n;
}

static const census_probe_t *probes[] = { &census_dir_hl, &census_dir_reader, &census_xattr_block, &census_xattr_u64,
					  &census_dir_unix, &census_fill_files };

static char line[1 << 20];
static char *tok[8192];

static int sgn(int x) { return x < 0 ? -1 : (x > 0 ? 1 : 0); }

static void run(const census_probe_t *p, int ntok, char **t)
{
	int n = p->load(ntok, t);
	long refl = 0, anti = 0, trans = 0, eqv = 0, pairs = 0, triples = 0;
	int wr = -1, wa[2] = { -1, -1 }, wt[3] = { -1, -1, -1 }, we[2] = { -1, -1 };
	static int C[CENSUS_MAX_KEYS][CENSUS_MAX_KEYS];
	if (n < 0) { printf("cmp parse-error\n"); return; }
	for (int i = 0; i < n; ++i)
		for (int j = 0; j < n; ++j)
			C[i][j] = p->cmp(i, j);
	for (int i = 0; i < n; ++i) {
		if (C[i][i] != 0) { if (!refl++) wr = i; }
		for (int j = 0; j < n; ++j) {
			int s = p->same(i, j);
			++pairs;
			if (i != j && sgn(C[i][j]) != -sgn(C[j][i])) { if (!anti++) { wa[0] = i; wa[1] = j; } }
			if (s >= 0 && (s != 0) != (C[i][j] == 0)) { if (!eqv++) { we[0] = i; we[1] = j; } }
			for (int k = 0; k < n; ++k) {
				++triples;
				if (C[i][j] <= 0 && C[j][k] <= 0 && !(C[i][k] <= 0)) {
					if (!trans++) { wt[0] = i; wt[1] = j; wt[2] = k; }
				}
			}
		}
	}
	printf("cmp n=%d pairs=%ld triples=%ld refl_bad=%ld antisym_bad=%ld trans_bad=%ld eqv_bad=%ld "
	       "w_refl=%d w_antisym=%d,%d:%d,%d w_trans=%d,%d,%d:%d,%d,%d w_eqv=%d,%d:%d\n", n, pairs, triples, refl, anti, trans, eqv, wr,
	       wa[0], wa[1], wa[0] >= 0 ? C[wa[0]][wa[1]] : 0, wa[0] >= 0 ? C[wa[1]][wa[0]] : 0,
	       wt[0], wt[1], wt[2], wt[0] >= 0 ? C[wt[0]][wt[1]] : 0, wt[0] >= 0 ? C[wt[1]][wt[2]] : 0, wt[0] >= 0 ? C[wt[0]][wt[2]] : 0,
	       we[0], we[1], we[0] >= 0 ? C[we[0]][we[1]] : 0);
	printf("signs ");
	for (int i = 0; i < n; ++i)
		for (int j = 0; j < n; ++j)
			putchar(C[i][j] < 0 ? '-' : (C[i][j] > 0 ? '+' : '0'));
	printf("\n");
	if (p->cmp3 != NULL) {
		rbtree_t tr;
		int inserted = 0, lost = 0, merged = 0, first_lost = -1, m0 = -1, m1 = -1;
		static int in_tree[CENSUS_MAX_KEYS];
		if (rbtree_init(&tr, p->keysize, sizeof(int), p->cmp3) != 0) { printf("tree init-failed\n"); return; }
		tr.key_context = p->ctx();
		for (int i = 0; i < n; ++i) {
			rbtree_node_t *nd = rbtree_lookup(&tr, p->key(i));
			in_tree[i] = 0;
			if (nd != NULL) {
				int j = *(int *)rbtree_node_value(nd);
				if (p->same(i, j) == 0) { if (!merged++) { m0 = i; m1 = j; } }
				continue;
			}
			/* not found: a new key, unless an equal one was stored before (then the tree lost it) */
			if (rbtree_insert(&tr, p->key(i), &i) != 0) { printf("tree insert-failed\n"); rbtree_cleanup(&tr); return; }
			in_tree[i] = 1;
			++inserted;
		}
		for (int i = 0; i < n; ++i) {
			rbtree_node_t *nd;
			if (!in_tree[i]) continue;
			nd = rbtree_lookup(&tr, p->key(i));
			if (nd == NULL || *(int *)rbtree_node_value(nd) != i) { if (!lost++) first_lost = i; }
		}
		/* a key stored twice (the second lookup of an equal key missed the first copy) */
		for (int i = 0; i < n; ++i)
			for (int j = i + 1; j < n; ++j)
				if (in_tree[i] && in_tree[j] && p->same(i, j) == 1) { if (!lost++) first_lost = i; }
		printf("tree inserted=%d lost=%d merged=%d first_lost=%d first_merged=%d,%d\n", inserted, lost, merged, first_lost, m0, m1);
		rbtree_cleanup(&tr);
	}
}

int main(void)
{
	setvbuf(stdout, NULL, _IOFBF, 1 << 16);
	while (fgets(line, sizeof(line), stdin) != NULL) {
		int n = 0;
		for (char *s = strtok(line, " \r\n"); s != NULL && n < 8192; s = strtok(NULL, " \r\n")) tok[n++] = s;
		if (n < 3 || strcmp(tok[0], "CASE") != 0) continue;
		printf("CASE %s\n", tok[1]);
		fflush(stdout);
		const census_probe_t *p = NULL;
		for (size_t i = 0; i < sizeof(probes) / sizeof(probes[0]); ++i)
			if (strcmp(probes[i]->id, tok[2]) == 0) p = probes[i];
		if (p == NULL) printf("cmp unknown-probe\n");
		else run(p, n - 3, tok + 3);
		printf("END\n");
		fflush(stdout);
	}
	return 0;
}
