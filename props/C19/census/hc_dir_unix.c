/* census probe: compare_names of lib/sqfs/src/io/dir_unix.c (qsort of the names of a scanned directory); keys = hex
 * strings ("-" = empty name) */
#include "lib/sqfs/src/io/dir_unix.c"
#include "census.h"

static unsigned char S[CENSUS_MAX_KEYS][260];
static char *K[CENSUS_MAX_KEYS];

static int load(int ntok, char **tok)
{
	int n = 0;
	for (int i = 0; i < ntok && n < CENSUS_MAX_KEYS; ++i) {
		int l = strcmp(tok[i], "-") == 0 ? 0 : census_unhex(tok[i], S[n], 256);
		if (l < 0) return -1;
		S[n][l] = 0;
		K[n] = (char *)S[n];
		++n;
	}
	return n;
}
static int cmp(int i, int j) { return compare_names(&K[i], &K[j]); }
static int same(int i, int j) { return strcmp(K[i], K[j]) == 0; }

const census_probe_t census_dir_unix = { "lib/sqfs/src/io/dir_unix.c:compare_names", load, cmp, same, NULL, NULL, 0, NULL };
