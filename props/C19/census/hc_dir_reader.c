/* census probe: dcache_key_compare of lib/sqfs/src/dir_reader.c (rbtree inode number -> inode reference) */
#include "lib/sqfs/src/dir_reader.c"
#include "census.h"

static sqfs_u32 K[CENSUS_MAX_KEYS];

static int load(int ntok, char **tok)
{
	int n = 0;
	for (int i = 0; i < ntok && n < CENSUS_MAX_KEYS; ++i)
		K[n++] = (sqfs_u32)census_u64(tok[i]);
	return n;
}
static int cmp(int i, int j) { return dcache_key_compare(NULL, &K[i], &K[j]); }
static int same(int i, int j) { return K[i] == K[j]; }
static const void *key(int i) { return &K[i]; }
static void *ctx(void) { return NULL; }

const census_probe_t census_dir_reader = { "lib/sqfs/src/dir_reader.c:dcache_key_compare", load, cmp, same,
					   dcache_key_compare, key, sizeof(sqfs_u32), ctx };
