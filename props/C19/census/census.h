/* C19 comparator census: what every probe translation unit exports.  A probe #includes ONE .c file of the working tree
 * (so that its static comparator is visible), parses adversarial keys of the comparator's key type and calls the REAL
 * function on pairs of them. */
#ifndef CENSUS_H
#define CENSUS_H
#include <stddef.h>

#define CENSUS_MAX_KEYS 96

typedef struct {
	const char *id;                    /* "<file>:<function>" as the census (cmp_census.py) names the call site's comparator */
	int (*load)(int ntok, char **tok); /* parse the key tokens; number of keys or -1 */
	int (*cmp)(int i, int j);          /* the real comparator on keys i, j */
	int (*same)(int i, int j);         /* 1: keys denote the same thing (comparator must say 0), 0: different (must not), -1: n/a */
	/* comparators handed to rbtree_init additionally: */
	int (*cmp3)(const void *ctx, const void *l, const void *r);
	const void *(*key)(int i);
	size_t keysize;
	void *(*ctx)(void);
} census_probe_t;

extern const census_probe_t census_dir_hl, census_dir_reader, census_xattr_block, census_xattr_u64, census_dir_unix,
	census_fill_files;

unsigned long long census_u64(const char *s);
int census_unhex(const char *s, unsigned char *out, int max);
#endif
