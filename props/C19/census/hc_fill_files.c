/* census probe: compare_files of bin/rdsquashfs/src/fill_files.c (qsort of the files to unpack: those with a fragment
 * first, by fragment index, then by start block).  tokens: b<block size>; f<ext>:<size>:<frag idx>:<frag off>:<start> */
#include "bin/rdsquashfs/src/fill_files.c"
#include "census.h"

static sqfs_inode_generic_t *I[CENSUS_MAX_KEYS];
static struct file_ent K[CENSUS_MAX_KEYS];

static int load(int ntok, char **tok)
{
	int n = 0;
	for (int i = 0; i < CENSUS_MAX_KEYS; ++i) { free(I[i]); I[i] = NULL; }
	block_size = 4096;
	for (int i = 0; i < ntok; ++i) {
		if (tok[i][0] == 'b') {
			block_size = census_u64(tok[i] + 1);
			if (block_size == 0) return -1;
		} else if (tok[i][0] == 'f' && n < CENSUS_MAX_KEYS) {
			unsigned long long v[5];
			char *p = tok[i] + 1;
			for (int k = 0; k < 5; ++k) {
				char *c = strchr(p, ':');
				if (c != NULL) *c = '\0';
				else if (k < 4) return -1;
				v[k] = census_u64(p);
				p = c + 1;
			}
			I[n] = calloc(1, sizeof(*I[n]));
			if (I[n] == NULL) return -1;
			if (v[0]) {
				I[n]->base.type = SQFS_INODE_EXT_FILE;
				I[n]->data.file_ext.file_size = v[1];
				I[n]->data.file_ext.fragment_idx = (sqfs_u32)v[2];
				I[n]->data.file_ext.fragment_offset = (sqfs_u32)v[3];
				I[n]->data.file_ext.blocks_start = v[4];
			} else {
				I[n]->base.type = SQFS_INODE_FILE;
				I[n]->data.file.file_size = (sqfs_u32)v[1];
				I[n]->data.file.fragment_index = (sqfs_u32)v[2];
				I[n]->data.file.fragment_offset = (sqfs_u32)v[3];
				I[n]->data.file.blocks_start = (sqfs_u32)v[4];
			}
			K[n].path = NULL;
			K[n].inode = I[n];
			++n;
		} else {
			return -1;
		}
	}
	return n;
}
static int cmp(int i, int j) { return compare_files(&K[i], &K[j]); }
static int same(int i, int j) { (void)i; (void)j; return -1; }

const census_probe_t census_fill_files = { "bin/rdsquashfs/src/fill_files.c:compare_files", load, cmp, same, NULL, NULL, 0, NULL };
