/* census probe: compare_u64 of lib/sqfs/src/xattr/xattr_writer_record.c (qsort, through array_sort_range, of the
 * (key index << 32 | value index) pairs of one inode) */
#include "lib/sqfs/src/xattr/xattr_writer_record.c"
#include "census.h"

static sqfs_u64 K[CENSUS_MAX_KEYS];

static int load(int ntok, char **tok)
{
	int n = 0;
	for (int i = 0; i < ntok && n < CENSUS_MAX_KEYS; ++i)
		K[n++] = census_u64(tok[i]);
	return n;
}
static int cmp(int i, int j) { return compare_u64(&K[i], &K[j]); }
static int same(int i, int j) { return K[i] == K[j]; }

const census_probe_t census_xattr_u64 = { "lib/sqfs/src/xattr/xattr_writer_record.c:compare_u64", load, cmp, same,
					  NULL, NULL, 0, NULL };
