/* census probe: compare_inum of lib/sqfs/src/io/dir_hl.c (rbtree of the hard link filter; keys (dev, inode), where
 * dir_iterator.c passes the 48 bit inode reference as inode and dir_unix.c st_dev / st_ino) */
#include "lib/sqfs/src/io/dir_hl.c"
#include "census.h"

static inumtree_key_t K[CENSUS_MAX_KEYS];

static int load(int ntok, char **tok)
{
	int n = 0;
	for (int i = 0; i < ntok && n < CENSUS_MAX_KEYS; ++i) {
		char *c = strchr(tok[i], ':');
		if (c == NULL) return -1;
		*c = '\0';
		K[n].dev = census_u64(tok[i]);
		K[n].inum = census_u64(c + 1);
		++n;
	}
	return n;
}
static int cmp(int i, int j) { return compare_inum(NULL, &K[i], &K[j]); }
static int same(int i, int j) { return K[i].dev == K[j].dev && K[i].inum == K[j].inum; }
static const void *key(int i) { return &K[i]; }
static void *ctx(void) { return NULL; }

const census_probe_t census_dir_hl = { "lib/sqfs/src/io/dir_hl.c:compare_inum", load, cmp, same, compare_inum, key,
				       sizeof(inumtree_key_t), ctx };
