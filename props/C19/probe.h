/* C19 probes: introspection of the private structs of original and copy.
 * Every probe TU #includes the one .c file whose struct it needs (so the
 * layout always is the one of the working tree) and prints a canonical
 * description of the copy's object graph relative to the original's.
 *
 * Tokens (one per model field, see coq/C19/ObjKinds.v for the field order):
 *   H[d c rc]   object header: destroy!=NULL, copy!=NULL, refcount
 *   D= / D!     plain data equal / different
 *   oN oF oA oX owned buffer: both NULL / fresh / ALIAS of the original's / other
 *   aE aF aA aX array_t buffer: empty / fresh with equal contents / alias / other
 *   jN jA jX j{..} sub-object: NULL / alias / other / fresh (its own tokens inside)
 *   rS<rc> rN rX  shared reference: same object as the original's (+ its refcount) / NULL / other
 *   l<n>F l<n>A l<n>X  cell set: n cells all fresh / some alias / count or contents differ
 *   /t- /tC /tA  suffix of o.. a.. l..: the pointers stored inside the cell(s): none / all into the copy / some not
 *   iN iC iA i?  internal pointer: NULL / into the copy / same value as original's (into original) / other
 */
#ifndef C19_PROBE_H
#define C19_PROBE_H
#include <stdio.h>
#include <string.h>
#include "sqfs/predef.h"

static inline void pr_hdr(FILE *f, const void *o)
{
	const sqfs_object_t *b = o;
	fprintf(f, "H[%d %d %zu]", b->destroy != NULL, b->copy != NULL, b->refcount);
}

static inline const char *own_tok(const void *o, const void *c)
{
	if (o == NULL && c == NULL) return "oN";
	if (o != NULL && c != NULL) return o == c ? "oA" : "oF";
	return "oX";
}

static inline const char *arr_tok(const void *od, size_t oused, size_t osz,
				  const void *cd, size_t cused, size_t csz)
{
	if (oused != cused || osz != csz) return "aX";
	if (cused == 0) return (cd != NULL && cd == od) ? "aA" : "aE";
	if (cd == NULL || od == NULL) return "aX";
	if (cd == od) return "aA";
	return memcmp(od, cd, cused * csz) == 0 ? "aF" : "aX";
}

static inline void ref_tok(FILE *f, const void *o, const void *c)
{
	if (o == NULL && c == NULL) fputs("rN", f);
	else if (o == c) fprintf(f, "rS%zu", ((const sqfs_object_t *)c)->refcount);
	else fputs("rX", f);
}

void probe_xz(const void *o, const void *c, FILE *f);
void probe_lz4(const void *o, const void *c, FILE *f);
void probe_lzma(const void *o, const void *c, FILE *f);
void probe_gzip(const void *o, const void *c, FILE *f);
void probe_zstd(const void *o, const void *c, FILE *f);
void probe_file(const void *o, const void *c, FILE *f);
void probe_meta_reader(const void *o, const void *c, FILE *f);
void probe_frag_table(const void *o, const void *c, FILE *f);
void probe_id_table(const void *o, const void *c, FILE *f);
void probe_data_reader(const void *o, const void *c, FILE *f);
void probe_dir_reader(const void *o, const void *c, FILE *f);
void probe_xattr_reader(const void *o, const void *c, FILE *f);
void probe_xattr_writer(const void *o, const void *c, FILE *f);

/* shape of the original just before the copy (input of the model) */
void shape_meta_reader(const void *o, FILE *f);
void shape_frag_table(const void *o, FILE *f);
void shape_id_table(const void *o, FILE *f);
void shape_data_reader(const void *o, FILE *f);
void shape_dir_reader(const void *o, FILE *f);
void shape_xattr_reader(const void *o, FILE *f);
void shape_xattr_writer(const void *o, FILE *f);

/* helpers exported by the sub-object probes for the composite ones */
void sub_meta_reader(const void *o, const void *c, FILE *f);
void sub_frag_table(const void *o, const void *c, FILE *f);
size_t frag_table_used(const void *o);
void meta_reader_refs(const void *o, const void **file, const void **cmp);
#endif
