/* C19 harness: executes scripted op sequences
 *     create; ops; copy; interleaved ops on original and copy; drop x2
 * through the PUBLIC API of libsquashfs for every copyable kind and prints one
 * canonical answer line per op.  Slots: O original, C copy, P twin of O (same
 * history, never copied), Q twin of C.  The check compares O with P and C with
 * Q line by line; the probes (p_*.c) print the object graph of the copy for
 * the layer-(ii) model.  Built with ASan+UBSan; after every case LeakSanitizer
 * and the number of open file descriptors are consulted.
 *
 * stdin grammar (tokens separated by blanks, binary data in hex, "-" = empty):
 *   CASE <n> <kind> <args..> | <slot> <op> <args..> | COPY | DROP <slot> | END
 */
#include "config.h"
#include "sqfs/predef.h"
#include "sqfs/compressor.h"
#include "sqfs/id_table.h"
#include "sqfs/frag_table.h"
#include "sqfs/xattr_writer.h"
#include "sqfs/xattr_reader.h"
#include "sqfs/meta_reader.h"
#include "sqfs/dir_reader.h"
#include "sqfs/data_reader.h"
#include "sqfs/xattr.h"
#include "sqfs/inode.h"
#include "sqfs/super.h"
#include "sqfs/error.h"
#include "sqfs/block.h"
#include "sqfs/dir.h"
#include "sqfs/io.h"
#include "probe.h"

#include <sanitizer/lsan_interface.h>
#include <dirent.h>
#include <stdlib.h>
#include <string.h>
#include <stdio.h>
#include <ctype.h>

/* ------------------------------------------------------------------ util */
static void die(const char *msg)
{
	printf("HARNESS-ERROR %s\n", msg);
	fflush(stdout);
	exit(3);
}

static int hv(int c) { return c <= '9' ? c - '0' : (c | 32) - 'a' + 10; }

static sqfs_u8 *unhex(const char *s, size_t *len)
{
	size_t n = strcmp(s, "-") == 0 ? 0 : strlen(s) / 2, i;
	sqfs_u8 *b = malloc(n + 1);
	for (i = 0; i < n; ++i)
		b[i] = (sqfs_u8)(hv(s[2 * i]) * 16 + hv(s[2 * i + 1]));
	*len = n;
	return b;
}

static void phex(const void *p, size_t n)
{
	const sqfs_u8 *b = p;
	size_t i;
	if (n == 0) { fputs("-", stdout); return; }
	for (i = 0; i < n; ++i)
		printf("%02x", b[i]);
}

/* long outputs: length + FNV-1a 64 + first bytes */
static void pdigest(const void *p, size_t n)
{
	const sqfs_u8 *b = p;
	sqfs_u64 h = 0xcbf29ce484222325ULL;
	size_t i;
	for (i = 0; i < n; ++i) { h ^= b[i]; h *= 0x100000001b3ULL; }
	printf("len=%zu fnv=%016llx head=", n, (unsigned long long)h);
	phex(p, n < 16 ? n : 16);
}

static int count_fds(void)
{
	DIR *d = opendir("/proc/self/fd");
	struct dirent *e;
	int n = 0;
	if (d == NULL) return -1;
	while ((e = readdir(d)) != NULL)
		if (isdigit((unsigned char)e->d_name[0]))
			++n;
	closedir(d);
	return n;
}

/* ---------------------------------------------------- in-memory sqfs_file_t */
typedef struct {
	sqfs_file_t base;
	sqfs_u8 *data;
	size_t size, cap;
} memfile_t;

static void mf_destroy(sqfs_object_t *o)
{
	memfile_t *m = (memfile_t *)o;
	free(m->data);
	free(m);
}

static int mf_read_at(sqfs_file_t *f, sqfs_u64 off, void *buf, size_t size)
{
	memfile_t *m = (memfile_t *)f;
	if (off > m->size || size > m->size - off)
		return SQFS_ERROR_OUT_OF_BOUNDS;
	memcpy(buf, m->data + off, size);
	return 0;
}

static int mf_write_at(sqfs_file_t *f, sqfs_u64 off, const void *buf, size_t size)
{
	memfile_t *m = (memfile_t *)f;
	if (off + size > m->cap) {
		size_t nc = (off + size) * 2 + 64;
		m->data = realloc(m->data, nc);
		memset(m->data + m->cap, 0, nc - m->cap);
		m->cap = nc;
	}
	memcpy(m->data + off, buf, size);
	if (off + size > m->size)
		m->size = off + size;
	return 0;
}

static sqfs_u64 mf_get_size(const sqfs_file_t *f) { return ((const memfile_t *)f)->size; }

static int mf_truncate(sqfs_file_t *f, sqfs_u64 size)
{
	memfile_t *m = (memfile_t *)f;
	if (size > m->size) {
		sqfs_u8 z = 0;
		mf_write_at(f, size - 1, &z, 1);
	}
	m->size = size;
	return 0;
}

static const char *mf_get_filename(sqfs_file_t *f) { (void)f; return "memfile"; }

static sqfs_file_t *memfile_create(void)
{
	memfile_t *m = calloc(1, sizeof(*m));
	sqfs_object_init(m, mf_destroy, NULL);
	m->base.read_at = mf_read_at;
	m->base.write_at = mf_write_at;
	m->base.get_size = mf_get_size;
	m->base.truncate = mf_truncate;
	m->base.get_filename = mf_get_filename;
	return (sqfs_file_t *)m;
}

/* ------------------------------------------------------------ environment */
enum { K_IDTBL, K_FRAGTBL, K_XWR, K_COMP, K_FILE, K_META, K_DIR, K_DATA, K_XRD };
static const char *kind_names[] = { "idtbl", "fragtbl", "xwr", "comp", "file", "meta", "dir", "data", "xrd", NULL };

typedef struct {
	sqfs_file_t *file;          /* image (read only) or NULL */
	sqfs_compressor_t *cmp;     /* uncompressor of the image, or a gzip compressor for writers */
	sqfs_compressor_t *auxcmp;  /* comp kind, uncompress mode: compressor producing the inputs */
	sqfs_dir_reader_t *aux;     /* path -> inode lookups for the data reader ops */
	sqfs_super_t super;
	int have_image;
	/* after RELENV (the creator dropped its own references): where file and compressor were, to
	 * read their counts for as long as one of the objects under test keeps them alive */
	sqfs_file_t *file_peek;
	sqfs_compressor_t *cmp_peek;
	int released;
} env_t;

typedef struct {
	void *obj;
	int live;
	sqfs_inode_generic_t *ino;
	sqfs_dir_reader_state_t dstate;
	sqfs_xattr_id_t desc;
	sqfs_xattr_entry_t key;
	sqfs_istream_t *strm;
	/* a failed seek/read leaves a meta reader with offset > data_used (the failed seek has already
	 * replaced data_used, not offset): the next sequential read then copies size_t-wrapped amounts.
	 * That is the meta reader's own defect (DESIGN F02 family), present in original and copy alike;
	 * sequential reads are skipped until the next successful seek so that it cannot abort the run */
	int stale;
} slot_t;

static env_t env[3];
static slot_t slot[4];
static int kind = -1;
static int comp_id;
static char comp_args[256];
static char file_path[4096];
static int file_ro;
static int meta_which;
static sqfs_u32 dir_flags;

static int slot_of(const char *s)
{
	switch (s[0]) {
	case 'O': return 0; case 'C': return 1; case 'P': return 2; case 'Q': return 3;
	}
	die("bad slot");
	return 0;
}
static env_t *env_of(int s) { return &env[s == 0 || s == 1 ? 0 : s - 1]; }

static void env_open_image(env_t *e, const char *path)
{
	sqfs_compressor_config_t cfg;
	int ret;

	ret = sqfs_file_open(&e->file, path, SQFS_FILE_OPEN_READ_ONLY);
	if (ret) die("cannot open image");
	ret = sqfs_super_read(&e->super, e->file);
	if (ret) die("cannot read super block");
	sqfs_compressor_config_init(&cfg, e->super.compression_id, e->super.block_size,
				    SQFS_COMP_FLAG_UNCOMPRESS);
	ret = sqfs_compressor_create(&cfg, &e->cmp);
	if (ret) die("cannot create image compressor");
	e->have_image = 1;
}

static void env_writer(env_t *e)
{
	sqfs_compressor_config_t cfg;
	sqfs_compressor_config_init(&cfg, SQFS_COMP_GZIP, 4096, 0);
	if (sqfs_compressor_create(&cfg, &e->cmp)) die("cannot create gzip compressor");
	sqfs_super_init(&e->super, 4096, 0, SQFS_COMP_GZIP);
}

static void env_aux(env_t *e)
{
	e->aux = sqfs_dir_reader_create(&e->super, e->cmp, e->file, 0);
	if (e->aux == NULL) die("aux dir reader");
}

static void env_close(env_t *e)
{
	sqfs_drop(e->aux);
	sqfs_drop(e->auxcmp);
	sqfs_drop(e->cmp);
	sqfs_drop(e->file);
	memset(e, 0, sizeof(*e));
}

static sqfs_inode_generic_t *lookup(env_t *e, const char *path)
{
	sqfs_inode_generic_t *ino = NULL;
	sqfs_u64 ref;
	if (sqfs_dir_reader_resolve_path(e->aux, path, NULL, &ref))
		return NULL;
	if (sqfs_dir_reader_get_inode(e->aux, ref, &ino))
		return NULL;
	return ino;
}

static sqfs_inode_generic_t *ino_dup(const sqfs_inode_generic_t *i)
{
	size_t sz;
	sqfs_inode_generic_t *n;
	if (i == NULL) return NULL;
	sz = sizeof(*i) + i->payload_bytes_available;
	n = malloc(sz);
	memcpy(n, i, sz);
	return n;
}

/* ------------------------------------------------------- object creation */
static int parse_comp_cfg(const char *args, sqfs_compressor_config_t *cfg)
{
	unsigned id, flags, level, bs, a, b, c, d;
	if (sscanf(args, "%u %u %u %u %u %u %u %u", &id, &flags, &level, &bs, &a, &b, &c, &d) != 8)
		die("comp args");
	memset(cfg, 0, sizeof(*cfg));
	cfg->id = id; cfg->flags = flags; cfg->level = level; cfg->block_size = bs;
	switch (id) {
	case SQFS_COMP_GZIP: cfg->opt.gzip.window_size = a; break;
	case SQFS_COMP_XZ:
		cfg->opt.xz.dict_size = a; cfg->opt.xz.lc = b; cfg->opt.xz.lp = c; cfg->opt.xz.pb = d; break;
	case SQFS_COMP_LZMA:
		cfg->opt.lzma.dict_size = a; cfg->opt.lzma.lc = b; cfg->opt.lzma.lp = c; cfg->opt.lzma.pb = d; break;
	default: break;
	}
	return id;
}

static void *create_obj(env_t *e)
{
	switch (kind) {
	case K_IDTBL: return sqfs_id_table_create(0);
	case K_FRAGTBL: return sqfs_frag_table_create(0);
	case K_XWR: return sqfs_xattr_writer_create(0);
	case K_COMP: {
		sqfs_compressor_config_t cfg;
		sqfs_compressor_t *c = NULL;
		comp_id = parse_comp_cfg(comp_args, &cfg);
		if (sqfs_compressor_create(&cfg, &c)) return NULL;
		if (cfg.flags & SQFS_COMP_FLAG_UNCOMPRESS) {
			cfg.flags &= ~SQFS_COMP_FLAG_UNCOMPRESS;
			if (sqfs_compressor_create(&cfg, &e->auxcmp)) die("aux compressor");
		}
		return c;
	}
	case K_FILE: {
		sqfs_file_t *f = NULL;
		if (sqfs_file_open(&f, file_path, file_ro ? SQFS_FILE_OPEN_READ_ONLY : SQFS_FILE_OPEN_OVERWRITE))
			return NULL;
		return f;
	}
	case K_META: {
		sqfs_u64 start, limit;
		if (meta_which == 0) {
			start = e->super.inode_table_start;
			limit = e->super.directory_table_start;
		} else {
			start = e->super.directory_table_start;
			limit = e->super.id_table_start;
			if (e->super.fragment_table_start < limit) limit = e->super.fragment_table_start;
			if (e->super.export_table_start < limit) limit = e->super.export_table_start;
		}
		return sqfs_meta_reader_create(e->file, e->cmp, start, limit);
	}
	case K_DIR: return sqfs_dir_reader_create(&e->super, e->cmp, e->file, dir_flags);
	case K_DATA: return sqfs_data_reader_create(e->file, e->super.block_size, e->cmp, 0);
	case K_XRD: return sqfs_xattr_reader_create(0);
	}
	return NULL;
}

static void slot_clear_regs(slot_t *s)
{
	if (s->strm != NULL) s->strm = sqfs_drop(s->strm);
	sqfs_free(s->ino);
	s->ino = NULL;
}

/* ----------------------------------------------------------------- probes */
static void do_probe(const void *o, const void *c)
{
	switch (kind) {
	case K_IDTBL: probe_id_table(o, c, stdout); break;
	case K_FRAGTBL: probe_frag_table(o, c, stdout); break;
	case K_XWR: probe_xattr_writer(o, c, stdout); break;
	case K_COMP:
		switch (comp_id) {
		case SQFS_COMP_GZIP: probe_gzip(o, c, stdout); break;
		case SQFS_COMP_ZSTD: probe_zstd(o, c, stdout); break;
		case SQFS_COMP_XZ: probe_xz(o, c, stdout); break;
		case SQFS_COMP_LZ4: probe_lz4(o, c, stdout); break;
		case SQFS_COMP_LZMA: probe_lzma(o, c, stdout); break;
		default: fputs("?", stdout);
		}
		break;
	case K_FILE: probe_file(o, c, stdout); break;
	case K_META: probe_meta_reader(o, c, stdout); break;
	case K_DIR: probe_dir_reader(o, c, stdout); break;
	case K_DATA: probe_data_reader(o, c, stdout); break;
	case K_XRD: probe_xattr_reader(o, c, stdout); break;
	}
}

static void do_shape(const void *o)
{
	switch (kind) {
	case K_IDTBL: shape_id_table(o, stdout); break;
	case K_FRAGTBL: shape_frag_table(o, stdout); break;
	case K_XWR: shape_xattr_writer(o, stdout); break;
	case K_META: shape_meta_reader(o, stdout); break;
	case K_DIR: shape_dir_reader(o, stdout); break;
	case K_DATA: shape_data_reader(o, stdout); break;
	case K_XRD: shape_xattr_reader(o, stdout); break;
	default: printf("rc=%zu", ((const sqfs_object_t *)o)->refcount); break;
	}
}

static size_t env_rc(int which)
{
	env_t *e = &env[0];
	const void *p = which ? (const void *)e->cmp : (const void *)e->file;
	if (e->released) {
		/* the objects under test hold the LAST references: file and compressor are alive exactly
		 * as long as one of the two is (kinds meta and dir: no streams involved) */
		if (!slot[0].live && !slot[1].live)
			return 0;
		p = which ? (const void *)e->cmp_peek : (const void *)e->file_peek;
	}
	return p ? ((const sqfs_object_t *)p)->refcount : 0;
}

static void print_rc(void)
{
	printf("RC file=%zu cmp=%zu\n", env_rc(0), env_rc(1));
}

/* -------------------------------------------------------------------- ops */
static void print_inode(const sqfs_inode_generic_t *i)
{
	printf("type=%u mode=%o uid=%u gid=%u inum=%u used=%u", i->base.type, i->base.mode,
	       i->base.uid_idx, i->base.gid_idx, i->base.inode_number, i->payload_bytes_used);
}

static void op_table_write(int is_id, void *obj, env_t *e)
{
	sqfs_file_t *mf = memfile_create();
	sqfs_super_t super = e->super;
	int ret;
	if (is_id) {
		ret = sqfs_id_table_write(obj, mf, &super, e->cmp);
		printf("ret=%d count=%u start=%llu ", ret, super.id_count, (unsigned long long)super.id_table_start);
	} else {
		ret = sqfs_frag_table_write(obj, mf, &super, e->cmp);
		printf("ret=%d count=%u start=%llu flags=%x ", ret, super.fragment_entry_count,
		       (unsigned long long)super.fragment_table_start, super.flags);
	}
	pdigest(((memfile_t *)mf)->data, ((memfile_t *)mf)->size);
	sqfs_drop(mf);
}

static void run_op(int si, char **tok, int nt)
{
	slot_t *s = &slot[si];
	env_t *e = env_of(si);
	const char *op = tok[1];
	void *obj = s->obj;

	if (kind == K_DATA && !strcmp(op, "sget") && nt >= 3) {
		const sqfs_u8 *p = NULL; size_t sz = 0, adv = strtoul(tok[2], NULL, 10);
		int ret;
		if (s->strm == NULL) { printf("nostream"); return; }
		ret = s->strm->get_buffered_data(s->strm, &p, &sz, adv);
		printf("ret=%d ", ret);
		if (ret == 0) {
			pdigest(p, sz);
			s->strm->advance_buffer(s->strm, adv);
		}
		return;
	}
	if (kind == K_DATA && !strcmp(op, "sclose")) {
		if (s->strm != NULL) s->strm = sqfs_drop(s->strm);
		if (s->live) printf("rc=%zu", ((sqfs_object_t *)obj)->refcount); else printf("closed");
		return;
	}
	if (!s->live) { printf("dead"); return; }

	switch (kind) {
	case K_IDTBL:
		if (!strcmp(op, "i2x") && nt >= 3) {
			sqfs_u16 idx = 0xFFFF;
			int ret = sqfs_id_table_id_to_index(obj, strtoul(tok[2], NULL, 10), &idx);
			printf("ret=%d idx=%u", ret, idx);
		} else if (!strcmp(op, "x2i") && nt >= 3) {
			sqfs_u32 id = 0xFFFFFFFF;
			int ret = sqfs_id_table_index_to_id(obj, strtoul(tok[2], NULL, 10), &id);
			printf("ret=%d id=%u", ret, id);
		} else if (!strcmp(op, "wr")) {
			op_table_write(1, obj, e);
		} else if (!strcmp(op, "load")) {
			printf("ret=%d", e->have_image ? sqfs_id_table_read(obj, e->file, &e->super, e->cmp) : -99);
		} else die("idtbl op");
		break;
	case K_FRAGTBL:
		if (!strcmp(op, "app") && nt >= 4) {
			sqfs_u32 idx = 0xFFFFFFFF;
			int ret = sqfs_frag_table_append(obj, strtoull(tok[2], NULL, 10), strtoul(tok[3], NULL, 10), &idx);
			printf("ret=%d idx=%u", ret, idx);
		} else if (!strcmp(op, "set") && nt >= 5) {
			printf("ret=%d", sqfs_frag_table_set(obj, strtoul(tok[2], NULL, 10),
							    strtoull(tok[3], NULL, 10), strtoul(tok[4], NULL, 10)));
		} else if (!strcmp(op, "get") && nt >= 3) {
			sqfs_fragment_t fr;
			int ret;
			memset(&fr, 0xEE, sizeof(fr));
			ret = sqfs_frag_table_lookup(obj, strtoul(tok[2], NULL, 10), &fr);
			if (ret) printf("ret=%d", ret);
			else printf("ret=0 start=%llu size=%u pad=%u", (unsigned long long)fr.start_offset, fr.size, fr.pad0);
		} else if (!strcmp(op, "size")) {
			printf("n=%zu", sqfs_frag_table_get_size(obj));
		} else if (!strcmp(op, "wr")) {
			op_table_write(0, obj, e);
		} else if (!strcmp(op, "load")) {
			printf("ret=%d", e->have_image ? sqfs_frag_table_read(obj, e->file, &e->super, e->cmp) : -99);
		} else die("fragtbl op");
		break;
	case K_XWR:
		if (!strcmp(op, "begin")) {
			printf("ret=%d", sqfs_xattr_writer_begin(obj, 0));
		} else if (!strcmp(op, "add") && nt >= 4) {
			size_t klen, vlen;
			sqfs_u8 *k = unhex(tok[2], &klen), *v = unhex(tok[3], &vlen);
			k[klen] = 0;
			printf("ret=%d", sqfs_xattr_writer_add_kv(obj, (const char *)k, v, vlen));
			free(k); free(v);
		} else if (!strcmp(op, "end")) {
			sqfs_u32 idx = 0xEEEEEEEE;
			int ret = sqfs_xattr_writer_end(obj, &idx);
			printf("ret=%d idx=%u", ret, idx);
		} else if (!strcmp(op, "flush")) {
			sqfs_file_t *mf = memfile_create();
			sqfs_super_t super = e->super;
			sqfs_u8 z[96] = { 0 };
			int ret;
			mf_write_at(mf, 0, z, sizeof(z));
			ret = sqfs_xattr_writer_flush(obj, mf, &super, e->cmp);
			printf("ret=%d start=%llu flags=%x ", ret, (unsigned long long)super.xattr_id_table_start, super.flags);
			pdigest(((memfile_t *)mf)->data, ((memfile_t *)mf)->size);
			sqfs_drop(mf);
		} else die("xwr op");
		break;
	case K_COMP: {
		sqfs_compressor_t *c = obj;
		if (!strcmp(op, "blk") && nt >= 4) {
			size_t len, outsz = strtoul(tok[3], NULL, 10);
			sqfs_u8 *in = unhex(tok[2], &len), *out = malloc(outsz + 1);
			sqfs_s32 ret = c->do_block(c, in, len, out, outsz);
			printf("ret=%d ", ret);
			if (ret > 0) pdigest(out, ret); else fputs("-", stdout);
			free(in); free(out);
		} else if (!strcmp(op, "ublk") && nt >= 4) {
			size_t len, outsz = strtoul(tok[3], NULL, 10);
			sqfs_u8 *plain = unhex(tok[2], &len), *tmp = malloc(len + 1), *out = malloc(outsz + 1);
			sqfs_s32 r0 = e->auxcmp ? e->auxcmp->do_block(e->auxcmp, plain, len, tmp, len) : 0, ret;
			if (r0 > 0)
				ret = c->do_block(c, tmp, r0, out, outsz);
			else
				ret = c->do_block(c, plain, len, out, outsz);
			printf("packed=%d ret=%d ", r0, ret);
			if (ret > 0) pdigest(out, ret); else fputs("-", stdout);
			free(plain); free(tmp); free(out);
		} else if (!strcmp(op, "cfg")) {
			sqfs_compressor_config_t cfg;
			c->get_configuration(c, &cfg);
			printf("id=%u flags=%x bs=%u level=%u opt=", cfg.id, cfg.flags, cfg.block_size, cfg.level);
			phex(&cfg.opt, sizeof(cfg.opt));
		} else if (!strcmp(op, "wopt")) {
			sqfs_file_t *mf = memfile_create();
			int ret = c->write_options(c, mf);
			printf("ret=%d ", ret);
			if (((memfile_t *)mf)->size > sizeof(sqfs_super_t))
				phex(((memfile_t *)mf)->data + sizeof(sqfs_super_t), ((memfile_t *)mf)->size - sizeof(sqfs_super_t));
			else fputs("-", stdout);
			sqfs_drop(mf);
		} else if (!strcmp(op, "ropt") && nt >= 3) {
			sqfs_file_t *mf = memfile_create();
			sqfs_u8 z[sizeof(sqfs_super_t)] = { 0 };
			size_t len;
			sqfs_u8 *b = unhex(tok[2], &len);
			mf_write_at(mf, 0, z, sizeof(z));
			mf_write_at(mf, sizeof(z), b, len);
			printf("ret=%d", c->read_options(c, mf));
			free(b);
			sqfs_drop(mf);
		} else die("comp op");
		break;
	}
	case K_FILE: {
		sqfs_file_t *f = obj;
		if (!strcmp(op, "rd") && nt >= 4) {
			size_t sz = strtoul(tok[3], NULL, 10);
			sqfs_u8 *b = calloc(1, sz + 1);
			int ret = f->read_at(f, strtoull(tok[2], NULL, 10), b, sz);
			printf("ret=%d ", ret);
			if (ret == 0) pdigest(b, sz); else fputs("-", stdout);
			free(b);
		} else if (!strcmp(op, "size")) {
			printf("size=%llu", (unsigned long long)f->get_size(f));
		} else if (!strcmp(op, "name")) {
			printf("name=%s", f->get_filename(f));
		} else if (!strcmp(op, "wr") && nt >= 4) {
			size_t len;
			sqfs_u8 *b = unhex(tok[3], &len);
			printf("ret=%d", f->write_at(f, strtoull(tok[2], NULL, 10), b, len));
			free(b);
		} else die("file op");
		break;
	}
	case K_META:
		if (!strcmp(op, "seek") && nt >= 4) {
			int ret = sqfs_meta_reader_seek(obj, strtoull(tok[2], NULL, 10), strtoul(tok[3], NULL, 10));
			s->stale = ret != 0;
			printf("ret=%d", ret);
		} else if (!strcmp(op, "rd") && nt >= 3) {
			size_t sz = strtoul(tok[2], NULL, 10);
			sqfs_u8 *b;
			int ret;
			if (s->stale) { printf("skipped"); break; }
			b = calloc(1, sz + 1);
			ret = sqfs_meta_reader_read(obj, b, sz);
			s->stale = ret != 0;
			printf("ret=%d ", ret);
			if (ret == 0) pdigest(b, sz); else fputs("-", stdout);
			free(b);
		} else if (!strcmp(op, "pos")) {
			sqfs_u64 blk; size_t off;
			sqfs_meta_reader_get_position(obj, &blk, &off);
			printf("blk=%llu off=%zu", (unsigned long long)blk, off);
		} else die("meta op");
		break;
	case K_DIR:
		if (!strcmp(op, "root")) {
			sqfs_inode_generic_t *i = NULL;
			int ret = sqfs_dir_reader_get_root_inode(obj, &i);
			printf("ret=%d ", ret);
			if (ret == 0) { sqfs_free(s->ino); s->ino = i; print_inode(i); }
		} else if (!strcmp(op, "open") && nt >= 3) {
			if (s->ino == NULL) { printf("noinode"); break; }
			printf("ret=%d state=%u", sqfs_dir_reader_open_dir(obj, s->ino, &s->dstate, strtoul(tok[2], NULL, 10)),
			       s->dstate.state);
		} else if (!strcmp(op, "read")) {
			sqfs_dir_node_t *ent = NULL;
			int ret = sqfs_dir_reader_read(obj, &s->dstate, &ent);
			printf("ret=%d ", ret);
			if (ret == 0) {
				printf("type=%u ref=%llu name=", ent->type, (unsigned long long)s->dstate.ent_ref);
				phex(ent->name, ent->size + 1);
				sqfs_free(ent);
			}
		} else if (!strcmp(op, "get")) {
			sqfs_inode_generic_t *i = NULL;
			int ret = sqfs_dir_reader_get_inode(obj, s->dstate.ent_ref, &i);
			printf("ret=%d ", ret);
			if (ret == 0) { sqfs_free(s->ino); s->ino = i; print_inode(i); }
		} else if (!strcmp(op, "geti") && nt >= 3) {
			sqfs_inode_generic_t *i = NULL;
			int ret = sqfs_dir_reader_get_inode(obj, strtoull(tok[2], NULL, 10), &i);
			printf("ret=%d ", ret);
			if (ret == 0) { sqfs_free(s->ino); s->ino = i; print_inode(i); }
		} else if (!strcmp(op, "inum") && nt >= 3) {
			sqfs_u64 ref = 77;
			int ret = sqfs_dir_reader_resolve_inum(obj, strtoul(tok[2], NULL, 10), &ref);
			printf("ret=%d ref=%llu", ret, (unsigned long long)ref);
		} else if (!strcmp(op, "path") && nt >= 3) {
			sqfs_u64 ref = 77;
			size_t len;
			sqfs_u8 *p = unhex(tok[2], &len);
			int ret;
			p[len] = 0;
			ret = sqfs_dir_reader_resolve_path(obj, (const char *)p, NULL, &ref);
			printf("ret=%d ref=%llu", ret, (unsigned long long)(ret ? 0 : ref));
			if (ret == 0) {
				sqfs_inode_generic_t *i = NULL;
				ret = sqfs_dir_reader_get_inode(obj, ref, &i);
				printf(" get=%d ", ret);
				if (ret == 0) { sqfs_free(s->ino); s->ino = i; print_inode(i); }
			}
			free(p);
		} else die("dir op");
		break;
	case K_DATA: {
		int is_file = s->ino != NULL && (s->ino->base.type == SQFS_INODE_FILE ||
						 s->ino->base.type == SQFS_INODE_EXT_FILE);
		if (!strcmp(op, "loadfrag")) {
			printf("ret=%d", sqfs_data_reader_load_fragment_table(obj, &e->super));
		} else if (!strcmp(op, "ino") && nt >= 3) {
			size_t len;
			sqfs_u8 *p = unhex(tok[2], &len);
			p[len] = 0;
			sqfs_free(s->ino);
			s->ino = lookup(e, (const char *)p);
			if (s->ino == NULL) printf("noent"); else print_inode(s->ino);
			free(p);
		} else if (!is_file) {
			printf("nofile");
		} else if (!strcmp(op, "read") && nt >= 4) {
			size_t sz = strtoul(tok[3], NULL, 10);
			sqfs_u8 *b = calloc(1, sz + 1);
			sqfs_s32 ret = sqfs_data_reader_read(obj, s->ino, strtoull(tok[2], NULL, 10), b, sz);
			printf("ret=%d ", ret);
			if (ret > 0) pdigest(b, ret); else fputs("-", stdout);
			free(b);
		} else if (!strcmp(op, "blk") && nt >= 3) {
			size_t sz = 0; sqfs_u8 *out = NULL;
			int ret = sqfs_data_reader_get_block(obj, s->ino, strtoul(tok[2], NULL, 10), &sz, &out);
			printf("ret=%d ", ret);
			if (ret == 0) pdigest(out, sz); else fputs("-", stdout);
			sqfs_free(out);
		} else if (!strcmp(op, "frag")) {
			size_t sz = 0; sqfs_u8 *out = NULL;
			int ret = sqfs_data_reader_get_fragment(obj, s->ino, &sz, &out);
			printf("ret=%d ", ret);
			if (ret == 0) pdigest(out, sz); else fputs("-", stdout);
			sqfs_free(out);
		} else if (!strcmp(op, "sopen")) {
			int ret;
			if (s->strm != NULL) s->strm = sqfs_drop(s->strm);
			ret = sqfs_data_reader_create_stream(obj, s->ino, "strm", &s->strm);
			printf("ret=%d rc=%zu", ret, ((sqfs_object_t *)obj)->refcount);
		} else die("data op");
		break;
	}
	case K_XRD:
		if (!strcmp(op, "load")) {
			printf("ret=%d", sqfs_xattr_reader_load(obj, &e->super, e->file, e->cmp));
		} else if (!strcmp(op, "desc") && nt >= 3) {
			int ret = sqfs_xattr_reader_get_desc(obj, strtoul(tok[2], NULL, 10), &s->desc);
			printf("ret=%d xattr=%llu count=%u size=%u", ret, (unsigned long long)s->desc.xattr, s->desc.count, s->desc.size);
		} else if (!strcmp(op, "seek")) {
			int ret = sqfs_xattr_reader_seek_kv(obj, &s->desc);
			s->stale = ret != 0;
			printf("ret=%d", ret);
		} else if (s->stale && (!strcmp(op, "rkey") || !strcmp(op, "rval") || !strcmp(op, "rkv"))) {
			printf("skipped");
		} else if (!strcmp(op, "rkey")) {
			sqfs_xattr_entry_t *k = NULL;
			int ret = sqfs_xattr_reader_read_key(obj, &k);
			s->stale = ret != 0;
			printf("ret=%d ", ret);
			if (ret == 0) {
				s->key = *k;
				printf("type=%u size=%u key=%s", k->type, k->size, (const char *)k->key);
				sqfs_free(k);
			}
		} else if (!strcmp(op, "rval")) {
			sqfs_xattr_value_t *v = NULL;
			int ret = sqfs_xattr_reader_read_value(obj, &s->key, &v);
			s->stale = ret != 0;
			printf("ret=%d ", ret);
			if (ret == 0) { pdigest(v->value, v->size); sqfs_free(v); }
		} else if (!strcmp(op, "rkv")) {
			sqfs_xattr_t *x = NULL;
			int ret = sqfs_xattr_reader_read(obj, &x);
			s->stale = ret != 0;
			printf("ret=%d ", ret);
			if (ret == 0) { printf("key=%s ", x->key); pdigest(x->value, x->value_len); sqfs_free(x); }
		} else if (!strcmp(op, "all") && nt >= 3) {
			sqfs_xattr_t *x = NULL, *it;
			int ret = sqfs_xattr_reader_read_all(obj, strtoul(tok[2], NULL, 10), &x);
			s->stale = ret != 0;
			printf("ret=%d", ret);
			if (ret == 0) {
				for (it = x; it != NULL; it = it->next) {
					printf(" %s=", it->key);
					phex(it->value, it->value_len);
				}
				sqfs_xattr_list_free(x);
			}
		} else die("xrd op");
		break;
	}
}

/* ------------------------------------------------------------------- main */
static void begin_case(char **tok, int nt)
{
	const char *image = NULL;
	int i;

	if (nt < 3) die("CASE syntax");
	for (kind = 0; kind_names[kind] != NULL; ++kind)
		if (!strcmp(kind_names[kind], tok[2]))
			break;
	if (kind_names[kind] == NULL) die("unknown kind");

	memset(env, 0, sizeof(env));
	memset(slot, 0, sizeof(slot));

	switch (kind) {
	case K_IDTBL: case K_FRAGTBL:
		if (nt >= 4 && strcmp(tok[3], "-") != 0) image = tok[3];
		break;
	case K_COMP: {
		int j; comp_args[0] = 0;
		for (j = 3; j < nt; ++j) { strcat(comp_args, tok[j]); strcat(comp_args, " "); }
		break;
	}
	case K_FILE:
		if (nt < 5) die("file args");
		snprintf(file_path, sizeof(file_path), "%s", tok[3]);
		file_ro = atoi(tok[4]);
		break;
	case K_META: if (nt < 5) die("meta args"); image = tok[3]; meta_which = atoi(tok[4]); break;
	case K_DIR: if (nt < 5) die("dir args"); image = tok[3]; dir_flags = strtoul(tok[4], NULL, 10); break;
	case K_DATA: case K_XRD: if (nt < 4) die("image arg"); image = tok[3]; break;
	default: break;
	}

	for (i = 0; i < 3; ++i) {
		if (image != NULL) env_open_image(&env[i], image);
		else if (kind == K_IDTBL || kind == K_FRAGTBL || kind == K_XWR) env_writer(&env[i]);
		if (kind == K_DATA) env_aux(&env[i]);
	}
	/* a writable file can only be opened once per path: twins get their own */
	for (i = 0; i < 4; ++i) {
		if (i == 1) continue;
		if (kind == K_FILE && !file_ro && i >= 2) {
			size_t l = strlen(file_path);
			snprintf(file_path + l, sizeof(file_path) - l, ".%d", i);
			slot[i].obj = create_obj(env_of(i));
			file_path[l] = 0;
		} else {
			slot[i].obj = create_obj(env_of(i));
		}
		slot[i].live = slot[i].obj != NULL;
	}
	printf("CASE %s %s created=%d%d%d\n", tok[1], tok[2], slot[0].live, slot[2].live, slot[3].live);
}

static void do_drop(int si)
{
	slot_t *s = &slot[si];
	if (!s->live) return;
	/* the stream holds a reference to the reader: released afterwards on purpose */
	s->obj = sqfs_drop(s->obj);
	s->live = 0;
}

int main(void)
{
	static char line[1 << 22];
	char *tok[16];
	int fds0 = 0, in_case = 0;

	setvbuf(stdout, NULL, _IOFBF, 1 << 16);
	while (fgets(line, sizeof(line), stdin)) {
		int nt = 0;
		char *p = strtok(line, " \t\r\n");
		while (p != NULL && nt < 16) { tok[nt++] = p; p = strtok(NULL, " \t\r\n"); }
		if (nt == 0) continue;

		if (!strcmp(tok[0], "CASE")) {
			fds0 = count_fds();
			begin_case(tok, nt);
			in_case = 1;
		} else if (!in_case) {
			die("op outside case");
		} else if (!strcmp(tok[0], "COPY")) {
			void *c;
			if (!slot[0].live) { printf("COPY dead\n"); continue; }
			printf("SHAPE ");
			do_shape(slot[0].obj);
			printf(" file=%zu cmp=%zu\n", env_rc(0), env_rc(1));
			fflush(stdout);
			c = sqfs_copy(slot[0].obj);
			if (c == NULL) {
				printf("COPY null\n");
			} else {
				slot[1].obj = c;
				slot[1].live = 1;
				slot[1].ino = ino_dup(slot[0].ino);
				slot[1].dstate = slot[0].dstate;
				slot[1].desc = slot[0].desc;
				slot[1].key = slot[0].key;
				slot[1].stale = slot[0].stale;
				slot[1].strm = NULL;
				printf("COPY ");
				do_probe(slot[0].obj, c);
				printf("\n");
			}
			print_rc();
		} else if (!strcmp(tok[0], "RELENV")) {
			/* the creator drops its own references to file and compressor: from here on the
			 * object under test (and its copy) hold the LAST ones, and the last sqfs_drop of
			 * the two runs the destroy hooks of file and compressor.  Only for kinds whose
			 * operations need neither the file nor the compressor from the harness. */
			env_t *e = &env[0];
			if (kind != K_META && kind != K_DIR) die("RELENV for this kind");
			if (!e->released) {
				e->file_peek = e->file; e->cmp_peek = e->cmp; e->released = 1;
				fflush(stdout);
				sqfs_drop(e->cmp); sqfs_drop(e->file);
				e->cmp = NULL; e->file = NULL;
			}
			printf("RELENV\n");
		} else if (!strcmp(tok[0], "DROP")) {
			int si = slot_of(tok[1]);
			fflush(stdout);
			do_drop(si);
			printf("DROP %s\n", tok[1]);
			if (si < 2) print_rc();
		} else if (!strcmp(tok[0], "END")) {
			int i, leak, fds1;
			fflush(stdout);
			for (i = 0; i < 4; ++i) {
				slot_clear_regs(&slot[i]);
				do_drop(i);
			}
			printf("FINAL ");
			print_rc();
			for (i = 0; i < 3; ++i)
				env_close(&env[i]);
			fflush(stdout);
			leak = __lsan_do_recoverable_leak_check();
			fds1 = count_fds();
			printf("END leak=%d fds=%d\n", leak != 0, fds1 - fds0);
			in_case = 0;
		} else {
			int si = slot_of(tok[0]);
			printf("%s %s : ", tok[0], tok[1]);
			fflush(stdout);
			run_op(si, tok, nt);
			printf("\n");
		}
		fflush(stdout);
	}
	return 0;
}
