/* C19 probe: lz4_compressor_t (flat: model fields [D]) */
#include "lib/sqfs/src/comp/lz4.c"
#include "probe.h"

void probe_lz4(const void *o, const void *c, FILE *f)
{
	pr_hdr(f, c);
	fputs(memcmp((const char *)o + sizeof(sqfs_object_t), (const char *)c + sizeof(sqfs_object_t),
		     sizeof(lz4_compressor_t) - sizeof(sqfs_object_t)) == 0 ? " D=" : " D!", f);
}
