/* C19 / Util tie: the key comparator the directory reader hands to rbtree_init
 * (static dcache_key_compare of lib/sqfs/src/dir_reader.c), exported for h_utilmodel.c:
 * the rbtree model is run with its transcription [cmp_u32], and the tie checks on the real
 * function the order hypotheses of rbtree_refines_map. */
#include "lib/sqfs/src/dir_reader.c"

int tie_dcache_cmp(const void *ctx, const void *l, const void *r)
{
	return dcache_key_compare(ctx, l, r);
}
