/* C19 probe: sqfs_xattr_writer_t
 * model fields:
 *   keys:   [Own bucket_ptrs.data; Own ht(+table); OwnL buckets; D next_index]
 *   values: [Own bucket_ptrs.data; Own ht(+table); OwnL buckets; D next_index]
 *   [Own kv_pairs.data; D kv_start,num_blocks; OwnL tree nodes; Int root;
 *    Int key_context; Int kv_block_first; Int kv_block_last]                  */
#include "lib/sqfs/src/xattr/xattr_writer.c"
#include "probe.h"
#include "p_tree.h"

static void strtab(const str_table_t *a, const str_table_t *b, FILE *f)
{
	size_t i, n = b->bucket_ptrs.used;
	str_bucket_t **ba = a->bucket_ptrs.data, **bb = b->bucket_ptrs.data;
	int alias = 0, same = 1, inner = 1, ainner = 1, nslots = 0;
	const char *t;

	/* the index -> bucket array: entries must point at buckets that are not the original's */
	if (a->bucket_ptrs.used != b->bucket_ptrs.used) t = "aX";
	else if (n == 0) t = (bb != NULL && (void *)bb == (void *)ba) ? "aA" : "aE";
	else t = ((void *)bb == (void *)ba) ? "aA" : "aF";
	if (a->bucket_ptrs.used == b->bucket_ptrs.used)
		for (i = 0; i < n; ++i)
			if (bb[i] == ba[i]) ainner = 0;
	fprintf(f, "%s%s ", t, n == 0 ? "/t-" : (ainner ? "/tC" : "/tA"));

	/* hash table object and its slot array: every slot must point at one of the copy's buckets */
	if (a->ht == NULL || b->ht == NULL) t = (a->ht == b->ht) ? "oN" : "oX";
	else if (a->ht == b->ht || a->ht->table == b->ht->table) t = "oA";
	else t = (a->ht->entries == b->ht->entries && a->ht->size == b->ht->size) ? "oF" : "oX";
	if (b->ht != NULL) {
		hash_table_foreach(b->ht, ent) {
			str_bucket_t *bk = ent->data;
			++nslots;
			if (bk == NULL || bk->index >= n || bb[bk->index] != bk ||
			    (bk->index < a->bucket_ptrs.used && ba[bk->index] == bk) ||
			    ent->key != (const void *)bk->string)
				inner = 0;
		}
	}
	fprintf(f, "%s%s ", t, nslots == 0 ? "/t-" : (inner ? "/tC" : "/tA"));

	/* the buckets */
	if (a->bucket_ptrs.used == b->bucket_ptrs.used) {
		for (i = 0; i < n; ++i) {
			if (bb[i] == ba[i]) { alias = 1; continue; }
			if (bb[i]->index != ba[i]->index || bb[i]->refcount != ba[i]->refcount ||
			    strcmp(bb[i]->string, ba[i]->string) != 0)
				same = 0;
		}
		fprintf(f, "l%zu%s", n, !same ? "X" : (alias ? "A" : "F"));
	} else {
		fprintf(f, "l%zuX", n);
	}

	fputs(a->next_index == b->next_index ? " D=" : " D!", f);
}

static const char *int_tok(const void *ov, const void *cv, int in_copy)
{
	if (cv == NULL) return ov == NULL ? "iN" : "i?";
	if (in_copy) return "iC";
	if (cv == ov) return "iA";
	return "i?";
}

void probe_xattr_writer(const void *o, const void *c, FILE *f)
{
	const sqfs_xattr_writer_t *a = o, *b = c;
	nodeset_t na = { 0 }, nb = { 0 };
	const kv_block_desc_t *ia, *ib;
	size_t i, sz, steps = 0;
	int alias = 0, content = 1, inner = 1, lst = 1, nptr = 0;

	pr_hdr(f, c);
	fputc(' ', f);
	strtab(&a->keys, &b->keys, f);
	fputc(' ', f);
	strtab(&a->values, &b->values, f);
	fprintf(f, " %s", arr_tok(a->kv_pairs.data, a->kv_pairs.used, a->kv_pairs.size,
				  b->kv_pairs.data, b->kv_pairs.used, b->kv_pairs.size));
	fputs(a->kv_start == b->kv_start && a->num_blocks == b->num_blocks &&
	      a->kv_block_tree.key_size == b->kv_block_tree.key_size &&
	      a->kv_block_tree.value_size == b->kv_block_tree.value_size &&
	      a->kv_block_tree.key_compare == b->kv_block_tree.key_compare ? " D= " : " D! ", f);

	ns_walk(&na, a->kv_block_tree.root, 0);
	ns_walk(&nb, b->kv_block_tree.root, 0);
	sz = b->kv_block_tree.key_size_padded + b->kv_block_tree.value_size;
	for (i = 0; i < nb.n; ++i) {
		const kv_block_desc_t *kb = (const void *)nb.v[i]->data;
		if (ns_has(&na, nb.v[i])) alias = 1;
		if (nb.v[i]->left != NULL) { ++nptr; if (!ns_has(&nb, nb.v[i]->left) || ns_has(&na, nb.v[i]->left)) inner = 0; }
		if (nb.v[i]->right != NULL) { ++nptr; if (!ns_has(&nb, nb.v[i]->right) || ns_has(&na, nb.v[i]->right)) inner = 0; }
		if (kb->next != NULL) { ++nptr; if (!ns_has_key(&nb, kb->next) || ns_has_key(&na, kb->next)) inner = 0; }
		if (i < na.n) {
			const kv_block_desc_t *ka = (const void *)na.v[i]->data;
			if (ka->start != kb->start || ka->count != kb->count ||
			    memcmp(na.v[i]->data + na.v[i]->value_offset,
				   nb.v[i]->data + nb.v[i]->value_offset,
				   b->kv_block_tree.value_size) != 0)
				content = 0;
		}
	}
	(void)sz;
	if (na.n != nb.n || !content)
		fprintf(f, "l%zuX", nb.n);
	else
		fprintf(f, "l%zu%s", nb.n, alias ? "A" : "F");
	fputs(nptr == 0 ? "/t-" : (inner ? "/tC" : "/tA"), f);

	fprintf(f, " %s", int_tok(a->kv_block_tree.root, b->kv_block_tree.root,
				  ns_has(&nb, b->kv_block_tree.root) && !ns_has(&na, b->kv_block_tree.root)));
	fprintf(f, " %s", int_tok(a->kv_block_tree.key_context, b->kv_block_tree.key_context,
				  b->kv_block_tree.key_context == (const void *)b));
	fprintf(f, " %s", int_tok(a->kv_block_first, b->kv_block_first,
				  ns_has_key(&nb, b->kv_block_first) && !ns_has_key(&na, b->kv_block_first)));
	fprintf(f, " %s", int_tok(a->kv_block_last, b->kv_block_last,
				  ns_has_key(&nb, b->kv_block_last) && !ns_has_key(&na, b->kv_block_last)));

	/* extra: the block list of the copy enumerates the same blocks in the same order */
	ia = a->kv_block_first;
	ib = b->kv_block_first;
	while (ia != NULL && ib != NULL && steps++ < 1000000) {
		if (ia->start != ib->start || ia->count != ib->count) lst = 0;
		ia = ia->next;
		ib = ib->next;
	}
	if (ia != NULL || ib != NULL) lst = 0;
	if (!lst) fputs(" X:blocklist", f);
	free(na.v);
	free(nb.v);
}

void shape_xattr_writer(const void *o, FILE *f)
{
	const sqfs_xattr_writer_t *a = o;
	nodeset_t na = { 0 };

	ns_walk(&na, a->kv_block_tree.root, 0);
	fprintf(f, "rc=%zu keys=%zu values=%zu pairs=%zu nodes=%zu", a->base.refcount,
		a->keys.bucket_ptrs.used, a->values.bucket_ptrs.used, a->kv_pairs.used, na.n);
	free(na.v);
}
