/* C19 probe: sqfs_meta_reader_t (model fields: [D; Ref file; Ref cmp]) */
#include "lib/sqfs/src/meta_reader.c"
#include "probe.h"

static int plain_eq(const sqfs_meta_reader_t *a, const sqfs_meta_reader_t *b)
{
	return a->start == b->start && a->limit == b->limit &&
		a->data_used == b->data_used && a->block_offset == b->block_offset &&
		a->next_block == b->next_block && a->offset == b->offset &&
		memcmp(a->data, b->data, sizeof(a->data)) == 0;
}

void sub_meta_reader(const void *o, const void *c, FILE *f)
{
	const sqfs_meta_reader_t *a = o, *b = c;
	pr_hdr(f, c);
	fputs(plain_eq(a, b) ? " D= " : " D! ", f);
	ref_tok(f, a->file, b->file);
	fputc(' ', f);
	ref_tok(f, a->cmp, b->cmp);
}

void probe_meta_reader(const void *o, const void *c, FILE *f)
{
	sub_meta_reader(o, c, f);
}

void meta_reader_refs(const void *o, const void **file, const void **cmp)
{
	const sqfs_meta_reader_t *a = o;
	*file = a->file;
	*cmp = a->cmp;
}

void shape_meta_reader(const void *o, FILE *f)
{
	const sqfs_meta_reader_t *a = o;
	fprintf(f, "rc=%zu", a->base.refcount);
}
