/* C19 probe: zstd_compressor_t (model fields: [Own zctx; D]) */
#include "lib/sqfs/src/comp/zstd.c"
#include "probe.h"

void probe_zstd(const void *o, const void *c, FILE *f)
{
	const zstd_compressor_t *a = o, *b = c;

	pr_hdr(f, c);
	fprintf(f, " %s", own_tok(a->zctx, b->zctx));
	fputs(a->block_size == b->block_size && a->level == b->level &&
	      a->base.do_block == b->base.do_block &&
	      a->base.get_configuration == b->base.get_configuration &&
	      a->base.write_options == b->base.write_options &&
	      a->base.read_options == b->base.read_options ? " D=" : " D!", f);
}
