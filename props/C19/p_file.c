/* C19 probe: sqfs_file_stdio_t (model fields: [Own fd; D]) */
#include "lib/sqfs/src/io/file.c"
#include "probe.h"
#include <fcntl.h>

void probe_file(const void *o, const void *c, FILE *f)
{
	const sqfs_file_stdio_t *a = o, *b = c;
	const char *t;

	pr_hdr(f, c);
	if (fcntl(b->fd, F_GETFD) < 0 || fcntl(a->fd, F_GETFD) < 0) t = "oX";
	else t = a->fd == b->fd ? "oA" : "oF";
	fprintf(f, " %s", t);
	fputs(a->readonly == b->readonly && a->size == b->size && strcmp(a->name, b->name) == 0 &&
	      memcmp(&a->base.read_at, &b->base.read_at,
		     sizeof(sqfs_file_t) - offsetof(sqfs_file_t, read_at)) == 0 ? " D=" : " D!", f);
}
