/* helpers to walk an rbtree_t and compare node sets */
#ifndef C19_P_TREE_H
#define C19_P_TREE_H
#include "util/rbtree.h"
#include <stdlib.h>

typedef struct { const rbtree_node_t **v; size_t n, cap; } nodeset_t;

static void ns_add(nodeset_t *s, const rbtree_node_t *n)
{
	if (s->n == s->cap) {
		s->cap = s->cap ? s->cap * 2 : 64;
		s->v = realloc(s->v, s->cap * sizeof(s->v[0]));
	}
	s->v[s->n++] = n;
}

/* in-order, bounded so that a corrupted tree cannot hang the probe */
static void ns_walk(nodeset_t *s, const rbtree_node_t *n, int depth)
{
	if (n == NULL || depth > 200 || s->n > 1000000)
		return;
	ns_walk(s, n->left, depth + 1);
	ns_add(s, n);
	ns_walk(s, n->right, depth + 1);
}

static int ns_has(const nodeset_t *s, const void *p)
{
	size_t i;
	for (i = 0; i < s->n; ++i)
		if ((const void *)s->v[i] == p)
			return 1;
	return 0;
}

/* is p the address of the key area of one of the nodes */
static int ns_has_key(const nodeset_t *s, const void *p)
{
	size_t i;
	for (i = 0; i < s->n; ++i)
		if ((const void *)s->v[i]->data == p)
			return 1;
	return 0;
}
#endif
