/* C11 component harness: drives fstree_init / fstree_add_generic / fstree_post_process of the
 * working tree with an explicit sequence of entries (any order) and dumps the result (h_dump.h).
 * stdin:
 *   CASE <id>
 *   DEF <uid> <gid> <mtime> <perm-oct>
 *   ADD <path> <type> <perm-oct> <uid> <gid> <mtime> <rdev> <hard> <extra hex | - | ~>
 *   POST
 *   END
 * stdout: "CASE id", "A <0|-1>" per ADD (after the first failure the case is dead, like the packer that
 * exits), "X add-failed", the dump, "END".
 */
#include "config.h"
#include "fstree.h"
#include "h_dump.h"
#include <errno.h>

static int hv(int c) { return c <= '9' ? c - '0' : c - 'a' + 10; }

static char *unhex(const char *s)
{
	size_t n = strlen(s), i, len = 0;
	char *out;

	if (!strcmp(s, "~"))
		return NULL;
	out = calloc(1, n / 2 + 2);
	if (strcmp(s, "-") != 0) {
		for (i = 0; i + 1 < n; i += 2)
			out[len++] = (char)(hv(s[i]) * 16 + hv(s[i + 1]));
	}
	out[len] = '\0';
	return out;
}

static unsigned int type_bits(char c)
{
	switch (c) {
	case 'f': return S_IFREG;
	case 'd': return S_IFDIR;
	case 'l': return S_IFLNK;
	case 'b': return S_IFBLK;
	case 'c': return S_IFCHR;
	case 'p': return S_IFIFO;
	case 's': return S_IFSOCK;
	}
	return 0;
}

int main(void)
{
	static char line[1 << 16];
	fstree_defaults_t def = { 0, 0, 0, S_IFDIR | 0755 };
	fstree_t fs;
	int have_fs = 0, dead = 0;

	while (fgets(line, sizeof(line), stdin)) {
		static char kw[16], a[9][16384];
		int n;

		n = sscanf(line, "%15s %16383s %16383s %16383s %16383s %16383s %16383s %16383s %16383s %16383s",
			   kw, a[0], a[1], a[2], a[3], a[4], a[5], a[6], a[7], a[8]);
		if (n < 1)
			continue;
		if (!strcmp(kw, "CASE")) {
			if (have_fs)
				fstree_cleanup(&fs);
			printf("CASE %s\n", a[0]);
			def.uid = 0; def.gid = 0; def.mtime = 0; def.mode = S_IFDIR | 0755;
			if (fstree_init(&fs, &def))
				return 2;
			have_fs = 1;
			dead = 0;
		} else if (!strcmp(kw, "DEF")) {
			def.uid = strtoul(a[0], NULL, 10);
			def.gid = strtoul(a[1], NULL, 10);
			def.mtime = strtoul(a[2], NULL, 10);
			def.mode = S_IFDIR | strtoul(a[3], NULL, 8);
			fstree_cleanup(&fs);
			if (fstree_init(&fs, &def))
				return 2;
		} else if (!strcmp(kw, "ADD")) {
			char *path, *extra;
			sqfs_dir_entry_t *ent;

			if (dead)
				continue;
			path = unhex(a[0]);
			extra = unhex(a[8]);
			ent = calloc(1, sizeof(*ent) + strlen(path) + 1);
			strcpy(ent->name, path);
			ent->mode = type_bits(a[1][0]) | strtoul(a[2], NULL, 8);
			ent->uid = strtoull(a[3], NULL, 10);
			ent->gid = strtoull(a[4], NULL, 10);
			ent->mtime = strtoll(a[5], NULL, 10);
			ent->rdev = strtoull(a[6], NULL, 10);
			if (a[7][0] == '1')
				ent->flags |= SQFS_DIR_ENTRY_FLAG_HARD_LINK;
			if (fstree_add_generic(&fs, ent, extra) == NULL) {
				puts("A -1");
				puts("X add-failed");
				dead = 1;
			} else {
				puts("A 0");
			}
			free(ent);
			free(path);
			free(extra);
		} else if (!strcmp(kw, "POST")) {
			if (!dead) {
				int ret = fstree_post_process(&fs);
				if (ret == 0)
					h_dump_fstree(stdout, &fs, ret);
				else
					puts("R -1");
			}
		} else if (!strcmp(kw, "END")) {
			puts("END");
			fflush(stdout);
		}
	}
	if (have_fs)
		fstree_cleanup(&fs);
	return 0;
}
