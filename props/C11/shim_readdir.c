/* C11 readdir shim (LD_PRELOAD).  Wraps the libc entry points dir_unix.c uses to enumerate a
 * directory (readdir / readdir64 on a DIR* obtained from opendir / fdopendir, closedir) and hands the
 * entries of every directory back in an order chosen by the test, not by the host file system:
 *
 *   RDSHIM_MODE = none | sorted | reverse | rot:<k> | rrot:<k> | seed:<n>
 *       none    pass-through order (still logged)
 *       sorted  ascending strcmp order of d_name
 *       reverse descending strcmp order
 *       rot:k   the ascending order rotated left by k (mod the number of entries, "." and ".." included):
 *               rot:1 hands out "." last, rot:2 hands out the real entries first and "." ".." at the end, ...
 *       rrot:k  the descending order rotated left by k
 *               (sorted + reverse give both relative orders of every pair of entries; the rotations put every
 *               entry in the first and in the last position and move "." / ".." through the listing)
 *       seed:n  Fisher-Yates shuffle of the strcmp-sorted entries with a PRNG seeded from n and a hash of
 *               the sorted names, i.e. a function of (n, directory contents) only
 *   RDSHIM_LOG  = file; appended: "D <hex path of the directory>" followed by one "E <hex name>" per entry
 *                 in the order in which they are handed to the caller ("." and ".." included).
 *
 *   RDSHIM_INOMAP = file with lines "<dev> <ino> <newdev> <newino>" (unsigned decimal, 64 bit): every stat result
 *                 (stat / lstat / fstat / fstatat / statx and their 64 / __x aliases) whose (st_dev, st_ino) is
 *                 listed is handed to the caller with (newdev, newino) instead; d_ino of a directory entry is
 *                 remapped with the device of the directory it was read from.  The test passes a bijection on
 *                 the objects of the packed tree (equal stays equal: hard links stay hard links, a mount point
 *                 stays one); everything not listed passes through.  Every remapping that was applied is
 *                 logged once to RDSHIM_LOG as "I <dev> <ino> <newdev> <newino>".
 *
 *   RDSHIM_STAT = comma separated key=value list (unsigned decimal): the other host-specific fields of a stat result that
 *                 are not content, replaced in every stat result of an object listed in RDSHIM_INOMAP (every object if no
 *                 map is given):
 *                   dsize=N   st_size of directories        nsize=N   st_size of fifos, sockets, device nodes
 *                   dnlink=N  st_nlink of directories       blocks=N  st_blocks      blksize=N  st_blksize
 *                   atime=N   st_atime (nsec N % 10^9)      ctime=N   st_ctime (likewise)
 *                   mtime=N   st_mtime, nsec 0 (content when times are kept: the test sets it only when they are not)
 *                   rdev=N    st_rdev of everything that is not a block / character device
 *                   dtype=0   d_type of every directory entry := DT_UNKNOWN (what many file systems report)
 *                 The first application is logged to RDSHIM_LOG as "S <the list>".
 *
 * The whole directory is slurped on the first readdir of a DIR*; an error of the real readdir is
 * delivered after the buffered entries with its errno.  Single-threaded use only (the scan is). */
#define _GNU_SOURCE
#include <dirent.h>
#include <dlfcn.h>
#include <errno.h>
#include <stdint.h>
#include <stdio.h>
#include <stdlib.h>
#include <string.h>
#include <fcntl.h>
#include <sys/stat.h>
#include <sys/sysmacros.h>
#include <sys/types.h>
#include <unistd.h>

struct dbuf {
	struct dbuf *next;
	DIR *dir;
	struct dirent **ents;
	size_t count, pos;
	int err;
};

static struct dbuf *bufs;
static struct dirent *(*real_readdir)(DIR *);
static int (*real_closedir)(DIR *);

static void init(void)
{
	if (real_readdir == NULL) {
		real_readdir = dlsym(RTLD_NEXT, "readdir");
		real_closedir = dlsym(RTLD_NEXT, "closedir");
	}
}

static int cmp_ent(const void *a, const void *b)
{
	const struct dirent *x = *(struct dirent *const *)a, *y = *(struct dirent *const *)b;
	return strcmp(x->d_name, y->d_name);
}

static uint64_t rng_state;
static uint64_t rng(void)
{
	/* splitmix64 */
	uint64_t z = (rng_state += 0x9E3779B97F4A7C15ULL);
	z = (z ^ (z >> 30)) * 0xBF58476D1CE4E5B9ULL;
	z = (z ^ (z >> 27)) * 0x94D049BB133111EBULL;
	return z ^ (z >> 31);
}

static void hexout(FILE *f, const char *s)
{
	if (*s == '\0')
		fputc('-', f);
	for (; *s; ++s)
		fprintf(f, "%02x", (unsigned char)*s);
}

/* ---------------------------------------------------------------------------------------------
 * inode / device number remapping
 * ------------------------------------------------------------------------------------------- */

struct imap {
	uint64_t dev, ino, ndev, nino;
	int logged;
};

static struct imap *imap;
static size_t imap_count;
static int imap_state;		/* 0 = not loaded, 1 = loaded (possibly empty), 2 = loading */

static int cmp_imap(const void *a, const void *b)
{
	const struct imap *x = a, *y = b;

	if (x->dev != y->dev)
		return x->dev < y->dev ? -1 : 1;
	return x->ino < y->ino ? -1 : (x->ino > y->ino ? 1 : 0);
}

static void imap_load(void)
{
	const char *path = getenv("RDSHIM_INOMAP");
	char line[256];
	size_t cap = 0;
	FILE *f;

	imap_state = 2;
	if (path != NULL && (f = fopen(path, "r")) != NULL) {
		while (fgets(line, sizeof(line), f) != NULL) {
			unsigned long long a, b, c, d;

			if (sscanf(line, "%llu %llu %llu %llu", &a, &b, &c, &d) != 4)
				continue;
			if (imap_count == cap) {
				cap = cap ? cap * 2 : 64;
				imap = realloc(imap, cap * sizeof(imap[0]));
				if (imap == NULL)
					abort();
			}
			imap[imap_count].dev = a;
			imap[imap_count].ino = b;
			imap[imap_count].ndev = c;
			imap[imap_count].nino = d;
			imap[imap_count].logged = 0;
			++imap_count;
		}
		fclose(f);
		qsort(imap, imap_count, sizeof(imap[0]), cmp_imap);
	}
	imap_state = 1;
}

/* returns 1 if the object is one of the packed tree (listed in the map, or there is no map) */
static int remap(uint64_t *dev, uint64_t *ino)
{
	struct imap key, *e;

	if (imap_state == 0)
		imap_load();
	if (imap_state != 1)
		return 0;
	if (imap_count == 0)
		return 1;
	key.dev = *dev;
	key.ino = *ino;
	e = bsearch(&key, imap, imap_count, sizeof(imap[0]), cmp_imap);
	if (e == NULL)
		return 0;
	if (!e->logged) {
		const char *path = getenv("RDSHIM_LOG");
		FILE *f = path ? fopen(path, "a") : NULL;

		e->logged = 1;
		if (f != NULL) {
			fprintf(f, "I %llu %llu %llu %llu\n", (unsigned long long)e->dev, (unsigned long long)e->ino,
				(unsigned long long)e->ndev, (unsigned long long)e->nino);
			fclose(f);
		}
	}
	*dev = e->ndev;
	*ino = e->nino;
	return 1;
}

/* ---------------------------------------------------------------------------------------------
 * the other host-specific stat fields
 * ------------------------------------------------------------------------------------------- */

enum { SS_DSIZE, SS_NSIZE, SS_DNLINK, SS_BLOCKS, SS_BLKSIZE, SS_ATIME, SS_CTIME, SS_MTIME, SS_RDEV, SS_DTYPE, SS_COUNT };
static const char *const ss_names[SS_COUNT] = { "dsize", "nsize", "dnlink", "blocks", "blksize", "atime", "ctime", "mtime",
						 "rdev", "dtype" };
static struct {
	int state;		/* 0 = not loaded, 1 = loaded */
	int any, logged;
	int have[SS_COUNT];
	uint64_t val[SS_COUNT];
} ss;

static void ss_load(void)
{
	const char *p = getenv("RDSHIM_STAT");
	int k;

	ss.state = 1;
	while (p != NULL && *p != '\0') {
		for (k = 0; k < SS_COUNT; ++k) {
			size_t n = strlen(ss_names[k]);

			if (!strncmp(p, ss_names[k], n) && p[n] == '=') {
				ss.have[k] = 1;
				ss.val[k] = strtoull(p + n + 1, NULL, 10);
				ss.any = 1;
				break;
			}
		}
		p = strchr(p, ',');
		if (p != NULL)
			++p;
	}
}

static void ss_log(void)
{
	const char *path = getenv("RDSHIM_LOG");
	FILE *f;

	if (ss.logged)
		return;
	ss.logged = 1;
	f = path ? fopen(path, "a") : NULL;
	if (f != NULL) {
		fprintf(f, "S %s\n", getenv("RDSHIM_STAT"));
		fclose(f);
	}
}

static int ss_active(void)
{
	if (ss.state == 0)
		ss_load();
	return ss.any;
}

static void ss_apply(struct stat *sb)
{
	int dev = S_ISBLK(sb->st_mode) || S_ISCHR(sb->st_mode);

	ss_log();
	if (S_ISDIR(sb->st_mode)) {
		if (ss.have[SS_DSIZE])
			sb->st_size = (off_t)ss.val[SS_DSIZE];
		if (ss.have[SS_DNLINK])
			sb->st_nlink = (nlink_t)ss.val[SS_DNLINK];
	} else if (!S_ISREG(sb->st_mode) && !S_ISLNK(sb->st_mode)) {
		if (ss.have[SS_NSIZE])
			sb->st_size = (off_t)ss.val[SS_NSIZE];
	}
	if (ss.have[SS_BLOCKS])
		sb->st_blocks = (blkcnt_t)ss.val[SS_BLOCKS];
	if (ss.have[SS_BLKSIZE])
		sb->st_blksize = (blksize_t)ss.val[SS_BLKSIZE];
	if (ss.have[SS_ATIME]) {
		sb->st_atim.tv_sec = (time_t)ss.val[SS_ATIME];
		sb->st_atim.tv_nsec = (long)(ss.val[SS_ATIME] % 1000000000ULL);
	}
	if (ss.have[SS_CTIME]) {
		sb->st_ctim.tv_sec = (time_t)ss.val[SS_CTIME];
		sb->st_ctim.tv_nsec = (long)(ss.val[SS_CTIME] % 1000000000ULL);
	}
	if (ss.have[SS_MTIME]) {
		sb->st_mtim.tv_sec = (time_t)ss.val[SS_MTIME];
		sb->st_mtim.tv_nsec = 0;
	}
	if (ss.have[SS_RDEV] && !dev)
		sb->st_rdev = (dev_t)ss.val[SS_RDEV];
}

static void ss_apply_statx(struct statx *sx)
{
	int dev = S_ISBLK(sx->stx_mode) || S_ISCHR(sx->stx_mode);

	ss_log();
	if (S_ISDIR(sx->stx_mode)) {
		if (ss.have[SS_DSIZE])
			sx->stx_size = ss.val[SS_DSIZE];
		if (ss.have[SS_DNLINK])
			sx->stx_nlink = (uint32_t)ss.val[SS_DNLINK];
	} else if (!S_ISREG(sx->stx_mode) && !S_ISLNK(sx->stx_mode)) {
		if (ss.have[SS_NSIZE])
			sx->stx_size = ss.val[SS_NSIZE];
	}
	if (ss.have[SS_BLOCKS])
		sx->stx_blocks = ss.val[SS_BLOCKS];
	if (ss.have[SS_BLKSIZE])
		sx->stx_blksize = (uint32_t)ss.val[SS_BLKSIZE];
	if (ss.have[SS_ATIME]) {
		sx->stx_atime.tv_sec = (int64_t)ss.val[SS_ATIME];
		sx->stx_atime.tv_nsec = (uint32_t)(ss.val[SS_ATIME] % 1000000000ULL);
	}
	if (ss.have[SS_CTIME]) {
		sx->stx_ctime.tv_sec = (int64_t)ss.val[SS_CTIME];
		sx->stx_ctime.tv_nsec = (uint32_t)(ss.val[SS_CTIME] % 1000000000ULL);
	}
	if (ss.have[SS_MTIME]) {
		sx->stx_mtime.tv_sec = (int64_t)ss.val[SS_MTIME];
		sx->stx_mtime.tv_nsec = 0;
	}
	if (ss.have[SS_RDEV] && !dev) {
		sx->stx_rdev_major = major(ss.val[SS_RDEV]);
		sx->stx_rdev_minor = minor(ss.val[SS_RDEV]);
	}
}

static void remap_stat(struct stat *sb)
{
	uint64_t d = sb->st_dev, i = sb->st_ino;
	int mine = remap(&d, &i);

	sb->st_dev = d;
	sb->st_ino = i;
	if (mine && ss_active())
		ss_apply(sb);
}

int fstatat(int dirfd, const char *path, struct stat *sb, int flags)
{
	static int (*real)(int, const char *, struct stat *, int);
	int ret, saved;

	if (real == NULL)
		real = dlsym(RTLD_NEXT, "fstatat");
	if (real == NULL) {
		errno = ENOSYS;
		return -1;
	}
	ret = real(dirfd, path, sb, flags);
	if (ret == 0) {
		saved = errno;
		remap_stat(sb);
		errno = saved;
	}
	return ret;
}

int fstat(int fd, struct stat *sb)
{
	static int (*real)(int, struct stat *);
	int ret, saved;

	if (real == NULL)
		real = dlsym(RTLD_NEXT, "fstat");
	if (real == NULL) {
		errno = ENOSYS;
		return -1;
	}
	ret = real(fd, sb);
	if (ret == 0) {
		saved = errno;
		remap_stat(sb);
		errno = saved;
	}
	return ret;
}

int stat(const char *path, struct stat *sb)
{
	return fstatat(AT_FDCWD, path, sb, 0);
}

int lstat(const char *path, struct stat *sb)
{
	return fstatat(AT_FDCWD, path, sb, AT_SYMLINK_NOFOLLOW);
}

/* struct stat and struct stat64 are the same type on the LP64 targets this runs on */
int fstatat64(int dirfd, const char *path, struct stat64 *sb, int flags)
{
	return fstatat(dirfd, path, (struct stat *)sb, flags);
}

int fstat64(int fd, struct stat64 *sb)
{
	return fstat(fd, (struct stat *)sb);
}

int stat64(const char *path, struct stat64 *sb)
{
	return fstatat(AT_FDCWD, path, (struct stat *)sb, 0);
}

int lstat64(const char *path, struct stat64 *sb)
{
	return fstatat(AT_FDCWD, path, (struct stat *)sb, AT_SYMLINK_NOFOLLOW);
}

/* what binaries built against glibc < 2.33 call */
int __xstat(int ver, const char *path, struct stat *sb)
{
	(void)ver;
	return fstatat(AT_FDCWD, path, sb, 0);
}

int __lxstat(int ver, const char *path, struct stat *sb)
{
	(void)ver;
	return fstatat(AT_FDCWD, path, sb, AT_SYMLINK_NOFOLLOW);
}

int __fxstat(int ver, int fd, struct stat *sb)
{
	(void)ver;
	return fstat(fd, sb);
}

int __fxstatat(int ver, int dirfd, const char *path, struct stat *sb, int flags)
{
	(void)ver;
	return fstatat(dirfd, path, sb, flags);
}

int __xstat64(int ver, const char *path, struct stat64 *sb)
{
	(void)ver;
	return fstatat(AT_FDCWD, path, (struct stat *)sb, 0);
}

int __lxstat64(int ver, const char *path, struct stat64 *sb)
{
	(void)ver;
	return fstatat(AT_FDCWD, path, (struct stat *)sb, AT_SYMLINK_NOFOLLOW);
}

int __fxstat64(int ver, int fd, struct stat64 *sb)
{
	(void)ver;
	return fstat(fd, (struct stat *)sb);
}

int __fxstatat64(int ver, int dirfd, const char *path, struct stat64 *sb, int flags)
{
	(void)ver;
	return fstatat(dirfd, path, (struct stat *)sb, flags);
}

int statx(int dirfd, const char *path, int flags, unsigned int mask, struct statx *sx)
{
	static int (*real)(int, const char *, int, unsigned int, struct statx *);
	int ret, saved;

	if (real == NULL)
		real = dlsym(RTLD_NEXT, "statx");
	if (real == NULL) {
		errno = ENOSYS;
		return -1;
	}
	ret = real(dirfd, path, flags, mask, sx);
	if (ret == 0) {
		uint64_t d = makedev(sx->stx_dev_major, sx->stx_dev_minor), i = sx->stx_ino;

		saved = errno;
		if (remap(&d, &i) && ss_active())
			ss_apply_statx(sx);
		sx->stx_dev_major = major(d);
		sx->stx_dev_minor = minor(d);
		sx->stx_ino = i;
		errno = saved;
	}
	return ret;
}

static void permute(struct dbuf *b)
{
	const char *mode = getenv("RDSHIM_MODE");
	size_t i;

	if (mode == NULL || !strcmp(mode, "none"))
		return;
	qsort(b->ents, b->count, sizeof(b->ents[0]), cmp_ent);
	if (!strcmp(mode, "sorted"))
		return;
	if (!strcmp(mode, "reverse")) {
		for (i = 0; i < b->count / 2; ++i) {
			struct dirent *t = b->ents[i];
			b->ents[i] = b->ents[b->count - 1 - i];
			b->ents[b->count - 1 - i] = t;
		}
		return;
	}
	if (!strncmp(mode, "rot:", 4) || !strncmp(mode, "rrot:", 5)) {
		int rev = mode[1] == 'r';
		size_t k = (size_t)strtoull(mode + (rev ? 5 : 4), NULL, 10), n = b->count;
		struct dirent **tmp;

		if (n == 0)
			return;
		tmp = malloc(n * sizeof(tmp[0]));
		if (tmp == NULL)
			abort();
		for (i = 0; i < n; ++i)
			tmp[i] = b->ents[rev ? n - 1 - i : i];
		for (i = 0; i < n; ++i)
			b->ents[i] = tmp[(i + k) % n];
		free(tmp);
		return;
	}
	if (!strncmp(mode, "seed:", 5)) {
		uint64_t h = 1469598103934665603ULL;
		for (i = 0; i < b->count; ++i) {
			const unsigned char *p = (const unsigned char *)b->ents[i]->d_name;
			for (; *p; ++p)
				h = (h ^ *p) * 1099511628211ULL;
			h = (h ^ 0xff) * 1099511628211ULL;
		}
		rng_state = h ^ (strtoull(mode + 5, NULL, 10) * 0x2545F4914F6CDD1DULL);
		for (i = b->count; i > 1; --i) {
			size_t j = (size_t)(rng() % i);
			struct dirent *t = b->ents[i - 1];
			b->ents[i - 1] = b->ents[j];
			b->ents[j] = t;
		}
	}
}

static void log_dir(const struct dbuf *b)
{
	const char *path = getenv("RDSHIM_LOG");
	char lnk[64], dirpath[4096];
	ssize_t n;
	FILE *f;
	size_t i;

	if (path == NULL)
		return;
	f = fopen(path, "a");
	if (f == NULL)
		return;
	snprintf(lnk, sizeof(lnk), "/proc/self/fd/%d", dirfd(b->dir));
	n = readlink(lnk, dirpath, sizeof(dirpath) - 1);
	if (n < 0)
		n = 0;
	dirpath[n] = '\0';
	fputs("D ", f);
	hexout(f, dirpath);
	fputc('\n', f);
	for (i = 0; i < b->count; ++i) {
		fputs("E ", f);
		hexout(f, b->ents[i]->d_name);
		fputc('\n', f);
	}
	fclose(f);
}

static struct dbuf *slurp(DIR *dir)
{
	struct dbuf *b = calloc(1, sizeof(*b));
	static int (*real_fstat)(int, struct stat *);
	struct stat dsb;
	uint64_t ddev = 0;
	int have_dev = 0;
	size_t cap = 0;

	if (b == NULL)
		abort();
	b->dir = dir;
	/* the device of the directory itself, unmapped: d_ino is an inode number on that device */
	if (real_fstat == NULL)
		real_fstat = dlsym(RTLD_NEXT, "fstat");
	if (real_fstat != NULL && real_fstat(dirfd(dir), &dsb) == 0) {
		ddev = dsb.st_dev;
		have_dev = 1;
	}
	for (;;) {
		struct dirent *e, *c;

		errno = 0;
		e = real_readdir(dir);
		if (e == NULL) {
			b->err = errno;
			break;
		}
		if (b->count == cap) {
			cap = cap ? cap * 2 : 32;
			b->ents = realloc(b->ents, cap * sizeof(b->ents[0]));
			if (b->ents == NULL)
				abort();
		}
		c = calloc(1, sizeof(*c));
		if (c == NULL)
			abort();
		memcpy(c, e, e->d_reclen < sizeof(*c) ? e->d_reclen : sizeof(*c));
		if (have_dev) {
			uint64_t d = ddev, i = c->d_ino;

			remap(&d, &i);
			c->d_ino = i;
		}
		if (ss_active() && ss.have[SS_DTYPE]) {
			ss_log();
			c->d_type = DT_UNKNOWN;
		}
		b->ents[b->count++] = c;
	}
	permute(b);
	log_dir(b);
	b->next = bufs;
	bufs = b;
	return b;
}

static struct dirent *shim_next(DIR *dir)
{
	struct dbuf *b;
	int saved = errno;

	init();
	for (b = bufs; b != NULL; b = b->next) {
		if (b->dir == dir)
			break;
	}
	if (b == NULL)
		b = slurp(dir);
	if (b->pos < b->count) {
		errno = saved;
		return b->ents[b->pos++];
	}
	errno = b->err ? b->err : saved;
	return NULL;
}

struct dirent *readdir(DIR *dir)
{
	return shim_next(dir);
}

struct dirent64 *readdir64(DIR *dir)
{
	/* struct dirent and struct dirent64 are the same type on the LP64 targets this runs on */
	return (struct dirent64 *)shim_next(dir);
}

int closedir(DIR *dir)
{
	struct dbuf **pp, *b;
	size_t i;

	init();
	for (pp = &bufs; *pp != NULL; pp = &(*pp)->next) {
		if ((*pp)->dir == dir) {
			b = *pp;
			*pp = b->next;
			for (i = 0; i < b->count; ++i)
				free(b->ents[i]);
			free(b->ents);
			free(b);
			break;
		}
	}
	return real_closedir(dir);
}
